#!/bin/sh
# usage: tools/mutant_run.sh <patch-file|-e 'sed-expr' file> -- <ID> [tier]
# Applies a mutation to a scratch copy of /repo (outside /repo and /verif), runs the check with
# VERIF_REPO pointing at the copy, then removes the copy and its build output (also on failure).
S=/tmp/vscratch_$$
W=${VERIF_WORK:-/verif/work}
cleanup() {
  TAG=$(python3 -c "import hashlib;print(hashlib.sha1('$S'.encode()).hexdigest()[:8])")
  rm -rf "$S" "$W"/*_"$TAG" "$W"/inproc_"$TAG"
}
trap cleanup EXIT INT TERM
rm -rf "$S"; mkdir -p "$S" || exit 2
rsync -a --exclude target --exclude .git /repo/ "$S"/ || exit 2
if [ "$1" = "-e" ]; then
  sed -i "$2" "$S/$3" || exit 2; shift 3
else
  P=$(readlink -f "$1"); (cd "$S" && patch -p1 -s < "$P") || { echo "patch failed"; exit 2; }; shift 1
fi
[ "$1" = "--" ] && shift
ID=$1; TIER=${2:-quick}
cd /verif
if cmp -s /repo/"${3:-/dev/null}" "$S"/"${3:-/dev/null}" 2>/dev/null; then :; fi
VERIF_REPO=$S bin/vcheck "$ID" --tier "$TIER" --no-evidence 2>&1 | tail -"${TAILN:-6}"
exit 0
