#!/bin/sh
# usage: tools/mutant_run.sh <patch-file|-e 'sed-expr' file> -- <ID> [tier]
# Applies a mutation to a scratch copy of /repo (outside /repo and /verif), runs the check with
# VERIF_REPO pointing at the copy, then removes the copy and its build output.
set -e
S=/tmp/vscratch_$$
rm -rf $S; mkdir -p $S
rsync -a --exclude target --exclude .git /repo/ $S/
if [ "$1" = "-e" ]; then
  sed -i "$2" "$S/$3"; shift 3
else
  (cd $S && patch -p1 -s < "$1"); shift 1
fi
[ "$1" = "--" ] && shift
ID=$1; TIER=${2:-quick}
cd /verif
VERIF_REPO=$S bin/vcheck $ID --tier $TIER --no-evidence 2>&1 | tail -${TAILN:-6} || true
TAG=$(python3 -c "import hashlib;print(hashlib.sha1('$S'.encode()).hexdigest()[:8])")
W=${VERIF_WORK:-/verif/work}; rm -rf $S $W/*_$TAG $W/inproc_$TAG
