#!/bin/bash
# tools/run_all_on.sh <repo-copy> [tier] : every check against a scratch copy (no evidence), one summary line each
repo=$1; tier=${2:-quick}
cd /verif
for p in C01 C02 C03 C04 C05 C06 C07 C08 C09 C10 C11 C12 C13 C14 C15 C16 C17 C18 C19 C20; do
  out=$(VERIF_REPO=$repo bin/vcheck $p --tier $tier --no-evidence 2>&1); rc=$?
  echo "$p rc=$rc $(echo "$out" | grep -cE '^VIOLATION') viol | $(echo "$out" | grep -E '^  ' | head -2 | cut -c1-260 | tr '\n' ' ')"
  [ $rc = 2 ] && echo "$out" | grep -E "INCONCLUSIVE" | head -2 | cut -c1-400
done
