#!/usr/bin/env python3
"""tools/eval_seed.py <PID> <src-dir-with patch.diff/run.sh/meta.json> [--checks C01,C18] [--tier quick|thorough|both] [--keep name]

Confirms a seeded defect (patch applies to a scratch copy of /repo, the repository's own test suite
still passes, the demonstration passes on the unchanged tree and fails on the patched one) and then
runs our check(s) against the patched copy.  Optionally stores it as /verif/seeded/<name>/.
Everything happens in scratch copies under /tmp that are removed afterwards.
"""
import argparse
import hashlib
import json
import os
import re
import shutil
import subprocess
import sys
import time

VERIF = os.path.dirname(os.path.dirname(os.path.abspath(__file__)))


def sh(cmd, cwd=None, env=None, timeout=3600):
    e = dict(os.environ)
    e["CARGO_NET_OFFLINE"] = "true"
    if env:
        e.update(env)
    p = subprocess.run(cmd, shell=isinstance(cmd, str), cwd=cwd, env=e, stdout=subprocess.PIPE, stderr=subprocess.STDOUT, timeout=timeout)
    return p.returncode, p.stdout.decode("utf8", "replace")


def main():
    ap = argparse.ArgumentParser()
    ap.add_argument("pid")
    ap.add_argument("src")
    ap.add_argument("--checks", default=None)
    ap.add_argument("--tier", default="quick")
    ap.add_argument("--keep", default=None)
    ap.add_argument("--skip-suite", action="store_true")
    ap.add_argument("--skip-demo", action="store_true")
    ap.add_argument("--root", default="seeded", help="directory under /verif that --keep stores into (seeded | benign)")
    a = ap.parse_args()
    src = os.path.abspath(a.src)
    patch = os.path.join(src, "patch.diff")
    scratch = "/tmp/vseed_%d" % os.getpid()
    clean = scratch + "_clean"
    result = {"property": a.pid, "source": src}
    try:
        for d in (scratch, clean):
            shutil.rmtree(d, ignore_errors=True)
            subprocess.check_call(["rsync", "-a", "--exclude", "target", "--exclude", ".git", "/repo/", d + "/"])
        rc, out = sh(["git", "apply", "--unsafe-paths", "--directory=" + scratch, patch], cwd="/")
        if rc != 0:
            rc, out = sh("patch -p1 -s < %s" % patch, cwd=scratch)
        result["applies"] = rc == 0
        if rc != 0:
            print("PATCH DOES NOT APPLY:\n" + out[-1500:])
            print(json.dumps(result))
            return 2
        # the repository's own suite on the patched copy
        if not a.skip_suite:
            t0 = time.time()
            rc, out = sh("cargo test --workspace --no-fail-fast --offline 2>&1 | grep -E '^test result|FAILED|failed|^error' | sort | uniq -c | sort -rn | head -20", cwd=scratch,
                         env={"CARGO_TARGET_DIR": scratch + "/target"})
            failed = [l for l in out.splitlines() if "FAILED" in l or re.search(r"\b[1-9]\d* failed", l) or l.strip().startswith("error")]
            # compile_fail fails offline on the unchanged tree too
            failed = [l for l in failed if "compile_fail" not in l]
            only_cf = all(("1 failed" in l and "0 passed" in l) or "compile_fail" in l or "test failed, to rerun" in l or "error: test failed" in l or "error: 1 target failed" in l or "`-p derive_more --test compile_fail`" in l for l in failed)
            result["suite_ok"] = only_cf
            result["suite_summary"] = out[-1200:]
            print("suite on patched tree: %s (%.0fs)" % ("passes (except compile_fail, as on the unchanged tree)" if only_cf else "FAILS", time.time() - t0))
            if not only_cf:
                print(out[-1500:])
        # demonstration
        run = os.path.join(src, "run.sh")
        made = []
        if os.path.exists(run) and not a.skip_demo:
            # the sub-agents' scripts keep scratch data under their own /tmp/seed*_out directory and assume it exists
            # (with it missing, `mktemp -d /tmp/seedX_out/...` fails and the script would write into the current directory)
            for d in sorted(set(re.findall(r"/tmp/seed\w*_out", open(run).read()))):
                if not os.path.exists(d):
                    os.makedirs(d)
                    made.append(d)
        if os.path.exists(run) and not a.skip_demo:
            rc0, out0 = sh(["bash", run, clean], cwd=src, timeout=1800)
            rc1, out1 = sh(["bash", run, scratch], cwd=src, timeout=1800)
            result["demo_unchanged_rc"], result["demo_patched_rc"] = rc0, rc1
            print("demo: unchanged rc=%s, patched rc=%s" % (rc0, rc1))
            if rc0 != 0:
                print(out0[-800:])
        for d in made:
            shutil.rmtree(d, ignore_errors=True)
        # our checks
        checks = (a.checks or a.pid).split(",")
        tiers = ["quick", "thorough"] if a.tier == "both" else [a.tier]
        result["checks"] = {}
        for c in checks:
            for tier in tiers:
                t0 = time.time()
                # builds for the scratch copy go into a target directory of their own (removed below): artefacts of
                # hundreds of patched copies would otherwise pile up in the shared cache
                rc, out = sh([os.path.join(VERIF, "bin", "vcheck"), c, "--tier", tier, "--no-evidence"], cwd=VERIF,
                             env={"VERIF_REPO": scratch, "VERIF_TARGET": scratch + "_vtarget"}, timeout=7200)
                fired = rc == 1 and "VIOLATION property=" in out
                lines = [l for l in out.splitlines() if l.startswith("  ") or "VIOLATION" in l or "INCONCLUSIVE" in l or " HELD " in l or " VIOLATED " in l]
                result["checks"]["%s:%s" % (c, tier)] = {"rc": rc, "fired": fired, "wall_s": round(time.time() - t0, 1), "first": "\n".join(lines[:3])[:600]}
                print("check %s %s: rc=%s fired=%s (%.0fs)\n    %s" % (c, tier, rc, fired, time.time() - t0, "\n    ".join(lines[:2])[:500]))
                if fired:
                    break
        if a.keep:
            dst = os.path.join(VERIF, a.root, a.keep)
            os.makedirs(dst, exist_ok=True)
            for f in os.listdir(src):
                p = os.path.join(src, f)
                if os.path.isdir(p) and f in ("target",):
                    continue
                if os.path.isdir(p):
                    shutil.copytree(p, os.path.join(dst, f), dirs_exist_ok=True, ignore=shutil.ignore_patterns("target", "Cargo.lock"))
                else:
                    shutil.copy(p, os.path.join(dst, f))
            meta = {}
            try:
                meta = json.load(open(os.path.join(src, "meta.json")))
            except (OSError, ValueError):
                pass
            meta["verification"] = result
            json.dump(meta, open(os.path.join(dst, "meta.json"), "w"), indent=1)
        print(json.dumps({k: v for k, v in result.items() if k != "suite_summary"}))
        return 0
    finally:
        tag = hashlib.sha1(scratch.encode()).hexdigest()[:8]
        for d in (scratch, clean, scratch + "_vtarget"):
            shutil.rmtree(d, ignore_errors=True)
        for w in (os.path.join(VERIF, "work"),):
            for f in os.listdir(w) if os.path.isdir(w) else []:
                if f.endswith("_" + tag) or ("_" + tag + "_") in f or f == "inproc_" + tag:
                    p = os.path.join(w, f)
                    shutil.rmtree(p, ignore_errors=True) if os.path.isdir(p) else os.unlink(p)
        shutil.rmtree(os.path.join(VERIF, "work", "replays_" + tag), ignore_errors=True)


if __name__ == "__main__":
    sys.exit(main())
