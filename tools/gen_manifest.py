#!/usr/bin/env python3
"""Regenerates MANIFEST.json from the table below (bookkeeping only)."""
import json, os
V = os.path.dirname(os.path.dirname(os.path.abspath(__file__)))
props = [json.loads(l) for l in open(os.path.join(V, "properties.jsonl"))]
CHECKS = json.load(open(os.path.join(V, "tools", "checks.json")))
m = {
 "version": 1,
 "setup_cmd": "bin/setup",
 "hooks": {
  "guard": "derive_more_verif",
  "enable": "no source hooks are needed: the monitors observe the working tree through the real proc-macro (cargo path dependency on /repo) and through #[path] inclusion of /repo/impl/src/** in the in-process harness (harness/inproc); the guard name is reserved and unused",
  "baseline_off_cmd": "cd /repo && cargo test --workspace --no-fail-fast --offline",
  "source_commits": [],
  "add_only": True
 },
 "engines": [
  {"name": "vcheck", "path": "bin/vcheck", "serves_properties": sorted(CHECKS), "kind_free_text": "Python driver: seeded workload generators, in-process expansion harness (real impl sources via #[path]), generated programs with spy types and event logs, rustc diagnostics as events, offline oracles"}
 ],
 "checks": [],
 "not_applicable": [],
 "notes": "Exit codes of bin/vcheck: 0 held on everything observed, 1 violation (VIOLATION line), 2 inconclusive (infrastructure failure or too little observed; never reported as a violation). VERIF_SEED selects the workload; VERIF_REPO may point at a scratch copy of the repository for validating the monitors."
}
for p in props:
    pid = p["id"]
    c = CHECKS.get(pid)
    if not c:
        m["not_applicable"].append({"property_id": pid, "reason": "check not built yet (work in progress; runtime monitoring applies, see DESIGN.md section 4)"})
        continue
    m["checks"].append({
        "property_id": pid,
        "quick_cmd": "bin/vcheck %s --tier quick" % pid,
        "thorough_cmd": "bin/vcheck %s --tier thorough" % pid,
        "evidence_file": "/verif/evidence/%s.json" % pid,
        "replay_cmd_template": "sh {path}/replay.sh",
        "engine": "vcheck",
        "level_claimed": {"category": "exploration", "text": c["text"], "design_ref": "DESIGN.md section 4, " + pid},
        "level_note": c["note"],
        "technique": c["technique"],
    })
json.dump(m, open(os.path.join(V, "MANIFEST.json"), "w"), indent=1)
print("checks:", len(m["checks"]), "not_applicable:", len(m["not_applicable"]))
