#!/usr/bin/env python3
"""tools/mutate.py gen|survivors ...

Unbiased mutation testing of the monitors (complements the sub-agent seeded defects):

  gen --n N --seed S --out DIR [-j J]
      samples N single-token mutations of /repo's impl/src/**.rs and src/**.rs (operator flips, boolean flips,
      boundary shifts, first/last, any/all, dropped `!`, dropped `.unraw()` ...), applies each to a scratch copy of /repo
      (one persistent copy + target directory per worker under /tmp, removed at the end), runs the repository's own suite
      and keeps the mutants that BUILD AND PASS it ("survivors of the suite") as DIR/<id>/patch.diff + meta.json.

  check --dir DIR [-j J]
      runs every quick check against every survivor (tools/eval_seed.py --skip-suite --skip-demo) and records which fire.
      A survivor that no check kills is either an equivalent mutant or a gap: DIR/summary.json lists them for triage.
"""
import argparse
import json
import os
import random
import re
import shutil
import subprocess
import sys
from concurrent.futures import ThreadPoolExecutor

VERIF = os.path.dirname(os.path.dirname(os.path.abspath(__file__)))
REPO = "/repo"

# (name, regex, replacement) applied to code with comments and string literals masked out
OPS = [
    ("eq->ne", r"(?<![=!<>])==(?!=)", "!="), ("ne->eq", r"!=(?!=)", "=="),
    ("and->or", r"&&", "||"), ("or->and", r"\|\|(?!\s*\{)", "&&"),
    ("lt->le", r"(?<= )<(?= )", "<="), ("gt->ge", r"(?<= )>(?= )", ">="), ("le->lt", r"(?<= )<=(?= )", "<"), ("ge->gt", r"(?<= )>=(?= )", ">"),
    ("true->false", r"\btrue\b", "false"), ("false->true", r"\bfalse\b", "true"),
    ("plus1->plus0", r"\+ 1\b", "+ 0"), ("minus1->plus1", r"- 1\b", "+ 1"), ("plus1->minus1", r"\+ 1\b", "- 1"),
    ("is_some->is_none", r"\.is_some\(\)", ".is_none()"), ("is_none->is_some", r"\.is_none\(\)", ".is_some()"),
    ("any->all", r"\.any\(", ".all("), ("all->any", r"\.all\(", ".any("),
    ("first->last", r"\.first\(\)", ".last()"), ("last->first", r"\.last\(\)", ".first()"),
    ("drop-not", r"(?<![\w)\]>])!(?=[A-Za-z_(])", ""),
    ("drop-unraw", r"\.unraw\(\)", ""),
    ("is_empty->not", r"(\b[\w.()]+)\.is_empty\(\)", r"!\1.is_empty()"),
    ("skip1->skip0", r"\.skip\(1\)", ".skip(0)"), ("zero->one", r"(?<![\w.])0(?![\w.])", "1"), ("one->zero", r"(?<![\w.])1(?![\w.])", "0"),
    ("some->none-ish", r"\.unwrap_or_default\(\)", ".unwrap_or(true)"),
    ("filter-negate", r"\.filter\(\|([^|]+)\| ", r".filter(|\1| !"),
    ("rev", r"\.iter\(\)\.enumerate\(\)", ".iter().rev().enumerate()"),
    ("min->max", r"\.min\(", ".max("), ("max->min", r"\.max\(", ".min("),
]


def mask(src):
    """Same-length text with comments and string/char literals blanked (so offsets stay valid)."""
    out = list(src)
    pat = re.compile(r'//[^\n]*|/\*.*?\*/|r#*"(?:.|\n)*?"#*|"(?:[^"\\]|\\.)*"|\'(?:[^\'\\\n]|\\.)\'', re.S)
    for m in pat.finditer(src):
        txt = m.group(0)
        keep_quote_bang = False
        for i in range(m.start(), m.end()):
            if out[i] != "\n":
                out[i] = " "
    return "".join(out)


def sites():
    res = []
    for root in ("impl/src", "src"):
        for dp, dn, fn in os.walk(os.path.join(REPO, root)):
            for f in sorted(fn):
                if not f.endswith(".rs"):
                    continue
                p = os.path.join(dp, f)
                rel = os.path.relpath(p, REPO)
                src = open(p).read()
                # never mutate test modules / doc tests at the end of files
                cut = src.find("#[cfg(test)]")
                m = mask(src if cut < 0 else src[:cut])
                for name, rx, rep in OPS:
                    for mm in re.finditer(rx, m):
                        res.append((rel, name, mm.start(), mm.end(), mm.expand(rep) if "\\" in rep else rep))
    return res


def sh(cmd, cwd=None, env=None, timeout=1800):
    e = dict(os.environ)
    e["CARGO_NET_OFFLINE"] = "true"
    if env:
        e.update(env)
    try:
        p = subprocess.run(cmd, shell=isinstance(cmd, str), cwd=cwd, env=e, stdout=subprocess.PIPE, stderr=subprocess.STDOUT, timeout=timeout)
        return p.returncode, p.stdout.decode("utf8", "replace")
    except subprocess.TimeoutExpired:
        return 124, "timeout"


def suite_ok(wdir):
    rc, out = sh("cargo test --workspace --no-fail-fast --offline 2>&1 | grep -E '^test result|^error|test failed|FAILED|panicked' | head -60", cwd=wdir,
                 env={"CARGO_TARGET_DIR": wdir + "_target"}, timeout=1500)
    if "error: could not compile" in out or re.search(r"^error(\[E\d+\])?:", out, re.M) and "test failed" not in out:
        return "build-fails", out[-600:]
    fails = [l for l in out.splitlines() if re.search(r"\b[1-9]\d* failed", l)]
    # compile_fail has exactly one test, which fails offline on the unchanged tree too
    real = [l for l in fails if not re.search(r"0 passed; 1 failed", l)]
    if real or "panicked" in out and not fails:
        return "suite-kills", "\n".join(real)[-600:]
    if not re.search(r"test result: ok\. [1-9]\d+ passed", out):
        return "no-tests-ran", out[-600:]
    return "survives", ""


def gen(a):
    rng = random.Random(a.seed)
    allsites = sites()
    rng.shuffle(allsites)
    # at most 3 mutants per (file, operator) so that big files do not dominate
    cnt, chosen = {}, []
    skip = set()
    if a.skip_done:
        skip = set(tuple(x) for x in json.load(open(a.skip_done)))
    for s in allsites:
        k = (s[0], s[1])
        line = open(os.path.join(REPO, s[0])).read().count("\n", 0, s[2]) + 1
        if ("%s:%d" % (s[0], line), s[1]) in skip:
            continue
        if cnt.get(k, 0) >= a.cap:
            continue
        cnt[k] = cnt.get(k, 0) + 1
        chosen.append(s)
        if len(chosen) >= a.n:
            break
    os.makedirs(a.out, exist_ok=True)
    print("%d mutation sites, %d sampled" % (len(allsites), len(chosen)), flush=True)
    workers = []
    for w in range(a.j):
        wdir = "/tmp/vmut_%d_%d" % (os.getpid(), w)
        subprocess.check_call(["rsync", "-a", "--delete", "--exclude", "target", "--exclude", ".git", REPO + "/", wdir + "/"])
        workers.append(wdir)
    # warm the target directories
    with ThreadPoolExecutor(max_workers=a.j) as ex:
        list(ex.map(lambda w: sh("cargo test --workspace --no-run --offline", cwd=w, env={"CARGO_TARGET_DIR": w + "_target"}), workers))
    chunks = [chosen[i::a.j] for i in range(a.j)]
    stats = {}

    def work(wi):
        wdir = workers[wi]
        for k, (rel, name, s, e, rep) in enumerate(chunks[wi]):
            mid = "m%03d_%d" % (k, wi)
            orig = open(os.path.join(REPO, rel)).read()
            mut = orig[:s] + rep + orig[e:]
            open(os.path.join(wdir, rel), "w").write(mut)
            status, info = suite_ok(wdir)
            stats[status] = stats.get(status, 0) + 1
            line = orig.count("\n", 0, s) + 1
            print("%s %s %s:%d %s -> %s" % (mid, status, rel, line, name, orig[max(0, s - 30):e + 20].replace("\n", " ")[:80]), flush=True)
            if status == "survives":
                d = os.path.join(a.out, mid)
                os.makedirs(d, exist_ok=True)
                rc, diff = sh(["diff", "-u", "--label", "a/" + rel, "--label", "b/" + rel, os.path.join(REPO, rel), os.path.join(wdir, rel)])
                open(os.path.join(d, "patch.diff"), "w").write(diff)
                json.dump({"property": "MUT", "operator": name, "file": rel, "line": line, "context": orig[max(0, s - 120):e + 120],
                           "summary": "%s at %s:%d" % (name, rel, line)}, open(os.path.join(d, "meta.json"), "w"), indent=1)
            open(os.path.join(wdir, rel), "w").write(orig)
    try:
        with ThreadPoolExecutor(max_workers=a.j) as ex:
            list(ex.map(work, range(a.j)))
    finally:
        for w in workers:
            shutil.rmtree(w, ignore_errors=True)
            shutil.rmtree(w + "_target", ignore_errors=True)
    print("outcomes:", stats)
    json.dump(stats, open(os.path.join(a.out, "gen_stats.json"), "w"))


# checks most likely to see a mutation of a given file: run first (with the fast broad ones); the remaining checks are run
# only on mutants that survived those
BY_FILE = [("impl/src/fmt/parsing.rs", "C03,C02,C05"), ("impl/src/fmt/", "C02,C04,C05,C07,C03,C06"), ("src/fmt.rs", "C06"), ("impl/src/parsing.rs", "C16,C04,C02"),
           ("impl/src/from.rs", "C08"), ("impl/src/into.rs", "C08"), ("impl/src/constructor", "C08"), ("impl/src/error.rs", "C09"), ("impl/src/from_str.rs", "C13"),
           ("impl/src/try_from.rs", "C12"), ("impl/src/as/", "C14"), ("src/as.rs", "C14"), ("impl/src/deref", "C14"), ("impl/src/index", "C14"), ("impl/src/into_iterator", "C14"),
           ("impl/src/is_variant", "C11"), ("impl/src/unwrap", "C11"), ("impl/src/try_unwrap", "C11"), ("impl/src/try_into", "C11"),
           ("impl/src/add", "C10"), ("impl/src/mul", "C10"), ("impl/src/not", "C10"), ("impl/src/sum", "C10"), ("src/", "C20,C10,C11"),
           ("impl/src/utils.rs", "C11,C14,C09,C10,C08,C12"), ("impl/src/lib.rs", "C20")]
FAST = "C01,C17,C18,C15"


def check(a):
    ALL = ["C%02d" % i for i in range(1, 21)]
    ids = sorted(d for d in os.listdir(a.dir) if os.path.isfile(os.path.join(a.dir, d, "patch.diff")))

    def run_checks(d, checks):
        rc, out = sh([sys.executable, os.path.join(VERIF, "tools", "eval_seed.py"), "MUT", d, "--skip-suite", "--skip-demo", "--checks", ",".join(checks), "--tier", "quick"],
                     cwd=VERIF, timeout=7200)
        return (re.findall(r"^check (C\d\d) quick: rc=1 fired=True", out, re.M), re.findall(r"^check (C\d\d) quick: rc=2", out, re.M), "PATCH DOES NOT APPLY" not in out)

    def one(mid):
        d = os.path.join(a.dir, mid)
        if os.path.exists(os.path.join(d, "result.json")):
            return mid, json.load(open(os.path.join(d, "result.json")))
        meta = json.load(open(os.path.join(d, "meta.json")))
        if a.checks:
            stage1 = a.checks.split(",")
        else:
            stage1 = FAST.split(",")
            for pre, cs in BY_FILE:
                if meta["file"].startswith(pre):
                    stage1 += [c for c in cs.split(",") if c not in stage1]
                    break
        fired, incon, applies = run_checks(d, stage1)
        ran = list(stage1)
        if not fired and not a.checks and applies and not a.no_stage2:
            rest = [c for c in ALL if c not in stage1]
            f2, i2, _ = run_checks(d, rest)
            fired, incon, ran = fired + f2, incon + i2, ran + rest
        res = {"fired": fired, "inconclusive": incon, "applies": applies, "checks_run": ran}
        json.dump(res, open(os.path.join(d, "result.json"), "w"))
        return mid, res
    summary = {}
    with ThreadPoolExecutor(max_workers=a.j) as ex:
        for mid, res in ex.map(one, ids):
            m = json.load(open(os.path.join(a.dir, mid, "meta.json")))
            summary[mid] = dict(res, summary=m["summary"])
            print(mid, m["summary"], "KILLED by " + ",".join(res["fired"]) if res["fired"] else "NOT KILLED", res["inconclusive"] or "", flush=True)
    json.dump(summary, open(os.path.join(a.dir, "summary.json"), "w"), indent=1)
    nk = [k for k, v in summary.items() if not v["fired"]]
    print("%d survivors of the suite, %d killed by the checks, %d not killed: %s" % (len(summary), len(summary) - len(nk), len(nk), nk))


def main():
    ap = argparse.ArgumentParser()
    sub = ap.add_subparsers(dest="cmd")
    g = sub.add_parser("gen")
    g.add_argument("--n", type=int, default=120)
    g.add_argument("--seed", type=int, default=1)
    g.add_argument("--out", required=True)
    g.add_argument("-j", type=int, default=4)
    g.add_argument("--cap", type=int, default=3, help="max mutants per (file, operator)")
    g.add_argument("--skip-done", default=None, help="JSON list of [file:line, operator] pairs already tried")
    c = sub.add_parser("check")
    c.add_argument("--dir", required=True)
    c.add_argument("--checks", default=None)
    c.add_argument("--no-stage2", action="store_true", help="only the checks mapped to the mutated file plus the fast broad ones")
    c.add_argument("-j", type=int, default=3)
    a = ap.parse_args()
    if a.cmd == "gen":
        gen(a)
    elif a.cmd == "check":
        check(a)
    else:
        ap.print_help()


if __name__ == "__main__":
    main()
