#!/bin/bash
# tools/regress_benign.sh [-j N]: every stored harmless change (benign/*) against every quick check; prints the checks that fired
# or were inconclusive (there must be none) - the false-alarm counterpart of tools/regress_seeds.py
cd /verif
J=3; [ "$1" = "-j" ] && J=$2
ALL=C01,C02,C03,C04,C05,C06,C07,C08,C09,C10,C11,C12,C13,C14,C15,C16,C17,C18,C19,C20
rm -rf work/benign_logs; mkdir -p work/benign_logs
ls benign | while read d; do grep -q '"disposition"' benign/$d/meta.json || echo $d; done | xargs -P $J -I{} sh -c "python3 tools/eval_seed.py BENIGN benign/{} --skip-suite --skip-demo --checks $ALL --tier quick > work/benign_logs/{}.log 2>&1"
bad=0
for f in work/benign_logs/*.log; do
  n=$(grep -c "^check" $f); x=$(grep "^check" $f | grep -v "rc=0 fired=False" | awk '{print $2}' | tr '\n' ',')
  echo "$(basename $f .log) checks=$n not-silent=[$x]"; [ -n "$x" ] && bad=1; [ "$n" = 20 ] || bad=1
done
exit $bad
