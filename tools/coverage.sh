#!/bin/sh
# tools/coverage.sh [tier] [ID...]  - which lines of /repo/impl/src and /repo/src do the monitors' workloads execute?
#
# Not a check (nothing is decided here): a gap finder for the generators.  Every listed check (default: all 20) is run
# once on the nightly toolchain with -Cinstrument-coverage, so that the REAL proc-macro (loaded by rustc while it compiles
# the generated programs), the in-process harness (harness/inproc, which #[path]-includes impl/src) and the generated
# programs themselves (run-time helpers in /repo/src) write LLVM profiles.  Verdicts of this run are ignored (nightly's
# lints differ from the pinned stable toolchain); only the profiles are used.  Output: per-file line coverage and the
# list of uncovered regions under $OUT (default /tmp/vcov), a summary on stdout.  Everything lives under $OUT; remove it
# afterwards (several GB).
set -u
TIER=${1:-quick}; [ $# -gt 0 ] && shift
IDS=${*:-C01 C02 C03 C04 C05 C06 C07 C08 C09 C10 C11 C12 C13 C14 C15 C16 C17 C18 C19 C20}
OUT=${OUT:-/tmp/vcov}
V=$(cd "$(dirname "$0")/.." && pwd)
BIN=$(rustc +nightly --print sysroot)/lib/rustlib/x86_64-unknown-linux-gnu/bin
mkdir -p "$OUT/prof" "$OUT/logs"
export RUSTUP_TOOLCHAIN=nightly CARGO_NET_OFFLINE=true
export VERIF_WORK="$OUT/work" VERIF_TARGET="$OUT/target"
export RUSTFLAGS="-Cinstrument-coverage" LLVM_PROFILE_FILE="$OUT/prof/%8m.profraw"
for id in $IDS; do
  ( cd "$V" && timeout 3600 bin/vcheck "$id" --tier "$TIER" --no-evidence >"$OUT/logs/$id.log" 2>&1 ); echo "$id rc=$? $(tail -1 "$OUT/logs/$id.log" | cut -c1-160)"
done
unset RUSTFLAGS LLVM_PROFILE_FILE
"$BIN/llvm-profdata" merge -sparse --failure-mode=warn "$OUT"/prof/*.profraw -o "$OUT/all.profdata" 2>"$OUT/logs/merge.log"
# objects: every build of the proc-macro, of the in-process harness and a handful of generated programs
OBJS=""
for f in $(find "$OUT/target" "$OUT/work" -name 'libderive_more_impl-*.so' 2>/dev/null) \
         $(find "$OUT/target" "$OUT/work" -type f -perm -u+x \( -name 'inproc*' -o -name 'w_*' \) ! -name '*.d' 2>/dev/null | head -400); do
  OBJS="$OBJS -object $f"
done
# shellcheck disable=SC2086
"$BIN/llvm-cov" report $OBJS -instr-profile="$OUT/all.profdata" -ignore-filename-regex='(registry|rustc|/harness/|/work/|/target/)' >"$OUT/report.txt" 2>"$OUT/logs/report.err"
# shellcheck disable=SC2086
"$BIN/llvm-cov" show $OBJS -instr-profile="$OUT/all.profdata" -ignore-filename-regex='(registry|rustc|/harness/|/work/|/target/)' -show-line-counts-or-regions >"$OUT/show.txt" 2>>"$OUT/logs/report.err"
grep -E 'repo/(impl/)?src|TOTAL|Filename' "$OUT/report.txt" | awk '{print $1, $(NF-5), $(NF-4), $(NF-3)}'
