#!/usr/bin/env python3
"""tools/regress_seeds.py [-j N] [pattern]

Re-runs, for every stored seeded defect under /verif/seeded/, the check(s) that caught it when it was
stored (same tier), against a scratch copy of the CURRENT /repo with the patch applied, and reports the
ones that are no longer caught (or whose patch no longer applies).  Uses tools/eval_seed.py --skip-suite;
nothing is stored.  Exit 0 if every seed is still caught.
"""
import argparse
import fnmatch
import json
import os
import subprocess
import sys
from concurrent.futures import ThreadPoolExecutor

VERIF = os.path.dirname(os.path.dirname(os.path.abspath(__file__)))


def one(name):
    d = os.path.join(VERIF, "seeded", name)
    try:
        meta = json.load(open(os.path.join(d, "meta.json")))
    except (OSError, ValueError):
        return name, "no-meta", ""
    if meta.get("disposition", "").startswith(("rejected", "stale")):
        return name, "skipped(%s seed)" % meta["disposition"].split(":")[0], ""
    v = meta.get("verification", {})
    fired = [k for k, x in v.get("checks", {}).items() if x.get("fired")]
    if not fired:
        return name, "never-caught", ""
    chk, tier = fired[0].split(":")
    pid = meta.get("property") or name.split("_")[0]
    p = subprocess.run([sys.executable, os.path.join(VERIF, "tools", "eval_seed.py"), pid, d, "--skip-suite", "--skip-demo", "--checks", chk, "--tier", tier],
                       stdout=subprocess.PIPE, stderr=subprocess.STDOUT, cwd=VERIF)
    out = p.stdout.decode("utf8", "replace")
    if "PATCH DOES NOT APPLY" in out:
        return name, "patch-does-not-apply", out[-400:]
    if "fired=True" in out:
        return name, "caught", chk + ":" + tier
    return name, "MISSED", out[-600:]


def main():
    ap = argparse.ArgumentParser()
    ap.add_argument("-j", type=int, default=4)
    ap.add_argument("pattern", nargs="?", default="*")
    a = ap.parse_args()
    names = sorted(n for n in os.listdir(os.path.join(VERIF, "seeded")) if fnmatch.fnmatch(n, a.pattern) and os.path.isfile(os.path.join(VERIF, "seeded", n, "patch.diff")))
    bad = 0
    with ThreadPoolExecutor(max_workers=a.j) as ex:
        for name, status, info in ex.map(one, names):
            print("%-12s %s %s" % (name, status, info if status != "caught" else "(" + info + ")"), flush=True)
            if status != "caught" and not status.startswith("skipped("):
                bad += 1
    print("%d seeds, %d not caught" % (len(names), bad))
    return 1 if bad else 0


if __name__ == "__main__":
    sys.exit(main())
