"""Shared machinery for the derive_more runtime monitors (see DESIGN.md §2, §3).

Everything here is stdlib-only Python 3.  A property module `vc.cNN` exposes
`run(ctx) -> None`; it records what it observed through the `Ctx` object and the
driver (`bin/vcheck`) turns that into evidence, exit code and VIOLATION lines.
"""
import hashlib
import json
import os
import random
import shutil
import subprocess
import sys
import time

VERIF = os.path.dirname(os.path.dirname(os.path.dirname(os.path.abspath(__file__))))
REPO = os.path.abspath(os.environ.get("VERIF_REPO", "/repo"))
WORK = os.environ.get("VERIF_WORK", os.path.join(VERIF, "work"))
# (VERIF_TARGET: monitor validation against scratch copies builds into a directory of its own that is removed afterwards)
TARGET = os.environ.get("VERIF_TARGET") or os.path.join(WORK, "target")
NCPU = os.cpu_count() or 4

EXIT_OK, EXIT_VIOLATION, EXIT_INCONCLUSIVE = 0, 1, 2


def repo_tag():
    """Scratch copies of the repository get their own work/crate dirs."""
    if REPO == "/repo":
        return ""
    return "_" + hashlib.sha1(REPO.encode()).hexdigest()[:8]


class Inconclusive(Exception):
    """Infrastructure failure or unreached workload: never a violation."""


class Violation:
    def __init__(self, key, what, detail):
        self.key = key          # stable signature used for known-finding matching
        self.what = what        # one line
        self.detail = detail    # dict written to the replay directory


class Ctx:
    def __init__(self, pid, tier, seed, replay=None):
        self.pid = pid
        self.tier = tier
        self.seed = seed
        self.replay = replay
        self.rng = random.Random((seed * 1000003) ^ int(hashlib.sha1(pid.encode()).hexdigest()[:8], 16))
        self.t0 = time.time()
        self.evaluations = 0
        self.classes = set()
        self.samples = []
        self.rule = ""
        self.extra = {}
        self.assumptions = []
        self.violations = []
        self.known_hits = {}
        self.notes = []
        self.workdir = os.path.join(WORK, pid + repo_tag(), tier)
        os.makedirs(self.workdir, exist_ok=True)
        self.exhaustive = False

    # -- recording ---------------------------------------------------------
    def count(self, n=1):
        self.evaluations += n

    def cls(self, *key):
        """Register the (non-trivial) class of a case for distinct_nontrivial."""
        self.classes.add(key if len(key) != 1 else key[0])

    def sample(self, obj, cap=12):
        if len(self.samples) < cap:
            self.samples.append(obj)

    def bump(self, key, n=1):
        self.extra[key] = self.extra.get(key, 0) + n

    def violate(self, key, what, **detail):
        self.violations.append(Violation(key, what, detail))

    def quick(self):
        return self.tier == "quick"

    def pick(self, q, t):
        return q if self.tier == "quick" else t


# ---------------------------------------------------------------------------
# known findings

def load_known():
    p = os.path.join(VERIF, "known_findings.json")
    if not os.path.exists(p):
        return []
    with open(p) as f:
        data = json.load(f)
    return [e for e in data.get("findings", []) if e.get("status", "open") == "open"]


def match_known(pid, v, known):
    for e in known:
        if e["property"] != pid:
            continue
        sig = e["signature"]
        if sig == v.key:
            return e
    return None


# ---------------------------------------------------------------------------
# processes

def run(cmd, cwd=None, env=None, timeout=None, input=None, check=False):
    e = dict(os.environ)
    e.setdefault("CARGO_NET_OFFLINE", "true")
    e["CARGO_TERM_COLOR"] = "never"
    if env:
        e.update(env)
    try:
        p = subprocess.run(cmd, cwd=cwd, env=e, timeout=timeout, input=input,
                           stdout=subprocess.PIPE, stderr=subprocess.PIPE)
    except subprocess.TimeoutExpired as ex:
        raise Inconclusive("timeout running %s" % (cmd,)) from ex
    if check and p.returncode != 0:
        raise Inconclusive("command failed (%d): %s\n%s" % (
            p.returncode, cmd, p.stderr.decode("utf8", "replace")[-4000:]))
    return p


def write_if_changed(path, text):
    os.makedirs(os.path.dirname(path), exist_ok=True)
    try:
        with open(path) as f:
            if f.read() == text:
                return False
    except OSError:
        pass
    with open(path, "w") as f:
        f.write(text)
    return True


CRATE_PROFILE = """
[profile.dev]
opt-level = 0
debug = 0
incremental = false
overflow-checks = true
debug-assertions = true
"""


def make_crate(cdir, name, files, deps=("derive_more", "rt"), dm_features=("full",),
               edition="2021", extra_toml="", lib=False, dm_default_features=True):
    """Write a generated crate.  `files` maps relative path -> text."""
    dep_lines = []
    if "derive_more" in deps:
        feats = ", ".join('"%s"' % f for f in dm_features)
        dep_lines.append('derive_more = { path = "%s", features = [%s]%s }' % (
            REPO, feats, "" if dm_default_features else ", default-features = false"))
    if "rt" in deps:
        dep_lines.append('rt = { path = "%s" }' % os.path.join(VERIF, "harness", "rt"))
    toml = """[package]
name = "%s"
version = "0.0.0"
edition = "%s"

[workspace]

[dependencies]
%s
%s
%s
""" % (name, edition, "\n".join(dep_lines), CRATE_PROFILE, extra_toml)
    # remove stale sources (old shards) first
    srcd = os.path.join(cdir, "src")
    keep = set(os.path.join(cdir, p) for p in files)
    if os.path.isdir(srcd):
        for root, _, fs in os.walk(srcd):
            for f in fs:
                p = os.path.join(root, f)
                if p not in keep:
                    os.unlink(p)
    write_if_changed(os.path.join(cdir, "Cargo.toml"), toml)
    lock = os.path.join(REPO, "Cargo.lock")
    if os.path.exists(lock) and not os.path.exists(os.path.join(cdir, "Cargo.lock")):
        shutil.copy(lock, os.path.join(cdir, "Cargo.lock"))
    for rel, text in files.items():
        write_if_changed(os.path.join(cdir, rel), text)
    return cdir


def cargo_json(cdir, sub=("check",), extra=(), env=None, timeout=3600, target=None, toolchain=None, jobs=None):
    """Run cargo with JSON messages; returns (returncode, diagnostics, artifacts, stderr).

    Only compiler messages whose target lives inside `cdir` are returned."""
    cmd = ["cargo"]
    if toolchain:
        cmd.append("+" + toolchain)
    cmd += list(sub) + ["--offline", "--message-format=json", "-j", str(jobs or NCPU)] + list(extra)
    e = {"CARGO_TARGET_DIR": target or TARGET}
    if env:
        e.update(env)
    p = run(cmd, cwd=cdir, env=e, timeout=timeout)
    diags, arts = [], {}
    cdir_real = os.path.realpath(cdir)
    for line in p.stdout.decode("utf8", "replace").splitlines():
        if not line.startswith("{"):
            continue
        try:
            m = json.loads(line)
        except ValueError:
            continue
        r = m.get("reason")
        if r == "compiler-message":
            src = m.get("target", {}).get("src_path", "")
            if os.path.realpath(src).startswith(cdir_real):
                d = m["message"]
                d["_target"] = m.get("target", {}).get("name")
                d["_src"] = src
                diags.append(d)
        elif r == "compiler-artifact":
            if m.get("executable"):
                arts[m["target"]["name"]] = m["executable"]
    return p.returncode, diags, arts, p.stderr.decode("utf8", "replace")


def diag_level(d):
    return d.get("level", "")


def diag_derives(d):
    """Names of derive_more derives found in the macro expansion chain of a diagnostic."""
    out = []

    def walk(span):
        exp = span.get("expansion")
        while exp:
            n = exp.get("macro_decl_name", "")
            if n.startswith("#[derive(") and n.endswith(")]"):
                out.append(n[len("#[derive("):-2])
            span = exp.get("span") or {}
            exp = span.get("expansion")

    for s in d.get("spans", []):
        walk(s)
    for ch in d.get("children", []):
        for s in ch.get("spans", []):
            walk(s)
    return out


def diag_lines(d):
    """(file, line) pairs of the outermost (user-code) location of each primary span."""
    res = []
    for s in d.get("spans", []):
        cur = s
        while cur.get("expansion") and cur["expansion"].get("span"):
            cur = cur["expansion"]["span"]
        res.append((cur.get("file_name"), cur.get("line_start"), s.get("is_primary", False)))
    return res


def diag_text(d):
    return d.get("rendered") or d.get("message", "")


def is_ice_or_infra(stderr):
    s = stderr or ""
    return ("internal compiler error" in s or "No space left" in s or "could not compile" not in s and "error: failed" in s)


# ---------------------------------------------------------------------------
# event logs written by generated programs: one JSON object per line

def read_events(path):
    evs = []
    with open(path, encoding="utf8", errors="replace") as f:
        for line in f:
            line = line.rstrip("\n")
            if not line:
                continue
            try:
                evs.append(json.loads(line))
            except ValueError:
                raise Inconclusive("truncated/corrupt event log %s: %r" % (path, line[:200]))
    return evs


def run_bins(arts, names, outdir, timeout=1800, par=NCPU, args=(), env=None):
    """Run generated shard binaries in parallel; each writes its event log to argv[1].
    Returns {name: (returncode, logpath, stderr)}."""
    os.makedirs(outdir, exist_ok=True)
    pending = list(names)
    running = {}
    results = {}
    e = dict(os.environ)
    if env:
        e.update(env)
    while pending or running:
        while pending and len(running) < par:
            n = pending.pop(0)
            log = os.path.join(outdir, n + ".events")
            if os.path.exists(log):
                os.unlink(log)
            errf = open(os.path.join(outdir, n + ".stderr"), "wb")
            pr = subprocess.Popen([arts[n], log] + list(args), stdout=subprocess.DEVNULL,
                                  stderr=errf, env=e, cwd=outdir)
            running[n] = (pr, log, errf, time.time())
        done = []
        for n, (pr, log, errf, t0) in running.items():
            rc = pr.poll()
            if rc is None:
                if time.time() - t0 > timeout:
                    pr.kill()
                    pr.wait()
                    rc = -999
                else:
                    continue
            errf.close()
            with open(errf.name, "rb") as f:
                err = f.read().decode("utf8", "replace")
            results[n] = (rc, log, err)
            done.append(n)
        for n in done:
            del running[n]
        if running and not done:
            time.sleep(0.02)
    return results


def rs_str(s):
    """Rust string literal for arbitrary text."""
    out = ['"']
    for ch in s:
        o = ord(ch)
        if ch == '"':
            out.append('\\"')
        elif ch == "\\":
            out.append("\\\\")
        elif ch == "\n":
            out.append("\\n")
        elif ch == "\r":
            out.append("\\r")
        elif ch == "\t":
            out.append("\\t")
        elif o < 0x20 or o == 0x7f:
            out.append("\\u{%x}" % o)
        else:
            out.append(ch)
    out.append('"')
    return "".join(out)


def digest(*parts):
    h = hashlib.sha1()
    for p in parts:
        h.update(str(p).encode("utf8", "replace"))
        h.update(b"\0")
    return h.hexdigest()[:12]


def chunks(seq, n):
    """Split seq into n nearly equal consecutive parts (dropping empty ones)."""
    n = max(1, min(n, len(seq)))
    k, m = divmod(len(seq), n)
    out, i = [], 0
    for j in range(n):
        sz = k + (1 if j < m else 0)
        if sz:
            out.append(seq[i:i + sz])
        i += sz
    return out
