"""Reference parser for C03: nightly's rustc_parse_format (what format_args! uses)."""
import json
import os
import subprocess

from . import common
from .common import Inconclusive
from .inproc import hexs

SRC = os.path.join(common.VERIF, "harness", "oracle_pf", "src", "main.rs")
_state = {}


def sysroot():
    if "sysroot" not in _state:
        p = common.run(["rustc", "+nightly", "--print", "sysroot"], check=True)
        _state["sysroot"] = p.stdout.decode().strip()
    return _state["sysroot"]


def build():
    out = os.path.join(common.WORK, "oracle_pf", "oracle_pf")
    os.makedirs(os.path.dirname(out), exist_ok=True)
    if os.path.exists(out) and os.path.getmtime(out) >= os.path.getmtime(SRC):
        return out
    p = common.run(["rustc", "+nightly", "-O", "--edition", "2021", "-o", out, SRC], timeout=600)
    if p.returncode != 0:
        raise Inconclusive("oracle_pf failed to build: " + p.stderr.decode("utf8", "replace")[-3000:])
    return out


def parse_many(literals, timeout=1800):
    """Returns a list of dicts (same order): kind ok/reject, canon, res, mods."""
    exe = build()
    env = dict(os.environ)
    env["LD_LIBRARY_PATH"] = os.path.join(sysroot(), "lib") + ":" + env.get("LD_LIBRARY_PATH", "")
    data = ("\n".join(hexs(s) for s in literals) + "\n").encode()
    p = subprocess.run([exe], input=data, stdout=subprocess.PIPE, stderr=subprocess.PIPE, env=env, timeout=timeout)
    if p.returncode != 0:
        raise Inconclusive("oracle_pf died: rc=%d %s" % (p.returncode, p.stderr.decode("utf8", "replace")[-2000:]))
    outs = [json.loads(l) for l in p.stdout.decode("utf8", "replace").splitlines() if l.startswith("{")]
    if len(outs) != len(literals):
        raise Inconclusive("oracle_pf answered %d of %d literals" % (len(outs), len(literals)))
    return outs
