"""C07 - enum-level format attribute: wraps through `_variant`, otherwise is only a default.

Runtime monitor (DESIGN.md section 4, C07).  A seeded generator writes enums (unit / empty / single-field /
multi-field / named variants, with and without their own format attribute, `rename_all` on the enum and
on variants, optionally one type parameter) for the eight Display-like derives, with an enum-level
literal that is absent, a bare `{_variant}`, wrapping (1-3 `_variant` uses as named placeholder,
implicit/explicit positional argument or aliased argument) or a default (no `_variant`), mixed with
references to fields valid for every variant that needs them, literal arguments, `.*`, text, escapes.

  L1  every enum is first expanded in-process with the working tree's sources (an `Err` on a supported
      input is a violation and keeps the rustc build clean);
  L2  the enums are compiled with the real proc-macro and every variant is formatted; next to it the
      program logs the reference computed in the same process with plain `format!` from the documented
      rule (own(v) = own literal | single field | renamed name; enum literal mentions `_variant` ?
      format!(shared, _variant = own(v)) : own attribute ? own(v) : format!(shared));
  rejections: `_variant` placeholders carrying a specifier / non-Display trait, any enum-level format on
      `Debug`, a multi-field variant without format under a wrapping literal - L1 over many literals
      (each next to a control that must expand), L0 (rustc, must_fail) for a sample plus everything
      the expander let through, plus out-of-range positional indices which only rustc can reject.
"""
from . import common, inproc, l2
from .common import rs_str, Inconclusive
from .l2 import Case

TRAITS = {  # derive -> (attribute, type letter)
    "Display": ("display", ""), "LowerHex": ("lower_hex", "x"), "UpperHex": ("upper_hex", "X"),
    "Octal": ("octal", "o"), "Binary": ("binary", "b"), "LowerExp": ("lower_exp", "e"),
    "UpperExp": ("upper_exp", "E"), "Pointer": ("pointer", "p"),
}
TRAIT_WEIGHTS = [("Display", 10), ("LowerHex", 2), ("UpperHex", 1), ("Octal", 1), ("Binary", 1),
                 ("LowerExp", 1), ("UpperExp", 1), ("Pointer", 2)]

INT = frozenset(["", "?", "x?", "X?", "x", "X", "o", "b", "e", "E"])
TXT = frozenset(["", "?"])
CAPS = {
    "i32": INT, "u8": INT, "i64": INT, "u16": INT,
    "f64": frozenset(["", "?", "e", "E"]),
    "&'static str": TXT, "String": TXT, "char": TXT, "bool": TXT,
    "Spy": INT | frozenset(["p"]),
    "&'static i32": INT | frozenset(["p"]),
}
TYPE_ORDER = ["i32", "u8", "i64", "u16", "f64", "&'static str", "String", "char", "bool", "Spy", "&'static i32"]
STRS = ["", "a", "hello world", "{}", "{_variant}", "é✓", "q\"uote", "tab\there", "x y"]
CHARS = ["'x'", "'é'", "'\\''", "'{'", "' '"]
F64S = ["0.0", "1.5", "-2.25", "1e10", "3.14159", "1e-7", "123456.789", "-0.5"]

CASINGS = ["lowercase", "UPPERCASE", "PascalCase", "camelCase", "snake_case", "SCREAMING_SNAKE_CASE",
           "kebab-case", "SCREAMING-KEBAB-CASE"]
WORDS = ["Alpha", "Beta", "Two", "Variant", "One", "Foo", "Bar", "Item", "Get", "Set", "Http", "Zed", "Node", "Leaf"]
FIELD_NAMES = ["x", "y", "z", "name", "id"]
ALIASES = ["a1", "k", "q", "val", "it"]
TEXTS = ["a", "V:", " ", " & ", "{{", "}}", "{{}}", "é", "✓ ", "\\", "\"", "'", "\t", "[", "]", "<", ">",
         "%d", "$", "#", "::", "_variant", "{{_variant}}", "Variant: ", "-", "=", "0", "{{0}}"]
LIT_ARGS = ["42", "-3", "\"lit\"", "'c'", "1.5", "1 + 2", "true", "(7, 8).1", "[1, 2][0]"]


def convert_case(words, casing):
    """The documented casings, for names that are a sequence of capitalised lower-case words."""
    lo = [w.lower() for w in words]
    up = [w.upper() for w in words]
    return {
        "lowercase": "".join(lo), "UPPERCASE": "".join(up), "PascalCase": "".join(words),
        "camelCase": lo[0] + "".join(words[1:]), "snake_case": "_".join(lo), "SCREAMING_SNAKE_CASE": "_".join(up),
        "kebab-case": "-".join(lo), "SCREAMING-KEBAB-CASE": "-".join(up),
    }[casing]


def weighted(rng, pairs):
    tot = sum(w for _, w in pairs)
    r = rng.random() * tot
    for v, w in pairs:
        r -= w
        if r < 0:
            return v
    return pairs[-1][0]


# ---------------------------------------------------------------------------------------------
# literals

def T(s):
    return {"k": "t", "s": s}


def P(style, expr, spec="", what="field", name=None, ws=False, reuse=False, prec=None, fld=None):
    return {"k": "p", "style": style, "expr": expr, "spec": spec, "what": what, "name": name, "ws": ws,
            "reuse": reuse, "prec": prec, "fld": fld}


def spec_ty(spec):
    for t in ("x?", "X?", "?", "x", "X", "o", "b", "e", "E", "p"):
        if spec.endswith(t):
            return t
    return ""


class Lit:
    """A format literal with its arguments, kept as a list of pieces."""

    def __init__(self, parts, named=None):
        self.parts = parts
        self.named = list(named or [])     # extra named arguments (e.g. a width): [(name, expr)]

    def render(self):
        """-> (literal value, [argument source], [fields used directly with `:p`])"""
        pos = []
        idx = {}
        for i, p in enumerate(self.parts):
            if p["k"] != "p":
                continue
            if p["style"] == "imp":
                idx[i] = len(pos)
                pos.append(p["expr"])
            elif p["style"] == "star":
                pos.append(p["prec"])
                pos.append(p["expr"])
        for i, p in enumerate(self.parts):
            if p["k"] == "p" and p["style"] == "exp":
                if p["reuse"] and p["expr"] in pos:
                    idx[i] = pos.index(p["expr"])
                else:
                    idx[i] = len(pos)
                    pos.append(p["expr"])
        named = []
        out = []
        derefs = []
        for i, p in enumerate(self.parts):
            if p["k"] == "t":
                out.append(p["s"])
                continue
            spec = (":" + p["spec"]) if p["spec"] else ""
            ws = " " if p["ws"] else ""
            st = p["style"]
            if st == "direct":
                out.append("{" + p["expr"] + spec + ws + "}")
                if p["what"] == "field" and spec_ty(p["spec"]) == "p" and p["expr"] not in derefs:
                    derefs.append(p["expr"])
            elif st in ("imp", "star"):
                out.append("{" + spec + ws + "}")
            elif st == "exp":
                out.append("{" + str(idx[i]) + spec + ws + "}")
            elif st == "alias":
                out.append("{" + p["name"] + spec + ws + "}")
                if (p["name"], p["expr"]) not in named:
                    named.append((p["name"], p["expr"]))
        for n, e in self.named:
            if (n, e) not in named:
                named.append((n, e))
        return "".join(out), pos + ["%s = %s" % (n, e) for n, e in named], derefs

    def attr(self, attr_name):
        text, args, _ = self.render()
        return "#[%s(%s)]" % (attr_name, ", ".join([rs_str(text)] + args))

    def call(self, deref=True):
        """`format!` with the same literal and arguments; a field named directly in a `{field:p}`
        placeholder stands for the field itself, not for a reference to it (display.md)."""
        text, args, derefs = self.render()
        extra = ["%s = *%s" % (d, d) for d in derefs] if deref else []
        return "format!(%s)" % ", ".join([rs_str(text)] + args + extra)

    def uses(self, what):
        return [p for p in self.parts if p["k"] == "p" and p["what"] == what]

    def shown(self):
        text, args, _ = self.render()
        return ", ".join([rs_str(text)] + args)


def gen_spec(rng, caps, prefer=None, plain=0.5):
    caps = sorted(caps)
    if prefer is not None and prefer in caps and rng.random() < 0.5:
        ty = prefer
    elif "" in caps and rng.random() < plain:
        ty = ""
    else:
        ty = rng.choice(caps)
    flags = ""
    if rng.random() < 0.3:
        if rng.random() < 0.5:
            flags += rng.choice(["<", "^", ">", "*<", "_^", "0>", "é^"])
        if rng.random() < 0.25:
            flags += "+"
        if rng.random() < 0.25:
            flags += "#"
        w = rng.random() < 0.6
        if w and rng.random() < 0.25:
            flags += "0"
        if w:
            flags += rng.choice(["3", "8", "12"])
        if rng.random() < 0.3:
            flags += rng.choice([".0", ".2", ".5"])
    return flags + ty


class LitGen:
    def __init__(self, rng, trait):
        self.rng = rng
        self.trait = trait
        self.letter = TRAITS[trait][1]

    def field_piece(self, f, aliases):
        """f = (name, caps, generic?)"""
        rng = self.rng
        name, caps, generic = f
        spec = gen_spec(rng, caps, prefer=self.letter if self.letter else None)
        ws = rng.random() < 0.08
        st = weighted(rng, [("direct", 45), ("imp", 25), ("exp", 15), ("alias", 15)])
        if st == "direct":
            return P("direct", name, spec, ws=ws, fld=name)
        expr = name
        if spec_ty(spec) == "p" and not generic and rng.random() < 0.6:
            # through an argument a field is a reference to the field; `*field` is the field itself
            expr = "*" + name
        if st == "alias":
            return P("alias", expr, spec, name=rng.choice(aliases), ws=ws, fld=name)
        return P(st, expr, spec, ws=ws, reuse=rng.random() < 0.5, fld=name)

    def lit_piece(self):
        rng = self.rng
        if rng.random() < 0.3:
            return P("star", "1.23456", ".*" + rng.choice(["", "e"]), what="lit", prec=rng.choice(["0", "2", "4"]))
        e = rng.choice(LIT_ARGS)
        spec = rng.choice(["", "", "", ">6", "?", "<4"])
        if e in ("42", "-3", "1 + 2", "(7, 8).1", "[1, 2][0]") and rng.random() < 0.3:
            spec = rng.choice(["x", "#b", "05", "e"])
        st = weighted(rng, [("imp", 6), ("exp", 2), ("alias", 2)])
        if st == "alias":
            return P("alias", e, spec, what="lit", name="c" + str(rng.randrange(3)))
        return P(st, e, spec, what="lit", reuse=rng.random() < 0.5)

    def variant_piece(self):
        rng = self.rng
        st = weighted(rng, [("direct", 50), ("imp", 20), ("exp", 15), ("alias", 15)])
        ws = rng.random() < 0.1
        if st == "direct":
            return P("direct", "_variant", what="variant", ws=ws)
        if st == "alias":
            return P("alias", "_variant", what="variant", name=rng.choice(["v", "var", "inner"]), ws=ws)
        return P(st, "_variant", what="variant", ws=ws, reuse=rng.random() < 0.6)

    def fix_aliases(self, parts):
        """One alias name stands for one expression within a literal."""
        seen = {}
        for p in parts:
            if p["k"] == "p" and p["style"] == "alias":
                k = p["name"]
                n = 0
                while k in seen and seen[k] != p["expr"]:
                    n += 1
                    k = "%s%d" % (p["name"], n)
                seen[k] = p["expr"]
                p["name"] = k
        return parts

    def own(self, fields):
        rng = self.rng
        n = rng.choice((1, 2, 2, 3, 3, 4))
        parts = []
        for _ in range(n):
            r = rng.random()
            if fields and r < 0.5:
                parts.append(self.field_piece(rng.choice(fields), ALIASES))
            elif r < 0.85 or not fields and r < 0.9:
                parts.append(T(rng.choice(TEXTS)))
            else:
                parts.append(self.lit_piece())
        named = []
        if fields and rng.random() < 0.06:
            f = rng.choice(fields)
            parts.append(P("direct", f[0], ">w$", fld=f[0]))
            named.append(("w", rng.choice(["5", "9"])))
        return Lit(self.fix_aliases(parts), named)

    def shared(self, mode, common_fields):
        rng = self.rng
        if mode == "bare":
            st = weighted(rng, [("direct", 5), ("imp", 2), ("exp", 2), ("alias", 2)])
            p = P(st, "_variant", what="variant", ws=rng.random() < 0.15, name="v")
            return Lit([p])
        parts = []
        if mode == "wrap":
            for _ in range(rng.choice((1, 1, 1, 2, 2, 3))):
                parts.append(self.variant_piece())
        for _ in range(rng.choice((0, 1, 1, 2, 3))):
            parts.append(T(rng.choice(TEXTS)))
        if common_fields:
            for _ in range(rng.choice((0, 1, 1, 2))):
                parts.append(self.field_piece(rng.choice(common_fields), ALIASES))
        if rng.random() < 0.25:
            parts.append(self.lit_piece())
        if not parts:
            parts.append(T(rng.choice(TEXTS)))
        rng.shuffle(parts)
        if mode == "wrap" and len(parts) == 1:
            parts.insert(rng.randrange(2), T(rng.choice(["<", "V: ", "!", " "])))
        return Lit(self.fix_aliases(parts))


# ---------------------------------------------------------------------------------------------
# enums

class Var:
    def __init__(self, words, kind, fields):
        self.words = words
        self.name = "".join(words)
        self.kind = kind            # unit | tuple | named
        self.fields = fields        # [(name, type source, instantiated type)]
        self.own = None
        self.rename = None

    def shape(self):
        n = len(self.fields)
        return "%s%d" % (self.kind, n) if self.kind != "unit" else "unit"

    def decl(self, attr):
        a = []
        if self.own is not None:
            a.append(self.own.attr(attr))
        if self.rename:
            a.append('#[%s(rename_all = "%s")]' % (attr, self.rename))
        if len(a) == 2 and self.rename_first:
            a.reverse()
        if self.kind == "unit":
            body = self.name
        elif self.kind == "tuple":
            body = "%s(%s)" % (self.name, ", ".join(t for _, t, _ in self.fields))
        else:
            body = "%s { %s }" % (self.name, ", ".join("%s: %s" % (n, t) for n, t, _ in self.fields))
        return "".join("    %s\n" % x for x in a) + "    " + body + ","

    rename_first = False

    def pattern(self, E):
        if self.kind == "unit":
            return "%s::%s" % (E, self.name)
        if self.kind == "tuple":
            return "%s::%s(%s)" % (E, self.name, ", ".join(n for n, _, _ in self.fields))
        return "%s::%s { %s }" % (E, self.name, ", ".join(n for n, _, _ in self.fields))

    def make(self, E, vals):
        if self.kind == "unit":
            return "%s::%s" % (E, self.name)
        if self.kind == "tuple":
            return "%s::%s(%s)" % (E, self.name, ", ".join(vals))
        return "%s::%s { %s }" % (E, self.name, ", ".join("%s: %s" % (f[0], v) for f, v in zip(self.fields, vals)))


def gen_value(rng, ty):
    if ty == "i32":
        return rng.choice(["0", "1", "-1", "7", "42", "-300", "255", "2147483647", "-2147483648", str(rng.randrange(-99999, 99999))])
    if ty == "u8":
        return str(rng.choice([0, 1, 9, 200, 255, rng.randrange(256)]))
    if ty == "u16":
        return str(rng.choice([0, 17, 65535, rng.randrange(65536)]))
    if ty == "i64":
        return str(rng.choice([0, -5, 1 << 40, -(1 << 50), rng.randrange(-10 ** 12, 10 ** 12)]))
    if ty == "f64":
        return rng.choice(F64S) + "f64"
    if ty == "&'static str":
        return rs_str(rng.choice(STRS))
    if ty == "String":
        return "String::from(%s)" % rs_str(rng.choice(STRS))
    if ty == "char":
        return rng.choice(CHARS)
    if ty == "bool":
        return rng.choice(["true", "false"])
    if ty == "Spy":
        return "Spy(%d)" % rng.randrange(1, 1000)
    if ty == "&'static i32":
        return "&P%d" % rng.randrange(4)
    raise AssertionError(ty)


class EnumSpec:
    def __init__(self):
        self.trait = "Display"
        self.mode = "none"          # none | bare | wrap | default
        self.shared = None
        self.rename = None
        self.rename_first = False
        self.variants = []
        self.generic = None         # instantiation of the type parameter T, if any
        self.nd_unit_default = False    # non-Display, default literal, field-less variant without attribute
        self.bad_multi = None       # index of a multi-field variant without attribute (must be rejected)

    @property
    def attr(self):
        return TRAITS[self.trait][0]

    def mentions(self):
        return self.shared is not None and bool(self.shared.uses("variant"))

    def item(self, derive=True, attr=None, enum_level=True):
        attr = attr or self.attr
        a = []
        if self.shared is not None and enum_level:
            a.append(self.shared.attr(attr))
        if self.rename:
            a.append('#[%s(rename_all = "%s")]' % (attr, self.rename))
        if len(a) == 2 and self.rename_first:
            a.reverse()
        head = ["#[derive(derive_more::%s)]" % self.trait] if derive else []
        g = "<T>" if self.generic else ""
        return "\n".join(head + a + ["pub enum E%s {" % g] + [v.decl(attr) for v in self.variants] + ["}"])

    def ty(self):
        return "E<%s>" % self.generic if self.generic else "E"

    def own_name(self, v):
        casing = v.rename or self.rename
        return convert_case(v.words, casing) if casing else v.name

    def own_expr(self, v, defect=False):
        """The text the variant prints by itself (display.md): own literal, else its single field,
        else its name."""
        letter = TRAITS[self.trait][1]
        if v.own is not None:
            return v.own.call()
        if len(v.fields) == 1:
            f = v.fields[0][0]
            if letter == "p":
                # delegating to the field means formatting the field (not a reference to it)
                return 'format!("{:p}", %s)' % (f if defect else "*" + f)
            return 'format!("{%s}", %s)' % (":" + letter if letter else "", f)
        if not v.fields:
            return "String::from(%s)" % rs_str(self.own_name(v))
        return None

    def arm(self, v, defect=False):
        own = self.own_expr(v, defect)
        if self.shared is None:
            body = own
        elif self.mentions():
            body = "{ let _variant: String = %s; %s }" % (own, self.shared.call())
        elif v.own is not None:
            body = own
        else:
            body = self.shared.call()
        return "        %s => %s," % (v.pattern("E"), body)

    def want_fn(self, name="want", defect=False):
        arms = [self.arm(v, defect) for v in self.variants]
        return "pub fn %s(e: &%s) -> String {\n    match e {\n%s\n    }\n}" % (name, self.ty(), "\n".join(arms))

    def how(self, v):
        return "own" if v.own is not None else ("field" if len(v.fields) == 1 else ("name" if not v.fields else "none"))

    def cls(self):
        styles = tuple(sorted(set(p["style"] for p in self.shared.uses("variant")))) if self.shared else ()
        nuses = len(self.shared.uses("variant")) if self.shared else 0
        frefs = bool(self.shared and self.shared.uses("field"))
        vs = tuple(sorted(set((v.shape() if len(v.fields) < 2 else v.kind + "N", self.how(v), bool(v.rename)) for v in self.variants)))
        return (self.trait, self.mode, nuses, styles, frefs, bool(self.rename), bool(self.generic), vs)

    def pointer_defect_variants(self):
        """Variants hit by the known Pointer finding: wrapping literal, no own attribute, one field."""
        if self.trait != "Pointer" or not self.mentions():
            return []
        return [i for i, v in enumerate(self.variants) if v.own is None and len(v.fields) == 1]


def type_pool(letter):
    return [t for t in TYPE_ORDER if letter in CAPS[t]]


def gen_enum(rng, trait=None, mode=None, allow_known=True, bad_multi=False):
    es = EnumSpec()
    es.trait = trait or weighted(rng, TRAIT_WEIGHTS)
    letter = TRAITS[es.trait][1]
    es.mode = mode or weighted(rng, [("none", 1), ("bare", 2), ("wrap", 8), ("default", 6)])
    lg = LitGen(rng, es.trait)
    family = weighted(rng, [("any", 4), ("tuple", 3), ("named", 3)])
    nv = rng.choice((1, 2, 3, 3, 4, 4, 5))
    pool_t = type_pool(letter)
    used = set()
    if es.mode == "default" and es.trait != "Display" and allow_known and rng.random() < 0.06:
        es.nd_unit_default = True
        family = "any"
    for i in range(nv):
        while True:
            words = [rng.choice(WORDS) for _ in range(rng.choice((1, 1, 2, 2, 3)))]
            if "".join(words) not in used and "".join(words) != "E":
                break
        used.add("".join(words))
        if family == "any":
            kind, n = rng.choice([("unit", 0), ("unit", 0), ("tuple", 0), ("named", 0), ("tuple", 1), ("tuple", 1), ("named", 1),
                                  ("tuple", 2), ("tuple", 3), ("named", 2), ("named", 3)])
        elif family == "tuple":
            kind, n = "tuple", rng.choice((1, 1, 2, 3))
        else:
            kind, n = "named", rng.choice((1, 1, 2, 3))
        if es.nd_unit_default and i == 0:
            kind, n = rng.choice([("unit", 0), ("tuple", 0), ("named", 0)])
        own = rng.random() < 0.5
        if n > 1 and es.mode != "default":
            own = True          # "if there is more than 1 [field], an error is generated"
        if n == 0 and es.trait != "Display":
            own = True          # implicit naming of field-less variants is a Display-only feature
        if es.nd_unit_default and i == 0:
            own = False
        fields = []
        names = ["_%d" % j for j in range(n)] if kind == "tuple" else ["x"] + rng.sample(FIELD_NAMES[1:], n - 1) if n else []
        for j in range(n):
            # a field printed by delegation must implement the derived trait
            ty = rng.choice(pool_t if (not own and n == 1) or rng.random() < 0.5 else TYPE_ORDER)
            if es.trait == "Pointer" and rng.random() < 0.5:
                ty = rng.choice(["&'static i32", "Spy"])
            fields.append((names[j], ty, ty))
        v = Var(words, kind, fields)
        v.own = True if own else None
        es.variants.append(v)
    if bad_multi:
        # one multi-field variant without a format of its own under a wrapping literal
        i = rng.randrange(len(es.variants))
        v = es.variants[i]
        if len(v.fields) < 2:
            kind = v.kind if v.kind != "unit" else "tuple"
            n = rng.choice((2, 3))
            names = ["_%d" % j for j in range(n)] if kind == "tuple" else ["x"] + rng.sample(FIELD_NAMES[1:], n - 1)
            v.kind, v.fields = kind, [(nm, "i32", "i32") for nm in names]
        v.own = None
        es.bad_multi = i
        if family != "any" and v.kind != family:
            family = "any"
    # one type parameter, used as the type of one field
    if es.trait != "Pointer" and rng.random() < 0.15:
        cands = [(vi, fi) for vi, v in enumerate(es.variants) for fi, f in enumerate(v.fields)]
        if cands:
            vi, fi = rng.choice(cands)
            inst = rng.choice([t for t in ("i32", "Spy", "u8") if letter in CAPS[t]])
            v = es.variants[vi]
            v.fields[fi] = (v.fields[fi][0], "T", inst)
            es.generic = inst
    # rename_all
    named_by_name = any(not v.fields and v.own is None for v in es.variants)
    if rng.random() < (0.5 if named_by_name else 0.2):
        es.rename = rng.choice(CASINGS)
        es.rename_first = rng.random() < 0.5
    for v in es.variants:
        if rng.random() < (0.4 if not v.fields else 0.05):
            v.rename = rng.choice(CASINGS)
            v.rename_first = rng.random() < 0.5

    def fdesc(v):
        return [(n, CAPS[inst], ty == "T") for n, ty, inst in v.fields]

    for v in es.variants:
        if v.own is True:
            v.own = lg.own(fdesc(v))
    # fields the enum-level literal may name: those every variant it is applied to has
    if es.mode in ("bare", "wrap", "default"):
        rel = es.variants if es.mode != "default" else [v for v in es.variants if v.own is None]
        common_fields = []
        if rel and es.mode != "bare":
            kinds = set(v.kind for v in rel)
            if len(kinds) == 1 and "unit" not in kinds:
                first = rel[0]
                for n, ty, inst in first.fields:
                    caps = None
                    gen = False
                    for v in rel:
                        m = [f for f in v.fields if f[0] == n]
                        if not m:
                            caps = None
                            break
                        caps = CAPS[m[0][2]] if caps is None else caps & CAPS[m[0][2]]
                        gen = gen or m[0][1] == "T"
                    if caps:
                        common_fields.append((n, caps, gen))
        es.shared = lg.shared(es.mode, common_fields)
    return es


def build_case(cid, es, rng, nvals=2):
    E = es.ty()
    items = []
    if any(inst == "&'static i32" for v in es.variants for _, _, inst in v.fields):
        items.append("pub static P0: i32 = 11; pub static P1: i32 = -4; pub static P2: i32 = 0; pub static P3: i32 = 77;")
    items.append(es.item())
    items.append(es.want_fn())
    defect = es.pointer_defect_variants()
    if defect:
        items.append(es.want_fn("pred", defect=True))
    letter = TRAITS[es.trait][1]
    ph = "{:%s}" % letter if letter else "{}"
    body = []
    nexp = 0
    plan = {}
    for i, v in enumerate(es.variants):
        reps = nvals if v.fields else 1
        for j in range(reps):
            vals = [gen_value(rng, inst) for _, _, inst in v.fields]
            mk = v.make("E", vals)
            kind = "V%d.%d" % (i, j)
            line = '{ let v: %s = %s; cmp("%s", &format!("%s", v), &want(&v));' % (E, mk, kind, ph)
            if i in defect:
                line += ' obs("%s.pred", &pred(&v));' % kind
            if es.trait == "Display" and j == 0:
                line += ' cmp("%s.to_string", &v.to_string(), &want(&v));' % kind
                nexp += 1
            line += " }"
            body.append(line)
            nexp += 1
            plan[kind] = {"variant": i, "value": mk}
    what = "%s enum, %s literal %s" % (es.trait, es.mode, es.shared.shown() if es.shared else "-")
    return Case(cid, es.cls(), "\n".join(items), "\n".join(body), expect=nexp, trivial=(es.mode == "none"),
                meta={"what": what, "enum": es.item(), "plan": plan, "es": es})


# ---------------------------------------------------------------------------------------------
# fixed cases: the documented examples and the regressions repaired in this area

def fixed_cases():
    out = []

    def add(cid, cls, items, checks, what):
        body = "\n".join('cmp("%s", &%s, %s);' % (k, got, rs_str(want)) for k, (got, want) in enumerate(checks))
        out.append(Case(cid, ("fixed",) + cls, items, body, expect=len(checks),
                        meta={"what": what, "enum": items, "plan": {str(k): {"value": got} for k, (got, _) in enumerate(checks)}, "es": None}))

    add("doc_wrap", ("doc", "wrap"), """#[derive(derive_more::Display)]
#[display("Variant: {_variant} & {}", _variant)]
pub enum Enum { #[display("A {_0}")] A(i32), B { field: i32 }, #[display("c")] C, }""",
        [("Enum::A(1).to_string()", "Variant: A 1 & A 1"), ("Enum::B { field: 2 }.to_string()", "Variant: 2 & 2"),
         ("Enum::C.to_string()", "Variant: c & c")], "display.md: wrapping enum format")
    add("doc_default", ("doc", "default"), """#[derive(derive_more::Display)]
#[display("Variant: {_0} & {}", _0)]
pub enum Enum { #[display("A {_0}")] A(i32), B(u32), #[display("c")] C, }""",
        [("Enum::A(1).to_string()", "A 1"), ("Enum::B(2).to_string()", "Variant: 2 & 2"), ("Enum::C.to_string()", "c")],
        "display.md: default enum format")
    add("doc_usage", ("doc", "usage"), """#[derive(derive_more::Display)]
#[display("Enum E: {_variant}")]
pub enum E { Uint(u32), #[display("I am B {:b}", i)] Binary { i: i8 }, #[display("I am C {}", _0.display())] Path(std::path::PathBuf), }
#[derive(derive_more::Display)]
#[display("Enum E2: {_0:?}")]
pub enum E2 { Uint(u32), String(&'static str, &'static str), }""",
        [("E::Uint(2).to_string()", "Enum E: 2"), ("E::Binary { i: -2 }.to_string()", "Enum E: I am B 11111110"),
         ("E::Path(\"abc\".into()).to_string()", "Enum E: I am C abc"), ("E2::Uint(2).to_string()", "Enum E2: 2"),
         ("E2::String(\"shown\", \"ignored\").to_string()", "Enum E2: \"shown\"")], "display.md: example usage")
    add("doc_rename", ("doc", "rename"), """#[derive(derive_more::Display)]
#[display(rename_all = "lowercase")]
#[display("<{_variant}>")]
pub enum Enum { VariantOne, #[display(rename_all = "kebab-case")] VariantTwo, #[display("own")] VariantThree, }""",
        [("Enum::VariantOne.to_string()", "<variantone>"), ("Enum::VariantTwo.to_string()", "<variant-two>"),
         ("Enum::VariantThree.to_string()", "<own>")], "rename_all inside a wrapping literal")
    # `{_variant }` / `{0 }`: whitespace before the closing brace is part of std's grammar
    add("ws", ("regress", "ws"), """#[derive(derive_more::Display)]
#[display("[{_variant }]")]
pub enum A { #[display("a{_0}")] X(i32), Y(u8), Z, }
#[derive(derive_more::Display)]
#[display("[{0 }|{v }]", _variant, v = _variant)]
pub enum B { #[display("a{_0}")] X(i32), Y(u8), Z, }""",
        [("A::X(1).to_string()", "[a1]"), ("A::Y(2).to_string()", "[2]"), ("A::Z.to_string()", "[Z]"),
         ("B::X(1).to_string()", "[a1|a1]"), ("B::Y(2).to_string()", "[2|2]"), ("B::Z.to_string()", "[Z|Z]")],
        "whitespace before `}` in `_variant` placeholders")
    # `.*` consumes two implicit arguments: the `{}` after it is `_variant`
    add("star", ("regress", "star"), """#[derive(derive_more::Display)]
#[display("{:.*} {}", 2, _0, _variant)]
pub enum A { X(f64), #[display("own {_0:e} {_1}")] Y(f64, i32), }
#[derive(derive_more::Display)]
#[display("{:.*}|{}|{}", 1, 2.55, _variant, 7)]
pub enum B { X(f64), #[display("own")] Y, Z, }""",
        [("A::X(2.555).to_string()", "2.56 2.555"), ("A::Y(2.0, 1).to_string()", "2.00 own 2e0 1"),
         ("B::X(0.5).to_string()", "2.5|0.5|7"), ("B::Y.to_string()", "2.5|own|7"), ("B::Z.to_string()", "2.5|Z|7")],
        "`.*` advances the implicit argument counter in front of a positional `_variant`")
    # `{0}` with one argument is the in-range control of the must-fail `{1}` cases
    add("idx", ("regress", "idx"), """#[derive(derive_more::Display)]
#[display("{0}", _variant)]
pub enum A { #[display("a{_0}")] X(i32), Y(u8), Z, }
#[derive(derive_more::Display)]
#[display("{0}", _0)]
pub enum B { #[display("a{_0}")] X(i32), Y(u8), W(i32, i32), }""",
        [("A::X(1).to_string()", "a1"), ("A::Y(2).to_string()", "2"), ("A::Z.to_string()", "Z"),
         ("B::X(1).to_string()", "a1"), ("B::Y(2).to_string()", "2"), ("B::W(3, 4).to_string()", "3")],
        "`{0}` with a single argument")
    # escaped braces and plain text are not placeholders
    add("esc", ("regress", "escape"), """#[derive(derive_more::Display)]
#[display("{{_variant}} _variant")]
pub enum A { #[display("a{_0}")] X(i32), Y(u8), Z, }""",
        [("A::X(1).to_string()", "a1"), ("A::Y(2).to_string()", "{_variant} _variant"), ("A::Z.to_string()", "{_variant} _variant")],
        "`{{_variant}}` and the word `_variant` in text do not make a literal wrapping")
    return out


# ---------------------------------------------------------------------------------------------
# rejections

BAD_SPECS = ["?", "x?", "X?", "#?", "x", "X", "o", "b", "e", "E", "p", ">5", "<", "^8", "*^3", "+", "#", "05", "7", ".3", ".0",
             "10.2", ">w$", "<8?", "#x", "+e", "é>4", "0>2"]


def reject_variants(rng, es):
    """Copies of a valid wrapping enum in which one `_variant` placeholder carries a specifier."""
    uses = [i for i, p in enumerate(es.shared.parts) if p["k"] == "p" and p["what"] == "variant"]
    i = rng.choice(uses)
    spec = rng.choice(BAD_SPECS)
    parts = [dict(p) for p in es.shared.parts]
    named = list(es.shared.named)
    p = parts[i]
    if rng.random() < 0.08 and p["style"] == "imp":
        p["style"], p["prec"], p["spec"] = "star", "2", ".*"
        spec = ".*"
    else:
        p["spec"] = spec
        if "w$" in spec:
            named.append(("w", "5"))
    p["ws"] = rng.random() < 0.1
    return Lit(parts, named), spec, p["style"]


def spec_class(spec):
    ty = spec_ty(spec)
    rest = spec[:len(spec) - len(ty)] if ty else spec
    return ("trait:" + ty if ty else "") + ("+mods" if rest else "")


def with_shared(es, lit):
    import copy
    e2 = copy.copy(es)
    e2.shared = lit
    return e2


def run_rejections(ctx, rng):
    n_spec = ctx.pick(3000, 24000)
    n_dbg = ctx.pick(800, 6000)
    n_multi = ctx.pick(400, 3000)
    l1 = []       # (id, derive, item)
    info = {}
    k = 0
    while k < n_spec:
        es = gen_enum(rng, mode=rng.choice(["wrap", "wrap", "wrap", "bare"]), allow_known=False)
        lit, spec, style = reject_variants(rng, es)
        cid = "rs%d" % k
        info[cid] = {"kind": "variant-spec", "es": with_shared(es, lit), "spec": spec, "style": style, "control": "rc%d" % k,
                     "key": "accepted:variant-spec:%s:%s" % (style, spec_class(spec)), "cls": ("reject", "variant-spec", es.trait, style, spec)}
        l1.append((cid, es.trait, with_shared(es, lit).item(derive=False)))
        l1.append(("rc%d" % k, es.trait, es.item(derive=False)))
        k += 1
    k = 0
    while k < n_dbg:
        es = gen_enum(rng, trait="Display", mode=rng.choice(["wrap", "default", "bare"]), allow_known=False)
        es.rename = None
        for v in es.variants:
            v.rename = None
        cid = "ds%d" % k
        info[cid] = {"kind": "debug-enum-level", "es": es, "control": "dc%d" % k, "key": "accepted:debug-enum-level:%s" % es.mode,
                     "cls": ("reject", "debug-enum-level", es.mode, len(es.shared.uses("variant")))}
        l1.append((cid, "Debug", es.item(derive=False, attr="debug")))
        l1.append(("dc%d" % k, "Debug", es.item(derive=False, attr="debug", enum_level=False)))
        k += 1
    k = 0
    while k < n_multi:
        es = gen_enum(rng, mode=rng.choice(["wrap", "wrap", "bare"]), allow_known=False, bad_multi=True)
        if es.generic:
            continue
        cid = "ms%d" % k
        ctl = with_shared(es, es.shared)
        import copy
        ctl.variants = [copy.copy(v) for v in es.variants]
        ctl.variants[es.bad_multi].own = Lit([T("m")])
        info[cid] = {"kind": "wrap-multifield-noattr", "es": es, "control": "mc%d" % k, "key": "accepted:wrap-multifield-noattr:%s" % es.mode,
                     "cls": ("reject", "multi", es.trait, es.mode, es.variants[es.bad_multi].kind)}
        l1.append((cid, es.trait, es.item(derive=False)))
        l1.append(("mc%d" % k, es.trait, ctl.item(derive=False)))
        k += 1
    out = inproc.expand_many(l1)
    if len(out) < len(l1):
        raise Inconclusive("in-process harness answered %d of %d rejection inputs" % (len(out), len(l1)))
    let_through = []
    confirmed = []
    for cid, inf in info.items():
        r = out[cid]
        c = out[inf["control"]]
        ctx.count()
        if c["kind"] != "ok":
            # the control is a supported input of the same shape as the main workload
            ctx.violate("control:%s" % inf["kind"], "control of a rejection case does not expand (%s): %s" % (
                inf["kind"], c.get("msg", c.get("kind"))), item=[x for x in l1 if x[0] == inf["control"]][0][2], outcome=c)
            continue
        ctx.cls(inf["cls"])
        if r["kind"] == "err":
            ctx.bump("rejected_by_expander")
            confirmed.append(cid)
        elif r["kind"] == "ok":
            ctx.bump("let_through_by_expander")
            let_through.append(cid)
        else:
            ctx.violate("panic:reject:%s" % inf["kind"], "expander %s on %s: %s" % (r["kind"], inf["kind"], str(r)[:300]),
                        item=[x for x in l1 if x[0] == cid][0][2], outcome=r)
    # L0: a sample of the confirmed ones and everything the expander let through must be rejected by rustc
    per_kind = ctx.pick(10, 40)
    chosen = []
    for kind in ("variant-spec", "debug-enum-level", "wrap-multifield-noattr"):
        ids = [c for c in confirmed if info[c]["kind"] == kind]
        rng.shuffle(ids)
        chosen += ids[:per_kind]
    rng.shuffle(let_through)
    chosen += let_through[:ctx.pick(40, 150)]
    cases = []
    for cid in chosen:
        inf = info[cid]
        es = inf["es"]
        items = []
        if any(inst == "&'static i32" for v in es.variants for _, _, inst in v.fields):
            items.append("pub static P0: i32 = 11; pub static P1: i32 = -4; pub static P2: i32 = 0; pub static P3: i32 = 77;")
        if inf["kind"] == "debug-enum-level":
            items.append("#[derive(derive_more::Debug)]\n" + es.item(derive=False, attr="debug"))
        else:
            items.append(es.item())
        cases.append(Case(cid, inf["cls"], "\n".join(items), "", must_fail=True, meta=inf))
    # out-of-range positional indices: only rustc can reject them ("the format is passed verbatim to write!")
    bad_idx = [
        ('"{1}", _variant', "A(i32), #[display(\"own\")] B(i32, u8), C"),
        ('"{1}", v = _variant', "A(i32), C"),
        ('"{_variant} {1}", _0', "A(i32), B(u8)"),
        ('"{2} {}", _variant', "A(i32), C"),
        ('"{1}", _0', "A(i32), B(u8)"),
        ('"<{}> {3}", _variant', "A(i32), #[display(\"own {_0}\")] B(u8), C"),
    ]
    for i, (sh, vs) in enumerate(bad_idx):
        inf = {"kind": "bad-index", "key": "accepted:bad-index", "cls": ("reject", "bad-index", i), "what": sh}
        cases.append(Case("bi%d" % i, inf["cls"], "#[derive(derive_more::Display)]\n#[display(%s)]\npub enum E { %s }" % (sh, vs), "",
                          must_fail=True, meta=inf))
    # an enum-level format on Debug is rejected whatever the enum contains (no variants at all, all variants cfg-removed)
    for i, body in enumerate(["", "#[cfg(any())] A, #[cfg(any())] B(u8)", "A", "#[cfg(any())] A, B"]):
        for j, lit in enumerate(['"x"', '"{_variant}"', '"<{_variant}>"']):
            inf = {"kind": "debug-enum-level", "key": "accepted:debug-enum-level:degenerate", "cls": ("reject", "debug-enum-level", "degenerate", i), "what": "%s on enum { %s }" % (lit, body)}
            cases.append(Case("dd%d_%d" % (i, j), inf["cls"], "#[derive(derive_more::Debug)]\n#[debug(%s)]\npub enum E { %s }" % (lit, body), "", must_fail=True, meta=inf))
    # documentation is silent on a `_variant` argument that is only reachable indirectly (aliased argument used by
    # index, or inside a larger expression): only recorded
    for i, (sh, vs) in enumerate([('"<{0}>", v = _variant', "A(i32), C"), ('"<{}>", _variant.to_string()', "A(i32), C")]):
        inf = {"kind": "observe", "key": "", "cls": ("observe", i), "what": sh}
        cases.append(Case("ob%d" % i, inf["cls"], "#[derive(derive_more::Display)]\n#[display(%s)]\npub enum E { %s }" % (sh, vs), "",
                          must_fail=True, meta=inf))
    res = l2.build_and_run(ctx, "reject", cases, run=False, nshards=min(common.NCPU, max(1, len(cases) // 6)))
    ctx.extra["reject_build_rounds"] = res.rounds
    sampled = set()
    for c in cases:
        inf = c.meta
        if inf["kind"] == "bad-index":
            ctx.count()
            ctx.cls(inf["cls"])
        if inf["kind"] == "observe":
            ctx.bump("obs_indirect_variant_argument_" + ("rejected" if c.id in res.compile_errors else "compiles"))
            continue
        if c.id in res.compile_errors:
            ctx.bump("rejected_by_rustc")
            if c.id in let_through:
                ctx.bump("rejected_by_rustc_only")
            if inf["kind"] not in sampled:
                sampled.add(inf["kind"])
                ctx.sample({"must_be_rejected": inf["kind"], "item": c.items, "rustc": l2.err_text(res.compile_errors[c.id], 1)[:300]})
        else:
            ctx.violate(inf["key"], "%s compiles although it must be rejected: %s" % (inf["kind"], c.items[-600:]),
                        case={k: v for k, v in inf.items() if k != "es"}, items=c.items)
    ctx.extra["reject_l0_cases"] = len(cases)
    if ctx.extra.get("rejected_by_expander", 0) + ctx.extra.get("let_through_by_expander", 0) < (n_spec + n_dbg + n_multi) * 0.9:
        raise Inconclusive("too few rejection inputs evaluated")


# ---------------------------------------------------------------------------------------------

def first_line(msg):
    return (msg or "").strip().splitlines()[0][:200] if (msg or "").strip() else ""


def run(ctx):
    rng = ctx.rng
    inproc.build()
    n = ctx.pick(900, 15000)
    cases = fixed_cases()
    for i in range(n):
        es = gen_enum(rng)
        cases.append(build_case("g%d" % i, es, rng, nvals=2))
    ctx.rule = ("enums for the 8 Display-like derives (Display weighted 1/2): 1-5 variants drawn from unit / empty tuple / empty struct / tuple(1-3) / named(1-3) "
                "(families: any, all-tuple, all-named so that fields common to all variants exist), field types from i32,u8,i64,u16,f64,&str,String,char,bool,"
                "&'static i32 and rt::Spy restricted to what the used placeholders need, 50% of the variants with an own literal (1-4 pieces of text/escapes, field "
                "placeholders named directly / implicit / explicit index / aliased with random std specs, literal arguments, `.*`, `w$`), rename_all on 20-50% of the enums "
                "and 40% of the field-less variants, 15% with a type parameter; enum-level literal: none (trivial), bare `{_variant}` in 5 spellings, wrapping with 1-3 "
                "`_variant` uses (named / implicit / explicit / aliased, optional space before `}`) or default, shuffled with text (incl. `{{_variant}}` and the bare word), "
                "placeholders on fields common to all variants the literal applies to, literal arguments and `.*`; every variant is formatted with 1-2 value sets; "
                "rejections: one `_variant` placeholder of a valid wrapping literal gets one of 28 specifiers or `.*`, the same enums with `debug` attributes, a multi-field "
                "variant without literal under a wrapping literal (each with a control that must expand), 6 out-of-range indices; + 8 fixed cases (documented examples, repaired "
                "regressions). distinct = (derive, mode, number and spellings of `_variant` uses, field references?, rename_all?, generic?, set of (variant shape, own/field/name, "
                "variant rename?)) resp. (rejection kind, derive, spelling, specifier); enums without enum-level literal are trivial")
    ctx.assumptions += [
        "the reference is std's `format!` applied to the same literal and arguments with `_variant` bound to a String holding the variant's own text; Display of a String equals Display of what derive_more binds",
        "rename_all is modelled only for names that are sequences of capitalised lower-case words (no digits, acronyms), for which the 8 documented casings are unambiguous",
        "a field named directly in a `{field:p}` placeholder denotes the field, through an argument it denotes a reference to the field (display.md); references are compared on the same enum value, so addresses agree",
        "for the non-Display derives a field-less variant without attribute is generated only under a default literal (implicit naming is documented for Display only)",
        "the enum-level literal names only fields that exist, with a compatible type, in every variant it is applied to (all variants when wrapping, the attribute-less ones when default)",
        "type parameters are only referenced in ways the documentation says bounds can be inferred for (directly or as a plain identifier argument)",
    ]

    # L1 pre-screen: the expander must accept every generated enum
    gen = [c for c in cases if c.meta.get("es") is not None]
    out = inproc.expand_many([(c.id, c.meta["es"].trait, c.meta["es"].item(derive=False)) for c in gen])
    live = [c for c in cases if c.meta.get("es") is None]
    for c in gen:
        es = c.meta["es"]
        r = out.get(c.id)
        if r is None:
            raise Inconclusive("in-process harness gave no answer for %s" % c.id)
        if r["kind"] == "ok":
            live.append(c)
            continue
        ctx.count()
        if not c.trivial:
            ctx.cls(c.cls)
        msg = r.get("msg", "")
        if r["kind"] == "err" and es.nd_unit_default and "implicit formatting of unit enum variant" in msg:
            key = "known:nondisplay-unit-default"
        elif r["kind"] == "err":
            key = "compile:%s:%s" % (es.mode, es.trait)
        else:
            key = "panic:expand:%s:%s" % (es.mode, es.trait)
        ctx.violate(key, "supported input is rejected by the expander (%s): %s" % (c.meta["what"], first_line(msg) or str(r)[:300]),
                    enum=c.meta["enum"], outcome=r)
    ctx.extra["expanded_in_process"] = len(gen)

    res = l2.build_and_run(ctx, "shared", live)
    ctx.extra["build_rounds"] = res.rounds
    cands = {}
    seen_known = set()
    for c in live:
        ctx.count()
        if not c.trivial:
            ctx.cls(c.cls)
        es = c.meta.get("es")
        mode = es.mode if es else c.cls[2]
        trait = es.trait if es else "Display"
        if c.id in res.compile_errors:
            ctx.violate("compile:%s:%s" % (mode, trait), "supported input does not compile (%s): %s" % (
                c.meta["what"], l2.err_text(res.compile_errors[c.id], 1)[:700]), items=c.items, errors=l2.err_text(res.compile_errors[c.id]))
            continue
        if c.id in res.not_run:
            ctx.bump("cases_not_run")
            continue
        evs = res.events.get(c.id, [])
        preds = {e["kind"]: e["val"] for e in evs if e.get("kind", "").endswith(".pred") and "val" in e}
        ncmp = 0
        for e in evs:
            k = e.get("kind")
            if "got" in e and "want" in e:
                ncmp += 1
                ctx.bump("events_compared")
                base = k[:-len(".to_string")] if k.endswith(".to_string") else k
                pl = c.meta["plan"].get(base)
                v = es.variants[pl["variant"]] if (es and pl) else None
                if e["got"] != e["want"]:
                    if v is not None:
                        vi = pl["variant"]
                        if vi in es.pointer_defect_variants() and preds.get(base + ".pred") == e["got"]:
                            key = "known:pointer-wrap-inferred-field-address"
                            ctx.bump("known_pointer_wrap_events")
                            if (c.id, vi) in seen_known:
                                continue
                            seen_known.add((c.id, vi))
                        else:
                            key = "mismatch:%s:%s:%s:%s" % (mode, trait, v.shape() if len(v.fields) < 2 else v.kind + "N", es.how(v))
                        what = "%s, variant %s = %s" % (c.meta["what"], v.name, pl["value"])
                    else:
                        key = "mismatch:%s" % (":".join(str(x) for x in c.cls),)
                        what = "%s [%s]" % (c.meta["what"], k)
                    ctx.violate(key, "%s: got %r, reference %r" % (what, e["got"][:300], e["want"][:300]), items=c.items, body=c.body, event=e)
                elif not c.trivial:
                    cat = ("fixed", c.id) if es is None else (mode, trait == "Display", es.how(v) if v else "")
                    if cat not in cands:
                        cands[cat] = {"case": c.meta["what"], "type": c.meta["enum"], "formatted": (pl or {}).get("value", k), "got": e["got"], "reference": e["want"]}
            elif k in ("panic", "crash"):
                ctx.violate("panic:%s:%s" % (mode, trait), "%s: generated program %s: %s" % (c.meta["what"], k, e.get("val", "")[:300]),
                            items=c.items, body=c.body, event=e)
        if ncmp < c.expect and not any(e.get("kind") in ("panic", "crash") for e in evs):
            ctx.bump("cases_short_of_events")
    if ctx.extra.get("cases_not_run", 0) or ctx.extra.get("cases_short_of_events", 0):
        raise Inconclusive("some cases did not run to completion: not_run=%s short=%s" % (
            ctx.extra.get("cases_not_run", 0), ctx.extra.get("cases_short_of_events", 0)))
    order = [("fixed", "doc_wrap"), ("wrap", True, "name"), ("wrap", True, "own"), ("default", True, "none"), ("wrap", False, "field"),
             ("default", True, "own"), ("bare", True, "field"), ("default", False, "field"), ("wrap", True, "field"), ("fixed", "star")]
    for cat in order:
        if cat in cands and len(ctx.samples) < 8:
            ctx.sample(cands[cat])
    for m in ("none", "bare", "wrap", "default"):
        ctx.extra["enums_" + m] = sum(1 for c in gen if c.meta["es"].mode == m)

    run_rejections(ctx, rng)

    if ctx.extra.get("events_compared", 0) < n:
        raise Inconclusive("too few comparison events: %s" % ctx.extra.get("events_compared", 0))
