"""C08 - From, Into and Constructor preserve field order and invert each other.

Generated programs derive `From`, `Into` and `Constructor` (the real proc-macro) on structs and
`From` on enums whose fields are the spy types `B<K>` defined in the generated crate
(`A<K> --From--> B<K> --From--> C<K>`, each conversion logging one op; reference conversions
`&B<K> -> &C<K>` / `&mut B<K> -> &mut C<K>` preserve the address).  Fields of one type get several
fields of the *same* `B<K>` in most cases, so that a permutation type-checks and is visible only
through the run-time values.  Every conversion the documentation promises is executed and logged
next to the reference (computed here from the declaration: value of declared field i, address of
the field, list of conversions), and the set of `From<..>` impls is probed with `impls!` over a
candidate set and compared with the documented set.
"""
from . import common, l2
from .l2 import Case
from .common import rs_str

PRELUDE = r"""
#[derive(Clone, Copy, PartialEq, Eq, Debug)] #[repr(transparent)] pub struct A<const K: usize, T = u64>(pub T);
#[derive(Clone, Copy, PartialEq, Eq, Debug)] #[repr(transparent)] pub struct B<const K: usize, T = u64>(pub T);
#[derive(Clone, Copy, PartialEq, Eq, Debug)] #[repr(transparent)] pub struct C<const K: usize, T = u64>(pub T);
impl<const K: usize, T> From<A<K, T>> for B<K, T> { fn from(v: A<K, T>) -> Self { op(format!("a2b<{}>", K)); B(v.0) } }
impl<const K: usize, T> From<B<K, T>> for C<K, T> { fn from(v: B<K, T>) -> Self { op(format!("b2c<{}>", K)); C(v.0) } }
impl<'a, const K: usize, T> From<&'a B<K, T>> for &'a C<K, T> {
    fn from(v: &'a B<K, T>) -> Self { op(format!("rb2c<{}>", K)); unsafe { &*(v as *const B<K, T> as *const C<K, T>) } }
}
impl<'a, const K: usize, T> From<&'a mut B<K, T>> for &'a mut C<K, T> {
    fn from(v: &'a mut B<K, T>) -> Self { op(format!("mb2c<{}>", K)); unsafe { &mut *(v as *mut B<K, T> as *mut C<K, T>) } }
}
// modules named like the attribute keywords: a listed type may be spelled through them (`#[from(types::A<1>)]`)
pub mod types { pub use super::{A, B, C}; }
pub mod owned { pub use super::{A, B, C}; }
pub mod forward { pub use super::{A, B, C}; }
pub mod skip { pub use super::{A, B, C}; }
pub mod ignore { pub use super::{A, B, C}; }
pub mod r#ref { pub use super::{A, B, C}; }
pub mod ref_mut { pub use super::{A, B, C}; }
pub fn mka<const K: usize>(v: u64) -> A<K> { A(v) }
pub fn mkb<const K: usize>(v: u64) -> B<K> { B(v) }
pub fn sops() -> String {
    let mut v: Vec<String> = take_ops().split(';').filter(|s| !s.is_empty()).map(|s| s.to_string()).collect();
    v.sort();
    v.join(";")
}
pub fn vs(v: &[u64]) -> String { format!("{:?}", v) }
pub fn us(v: &[usize]) -> String { format!("{:?}", v) }
"""

NAMES = ["x", "y", "z", "w", "a", "b", "r#type", "r#fn", "m0", "q", "r#loop", "k"]
REFKINDS = ("owned", "ref", "ref_mut")
RK_PREFIX = {"owned": "", "ref": "&'static ", "ref_mut": "&'static mut "}
RK_EXPR = {"owned": "", "ref": "&", "ref_mut": "&mut "}
RK_OP = {"owned": "b2c", "ref": "rb2c", "ref_mut": "mb2c"}


PATH_PREFIXES = ["types::", "types::", "owned::", "forward::", "skip::", "ignore::", "r#ref::", "ref_mut::", "crate::types::", "self::types::"]


def ty(fam, k, gen=False):
    return "%s<%d%s>" % (fam, k, ", T" if gen else "")


def tup(elems):
    if not elems:
        return "()"
    if len(elems) == 1:
        return elems[0]
    return "(%s)" % ", ".join(elems)


def mk(fam, k, v):
    return "mk%s::<%d>(%d)" % (fam.lower(), k, v)


def vals_lit(vals):
    return rs_str("[%s]" % ", ".join(str(v) for v in vals))


def ops_lit(ops):
    return rs_str(";".join(sorted(ops)))


def pick_ks(rng, n, mode=None):
    """Const-generic tags of n fields: pairwise distinct, all the same, or mixed."""
    mode = mode or rng.choice(("distinct", "distinct", "same", "same", "mixed"))
    if n == 0:
        return [], "distinct"
    if mode == "distinct" or n == 1:
        return rng.sample(range(0, 9), n), ("distinct" if n > 1 else "single")
    if mode == "same":
        return [rng.randrange(0, 9)] * n, "same"
    pool = rng.sample(range(0, 9), max(1, n - 1))
    ks = [rng.choice(pool) for _ in range(n)]
    if len(set(ks)) == n:
        ks[-1] = ks[0]
    return ks, ("same" if len(set(ks)) == 1 else "mixed")


def pick_vals(rng, n):
    return rng.sample(range(1, 1000000), n)


class Fields:
    """Field list of a struct or enum variant."""

    def __init__(self, rng, kind, n, ks, gen=False):
        self.kind, self.n, self.ks, self.gen = kind, n, ks, gen
        self.names = rng.sample(NAMES, n) if kind == "named" else [str(i) for i in range(n)]
        # how listed types are spelled inside attributes: mostly plain, sometimes through a module whose name is an
        # attribute keyword (a type list is a list of TYPES, whatever their first path segment is called)
        self.pfx = rng.choice(PATH_PREFIXES) if rng.random() < 0.2 else ""

    def decl(self, field_attrs=None, vis="pub "):
        fa = field_attrs or [""] * self.n
        if self.kind == "unit":
            return ""
        if self.kind == "tuple":
            return "(%s)" % ", ".join("%s%s%s" % (fa[i], vis, ty("B", self.ks[i], self.gen)) for i in range(self.n))
        return " { %s }" % ", ".join("%s%s%s: %s" % (fa[i], vis, self.names[i], ty("B", self.ks[i], self.gen)) for i in range(self.n))

    def make(self, path, vals):
        if self.kind == "unit":
            return path
        if self.kind == "tuple":
            return "%s(%s)" % (path, ", ".join(mk("B", k, v) for k, v in zip(self.ks, vals)))
        return "%s { %s }" % (path, ", ".join("%s: %s" % (nm, mk("B", k, v)) for nm, k, v in zip(self.names, self.ks, vals)))

    def pat(self, path):
        vs_ = ["f%d" % i for i in range(self.n)]
        if self.kind == "unit":
            return path, vs_
        if self.kind == "tuple":
            return "%s(%s)" % (path, ", ".join(vs_)), vs_
        return "%s { %s }" % (path, ", ".join("%s: %s" % (nm, v) for nm, v in zip(self.names, vs_))), vs_

    def src_ty(self, spec):
        """Type text (instantiated, T = u64) of a conversion source/target given family letters."""
        return tup([ty(f, k) for f, k in zip(spec, self.ks)])

    def src_ty_decl(self, spec):
        """Same, as written in an attribute inside the (possibly generic) type definition."""
        return tup([self.pfx + ty(f, k, self.gen) for f, k in zip(spec, self.ks)])

    def src_val(self, spec, vals):
        return tup([mk(f, k, v) for f, k, v in zip(spec, self.ks, vals)])

    def fwd_match(self, elems):
        """Does the tuple of (fam, k) elems satisfy `B<ks[i]>: From<elem i>` for every i?"""
        return len(elems) == self.n and all(f in "AB" and k == self.ks[i] for i, (f, k) in enumerate(elems))


def rand_specs(rng, n, count, letters="AB", forbid=()):
    """`count` pairwise distinct family-letter assignments for n fields."""
    out = []
    tries = 0
    while len(out) < count and tries < 40:
        tries += 1
        s = tuple(rng.choice(letters) for _ in range(n))
        if s not in out and s not in forbid:
            out.append(s)
    return out


# ---------------------------------------------------------------------------------------------
# From on structs / Constructor / Into


def from_attr_struct(rng, f):
    """Returns (attr_kind, attr_text, impl_specs or None for forward)."""
    if f.n == 0:
        return "none", "", [()]
    r = rng.random()
    if r < 0.35:
        return "none", "", [tuple("B" * f.n)]
    if r < 0.65:
        return "forward", "#[from(forward)]\n", None
    specs = rand_specs(rng, f.n, rng.choice((1, 2, 2, 3)))
    if rng.random() < 0.4 and len(specs) > 1:
        text = "".join("#[from(%s)]\n" % f.src_ty_decl(s) for s in specs)
        kind = "types-repeated"
    else:
        text = "#[from(%s)]\n" % ", ".join(f.src_ty_decl(s) for s in specs)
        kind = "types"
    return kind, text, specs


class IntoSpec:
    """Conversions requested by one `#[into(...)]` attribute group: rk -> (consider, [spec...])."""

    def __init__(self):
        self.convs = {}

    def impls(self):
        out = []
        for rk in REFKINDS:
            if rk in self.convs:
                cons, tys = self.convs[rk]
                if cons:
                    out.append((rk, None))
                for s in tys:
                    out.append((rk, s))
        return out


def rand_into_spec(rng, m, allow_types=True):
    """Random conversions over m participating fields."""
    sp = IntoSpec()
    while not sp.convs:
        for rk in REFKINDS:
            r = rng.random()
            if r < (0.45 if rk == "owned" else 0.55):
                continue
            if not allow_types or m == 0 or r < 0.75:
                sp.convs[rk] = (True, [])
            elif r < 0.9:
                sp.convs[rk] = (False, rand_specs(rng, m, rng.choice((1, 1, 2)), "BC"))
            else:
                sp.convs[rk] = (True, rand_specs(rng, m, 1, "BC", forbid=(tuple("B" * m),)))
    return sp


def render_into(rng, sp, tyfn, allow_empty_attr):
    """Attribute text for an IntoSpec; tyfn(spec) renders one listed type. Returns (text, style)."""
    items = []  # (rk, text, bare_ok)
    for rk in REFKINDS:
        if rk not in sp.convs:
            continue
        cons, tys = sp.convs[rk]
        if cons:
            items.append((rk, rk, False))
        if tys:
            if len(tys) > 1 and rng.random() < 0.4:
                for s in tys:
                    items.append((rk, "%s(%s)" % (rk, tyfn(s)), True))
            else:
                items.append((rk, "%s(%s)" % (rk, ", ".join(tyfn(s) for s in tys)), True))
    if allow_empty_attr and len(items) == 1 and items[0][1] == "owned" and rng.random() < 0.5:
        return "#[into]", "empty"
    rng.shuffle(items)
    only_owned_types = all(rk == "owned" and bare for rk, _, bare in items)
    if only_owned_types and rng.random() < 0.6:
        # documented short form: bare types mean owned conversions
        inner = [t[len("owned("):-1] for _, t, _ in items]
        if rng.random() < 0.5 or len(inner) == 1:
            return "#[into(%s)]" % ", ".join(inner), "bare"
        return " ".join("#[into(%s)]" % t for t in inner), "bare-repeated"
    if len(items) > 1 and rng.random() < 0.4:
        parts = []
        for rk, t, bare in items:
            if rk == "owned" and bare and rng.random() < 0.5:
                parts.append("#[into(%s)]" % t[len("owned("):-1])
            else:
                parts.append("#[into(%s)]" % t)
        return " ".join(parts), "repeated"
    return "#[into(%s)]" % ", ".join(t for _, t, _ in items), "single"


def struct_case(cid, rng):
    kind = rng.choice(("tuple",) * 5 + ("named",) * 5 + ("unit",))
    n = 0 if kind == "unit" else rng.choice((0, 1, 1, 2, 2, 2, 3, 3, 3, 4, 4))
    ks, mode = pick_ks(rng, n)
    gen = n > 0 and rng.random() < 0.2
    f = Fields(rng, kind, n, ks, gen)
    r = rng.random()
    derives = (["From"] if r < 0.25 else ["Into"] if r < 0.55 else ["From", "Into"] if r < 0.9 else [])
    if not derives or rng.random() < 0.35:
        derives.append("Constructor")
    STY = "S<u64>" if gen else "S"
    vals = pick_vals(rng, n)
    body, nexp = [], 0
    attrs = ""
    meta = {"derives": derives, "fields": "%s%s" % (kind, ks), "mode": mode, "generic": gen}
    clsbits = []
    tags = set()

    def fld(var, i):
        return "%s.%s.0" % (var, f.names[i])

    def allvals(var):
        return "vs(&[%s])" % ", ".join(fld(var, i) for i in range(n))

    # ---- Constructor -------------------------------------------------------------------
    if "Constructor" in derives:
        body.append("{ let s: %s = <%s>::new(%s);" % (STY, STY, ", ".join(mk("B", k, v) for k, v in zip(ks, vals))))
        body.append("  cmp(\"ctor.value|new\", &%s, %s); }" % (allvals("s"), vals_lit(vals)))
        nexp += 1

    # ---- From --------------------------------------------------------------------------
    from_specs = None
    fkind = None
    if "From" in derives:
        fkind, ftext, from_specs = from_attr_struct(rng, f)
        attrs += ftext
        meta["from"] = ftext.strip() or "(no attribute)"
        clsbits.append("from:" + fkind)
        if n > 1:
            tags.add("struct_from_%s_multi" % fkind.split("-")[0])
            if len(set(ks)) < n:
                tags.add("struct_from_%s_multi_sametype" % fkind.split("-")[0])
        run_specs = from_specs if from_specs is not None else (
            [tuple("B" * n), tuple("A" * n)] + rand_specs(rng, n, 2, "AB", forbid=(tuple("B" * n), tuple("A" * n))))
        for s in run_specs:
            v = pick_vals(rng, n)
            st = f.src_ty(s)
            body.append("{ let _ = take_ops(); let s: %s = <%s as From<%s>>::from(%s); let ops = sops();" % (STY, STY, st, f.src_val(s, v)))
            body.append("  cmp(%s, &%s, %s);" % (rs_str("from.value|" + st), allvals("s"), vals_lit(v)))
            body.append("  cmp(%s, &ops, %s); }" % (rs_str("from.ops|" + st), ops_lit("a2b<%d>" % k for fam, k in zip(s, ks) if fam == "A")))
            nexp += 2
        # impl-set probes
        cands = []

        def add(elems):
            if elems not in cands:
                cands.append(elems)

        base = [("B", k) for k in ks]
        add(base)
        for s in (from_specs or run_specs):
            add([(fam, k) for fam, k in zip(s, ks)])
        if n:
            i = rng.randrange(n)
            add(base[:i] + [("A", ks[i])] + base[i + 1:])
            i = rng.randrange(n)
            add(base[:i] + [("C", ks[i])] + base[i + 1:])
            add(base[:-1])
            add(list(reversed(base)))
            i = rng.randrange(n)
            add(base[:i] + [("B", (ks[i] + 1) % 10 + 10)] + base[i + 1:])
        add(base + [("B", 20)])
        implset = None if from_specs is None else set(f.src_ty(s) for s in from_specs)
        for elems in cands:
            st = tup([ty(fam, k) for fam, k in elems])
            want = f.fwd_match(elems) if implset is None else (st in implset)
            body.append("cmp(%s, &impls!(%s: From<%s>).to_string(), \"%s\");" % (rs_str("from.impl|" + st), STY, st, "true" if want else "false"))
            nexp += 1

    # ---- Into --------------------------------------------------------------------------
    field_attrs = [""] * n
    into_model = []  # (rk, field indices, spec)
    if "Into" in derives:
        for attempt in range(30):
            field_attrs = [""] * n
            into_model = []
            skips = [False] * n
            fconv = [None] * n
            styles = []
            if n:
                for i in range(n):
                    r = rng.random()
                    skips[i] = r < 0.3
                    if rng.random() < 0.25:
                        fconv[i] = rand_into_spec(rng, 1)
            smode = rng.choice(("none", "none", "empty", "spec", "spec", "spec"))
            live = [i for i in range(n) if not skips[i]]
            sspec = None
            stext = ""
            if smode == "empty":
                stext = "#[into]\n"
                sspec = IntoSpec()
                sspec.convs["owned"] = (True, [])
            elif smode == "spec":
                sspec = rand_into_spec(rng, len(live))
                t, sty = render_into(rng, sspec, lambda s: tup([ty(fam, ks[i], gen) for fam, i in zip(s, live)]), False)
                stext = t + "\n"
                styles.append(sty)
            elif not any(fconv):
                sspec = IntoSpec()
                sspec.convs["owned"] = (True, [])
            for i in range(n):
                parts = []
                if fconv[i] is not None:
                    t, sty = render_into(rng, fconv[i], lambda s, i=i: ty(s[0], ks[i], gen), True)
                    parts.append(t)
                    styles.append("field-" + sty)
                    for rk, s in fconv[i].impls():
                        into_model.append((rk, [i], s or ("B",)))
                if skips[i]:
                    parts.append("#[into(%s)]" % rng.choice(("skip", "skip", "ignore")))
                rng.shuffle(parts)
                field_attrs[i] = "".join(p + " " for p in parts)
            if sspec is not None:
                for rk, s in sspec.impls():
                    into_model.append((rk, live, s or tuple("B" * len(live))))
            keys = [(rk, tup([ty(fam, ks[i]) for fam, i in zip(s, idx)])) for rk, idx, s in into_model]
            # `#[from(forward)]` on a one-field struct is `impl<T> From<T> for S where B<k>: From<T>`; together with a derived
            # `impl From<S> for B<k>` it overlaps core's `impl<T> From<T> for T` (rustc E0119 whatever the derives do)
            reflexive = fkind == "forward" and n == 1 and ("owned", ty("B", ks[0])) in keys
            if len(set(keys)) == len(keys) and 0 < len(keys) <= 9 and not reflexive:
                break
        else:
            raise common.Inconclusive("could not generate a conflict-free Into attribute set")
        attrs += stext
        meta["into"] = {"struct": stext.strip() or "(no attribute)", "fields": [a.strip() for a in field_attrs]}
        clsbits.append("into:%s:%s:skip=%d:fieldconv=%d:%s" % (
            smode, "+".join(sorted(set(rk for rk, _, _ in into_model))), int(any(skips)), int(any(fconv)), "+".join(sorted(set(styles)))))
        implkeys = set(keys)
        for rk, idx, s in into_model:
            shifted = kind == "tuple" and any(i != j for j, i in enumerate(idx))
            tags.add("into_%s%s%s" % (rk, "_typed" if "C" in s else "", "_multi" if len(idx) > 1 else ""))
            if shifted:
                tags.add("into_%s_tuple_index_ne_position" % rk)
        if any("repeated" in x for x in styles):
            tags.add("into_repeated_attrs")
        if any(fconv) and any(skips[i] and fconv[i] for i in range(n)):
            tags.add("into_field_conv_on_skipped_field")
        for (rk, idx, s), (_, tstr) in zip(into_model, keys):
            m = len(idx)
            tgt = tup([RK_EXPR[rk] + ty(fam, ks[i]) for fam, i in zip(s, idx)])
            tag = "%s %s" % (rk, tstr)
            acc = (lambda j: "r") if m == 1 else (lambda j: "r.%d" % j)
            want_ops = ops_lit("%s<%d>" % (RK_OP[rk], ks[i]) for fam, i in zip(s, idx) if fam == "C")
            mkv = f.make("S", vals)
            if rk == "owned":
                body.append("{ let s: %s = %s; let _ = take_ops(); let r = <%s as From<%s>>::from(s); let ops = sops();" % (STY, mkv, tgt, STY))
                body.append("  cmp(%s, &vs(&[%s]), %s);" % (rs_str("into.owned.value|" + tag), ", ".join(acc(j) + ".0" for j in range(m)), vals_lit([vals[i] for i in idx])))
                body.append("  cmp(%s, &ops, %s); }" % (rs_str("into.owned.ops|" + tag), want_ops))
                nexp += 2
            elif rk == "ref":
                body.append("{ let s: %s = %s; let _ = take_ops(); let r = <%s as From<&%s>>::from(&s); let ops = sops();" % (STY, mkv, tgt, STY))
                body.append("  cmp(%s, &us(&[%s]), &us(&[%s]));" % (
                    rs_str("into.ref.addr|" + tag), ", ".join("addr(&*%s)" % acc(j) for j in range(m)), ", ".join("addr(&s.%s)" % f.names[i] for i in idx)))
                body.append("  cmp(%s, &vs(&[%s]), %s);" % (rs_str("into.ref.value|" + tag), ", ".join(acc(j) + ".0" for j in range(m)), vals_lit([vals[i] for i in idx])))
                body.append("  cmp(%s, &ops, %s); }" % (rs_str("into.ref.ops|" + tag), want_ops))
                nexp += 3
            else:
                newv = pick_vals(rng, m)
                after = list(vals)
                for j, i in enumerate(idx):
                    after[i] = newv[j]
                body.append("{ let mut s: %s = %s; let want_addr = us(&[%s]); let _ = take_ops(); let got_addr;" % (
                    STY, mkv, ", ".join("addr(&s.%s)" % f.names[i] for i in idx)))
                body.append("  { let mut r = <%s as From<&mut %s>>::from(&mut s); got_addr = us(&[%s]); %s }" % (
                    tgt, STY, ", ".join("addr(&*%s)" % acc(j) for j in range(m)), " ".join("%s.0 = %d;" % (acc(j), newv[j]) for j in range(m))))
                body.append("  let ops = sops(); cmp(%s, &got_addr, &want_addr);" % rs_str("into.ref_mut.addr|" + tag))
                body.append("  cmp(%s, &%s, %s);" % (rs_str("into.ref_mut.write|" + tag), allvals("s"), vals_lit(after)))
                body.append("  cmp(%s, &ops, %s); }" % (rs_str("into.ref_mut.ops|" + tag), want_ops))
                nexp += 3
        # impl-set probes
        cands = []

        def addc(rk, elems):
            if (rk, elems) not in cands:
                cands.append((rk, elems))

        for rk, idx, s in into_model:
            addc(rk, [(fam, ks[i]) for fam, i in zip(s, idx)])
        extra = []
        for rk in REFKINDS:
            extra.append((rk, [("B", ks[i]) for i in live]))
            if len(live) != n:
                extra.append((rk, [("B", k) for k in ks]))
            for i in rng.sample(range(n), min(n, 2)):
                extra.append((rk, [("B", ks[i])]))
                if rng.random() < 0.3:
                    extra.append((rk, [("C", ks[i])]))
        if into_model:
            rk, idx, s = rng.choice(into_model)
            if idx:
                j = rng.randrange(len(idx))
                e = [(fam, ks[i]) for fam, i in zip(s, idx)]
                e[j] = ("C" if e[j][0] == "B" else "B", e[j][1])
                extra.append((rk, e))
                extra.append((rk, list(reversed([(fam, ks[i]) for fam, i in zip(s, idx)]))))
        rng.shuffle(extra)
        for rk, e in extra[:12]:
            addc(rk, e)
        for rk, elems in cands:
            tstr = tup([ty(fam, k) for fam, k in elems])
            probe_t = tup([RK_PREFIX[rk] + ty(fam, k) for fam, k in elems])
            want = (rk, tstr) in implkeys
            body.append("cmp(%s, &impls!(%s: From<%s%s>).to_string(), \"%s\");" % (
                rs_str("into.impl|%s %s" % (rk, tstr)), probe_t, RK_PREFIX[rk], STY, "true" if want else "false"))
            nexp += 1

    # ---- round trip (both derived, plain tuple on both sides) -----------------------------
    if "From" in derives and "Into" in derives:
        plain = tuple("B" * n)
        from_ok = from_specs is None or plain in [tuple(s) for s in from_specs]
        into_ok = any(rk == "owned" and idx == list(range(n)) and tuple(s) == plain for rk, idx, s in into_model)
        if from_ok and into_ok:
            tt = f.src_ty(plain)
            body.append("{ let t: %s = %s; let s: %s = <%s as From<%s>>::from(t); let back = <%s as From<%s>>::from(s);" % (
                tt, f.src_val(plain, vals), STY, STY, tt, tt, STY))
            body.append("  cmp(\"roundtrip.tuple|tuple->struct->tuple\", &format!(\"{:?}\", back), &format!(\"{:?}\", t));")
            body.append("  let s0: %s = %s; let s1: %s = <%s as From<%s>>::from(<%s as From<%s>>::from(%s));" % (
                STY, f.make("S", vals), STY, STY, tt, tt, STY, f.make("S", vals)))
            body.append("  cmp(\"roundtrip.struct|struct->tuple->struct\", &%s, &%s); }" % (allvals("s1"), allvals("s0")))
            nexp += 2
            clsbits.append("roundtrip")
            tags.add("roundtrip_multi" if n > 1 else "roundtrip")

    # generic parameters are declared plainly, with an inline bound, or with a `where` clause (u64 is Copy)
    gstyle = rng.choice(("plain", "inline", "where")) if gen else None
    gdecl = {"plain": "<T>", "inline": "<T: Copy>", "where": "<T>", None: ""}[gstyle]
    wh = " where T: Copy" if gstyle == "where" else ""
    if kind == "named":
        decl_body = wh + f.decl(field_attrs)
    else:
        decl_body = f.decl(field_attrs) + wh + ";"
    decl = "#[derive(%s)]\n%spub struct S%s%s" % (
        ", ".join("derive_more::" + d for d in derives), attrs, gdecl, decl_body)
    if "Constructor" in derives:
        clsbits.append("ctor")
        if n > 1:
            tags.add("ctor_multi_%s" % kind)
    meta["tags"] = sorted(tags)
    meta["what"] = "struct %s %s" % ("+".join(derives), meta["fields"])
    meta["decl"] = decl
    cls = ("struct", kind, n, mode, gen) + tuple(clsbits)
    return Case(cid, cls, decl, "\n".join(body), expect=nexp, meta=meta, trivial=(n == 0 and derives == ["Constructor"]))


# ---------------------------------------------------------------------------------------------
# From on enums


def enum_case(cid, rng):
    for attempt in range(60):
        c = _enum_try(cid, rng)
        if c is not None:
            return c
    raise common.Inconclusive("could not generate a coherent enum")


def _enum_try(cid, rng):
    nv = rng.choice((1, 2, 2, 3, 3, 4, 5))
    gen = rng.random() < 0.15
    kmode = rng.choice(("distinct", "same", "mixed"))
    # which attribute kinds annotated variants carry: none at all, one kind only (so that each kind alone is seen switching
    # the enum to explicit mode), or a mixture
    flavor = rng.choice(("plain", "plain", "plain", "from", "types", "forward", "mixed", "mixed"))
    variants = []
    used = set()
    for vi in range(nv):
        kind = rng.choice(("tuple", "tuple", "tuple", "named", "named", "unit"))
        n = 0 if kind == "unit" else rng.choice((0, 1, 1, 1, 2, 2, 3))
        if kmode == "distinct":
            free = [k for k in range(0, 30) if k not in used]
            ks = rng.sample(free, n)
            used.update(ks)
        else:
            ks, _ = pick_ks(rng, n, kmode)
        f = Fields(rng, kind, n, ks, gen)
        r = rng.random()
        if n == 0:
            attr = "from" if r < 0.06 else "skip" if r < 0.15 else "none"
        elif flavor == "plain":
            attr = "skip" if r < 0.2 else "ignore" if r < 0.3 else "none"
        elif flavor == "mixed":
            attr = ("from" if r < 0.25 else "types" if r < 0.45 else "forward" if r < 0.6 else "skip" if r < 0.7 else "none")
        else:
            attr = flavor if (r < 0.5 or (vi == 0 and nv > 1)) else "skip" if r < 0.6 else "none"
        specs = None
        text = ""
        if attr == "from":
            text = "#[from] "
        elif attr in ("skip", "ignore"):
            text = "#[from(%s)] " % attr
        elif attr == "forward":
            text = "#[from(forward)] "
        elif attr == "types":
            specs = rand_specs(rng, n, rng.choice((1, 2, 2)))
            if len(specs) > 1 and rng.random() < 0.4:
                text = "".join("#[from(%s)] " % f.src_ty_decl(s) for s in specs)
            else:
                text = "#[from(%s)] " % ", ".join(f.src_ty_decl(s) for s in specs)
        variants.append({"name": "V%d" % vi, "f": f, "attr": attr, "specs": specs, "text": text})
    if gen and not any(v["f"].n for v in variants):
        gen = False
        for v in variants:
            v["f"].gen = False
    explicit = any(v["attr"] in ("from", "types", "forward") for v in variants)
    # documented impl set
    concrete = []   # (variant index, spec)
    forwards = []   # variant index
    unit_from = 0
    for vi, v in enumerate(variants):
        f = v["f"]
        if v["attr"] == "types":
            concrete += [(vi, s) for s in v["specs"]]
        elif v["attr"] == "forward":
            forwards.append(vi)
        elif v["attr"] == "from":
            if f.n == 0:
                unit_from += 1
            concrete.append((vi, tuple("B" * f.n)))
        elif v["attr"] == "none" and not explicit and f.n > 0:
            concrete.append((vi, tuple("B" * f.n)))
    # coherence: rustc rejects overlapping impls whatever the derive does
    strs = [variants[vi]["f"].src_ty(s) for vi, s in concrete]
    if len(set(strs)) != len(strs) or unit_from > 1:
        return None
    for a in forwards:
        fa = variants[a]["f"]
        for b in forwards:
            if a < b and variants[b]["f"].n == fa.n:
                return None
        for vi, s in concrete:
            fb = variants[vi]["f"]
            if fa.fwd_match([(fam, k) for fam, k in zip(s, fb.ks)]):
                return None
    ETY = "E<u64>" if gen else "E"
    gstyle = rng.choice(("plain", "inline", "where")) if gen else None
    items = ["#[derive(derive_more::From)]\npub enum E%s {\n%s\n}" % (
        {"plain": "<T>", "inline": "<T: Copy>", "where": "<T> where T: Copy", None: ""}[gstyle], "\n".join("    %s%s%s," % (v["text"], v["name"], v["f"].decl(vis="")) for v in variants))]
    arms = []
    for v in variants:
        p, vs_ = v["f"].pat("E::" + v["name"])
        arms.append("%s => format!(\"%s{:?}\", vec![%s] as Vec<u64>)," % (p, v["name"], ", ".join(x + ".0" for x in vs_)))
    items.append("pub fn d(e: &%s) -> String { match e { %s } }" % (ETY, " ".join(arms)))
    body, nexp = [], 0

    def conv(vi, s):
        nonlocal nexp
        v = variants[vi]
        f = v["f"]
        vals = pick_vals(rng, f.n)
        st = f.src_ty(s)
        body.append("{ let _ = take_ops(); let e: %s = <%s as From<%s>>::from(%s); let ops = sops();" % (ETY, ETY, st, f.src_val(s, vals)))
        body.append("  cmp(%s, &d(&e), %s);" % (rs_str("from.value|%s %s" % (v["attr"], st)), rs_str("%s[%s]" % (v["name"], ", ".join(str(x) for x in vals)))))
        body.append("  cmp(%s, &ops, %s); }" % (rs_str("from.ops|%s %s" % (v["attr"], st)), ops_lit("a2b<%d>" % k for fam, k in zip(s, f.ks) if fam == "A")))
        nexp += 2

    for vi, s in concrete:
        if variants[vi]["f"].n == 0:
            continue  # `#[from]` on a field-less variant: documentation silent, observed below
        conv(vi, s)
    for vi in forwards:
        n = variants[vi]["f"].n
        for s in [tuple("B" * n), tuple("A" * n)] + rand_specs(rng, n, 1, "AB", forbid=(tuple("B" * n), tuple("A" * n))):
            conv(vi, s)

    # impl-set probes over the payloads of all variants (+ listed types, + near misses)
    cands = []

    def add(elems):
        if elems not in cands:
            cands.append(elems)

    add([])
    for v in variants:
        f = v["f"]
        base = [("B", k) for k in f.ks]
        add(base)
        for s in v["specs"] or ():
            add([(fam, k) for fam, k in zip(s, f.ks)])
        if f.n and rng.random() < 0.6:
            i = rng.randrange(f.n)
            add(base[:i] + [("A", f.ks[i])] + base[i + 1:])
        if f.n and rng.random() < 0.3:
            i = rng.randrange(f.n)
            add(base[:i] + [("C", f.ks[i])] + base[i + 1:])
        if f.n > 1 and rng.random() < 0.3:
            add(list(reversed(base)))
    implset = set(strs)
    silent_unit = unit_from > 0 or (not explicit and any(v["f"].n == 0 and v["f"].kind != "unit" and v["attr"] == "none" for v in variants))
    for elems in cands[:14]:
        st = tup([ty(fam, k) for fam, k in elems])
        want = st in implset or any(variants[vi]["f"].fwd_match(elems) for vi in forwards)
        if not elems and silent_unit:
            # `#[from]` on a field-less variant / un-annotated `V()` or `V {}`: not specified by the docs
            body.append("obs(%s, &impls!(%s: From<()>).to_string());" % (rs_str("from.impl.unspecified|()%s" % ("#[from]" if unit_from else "empty-variant")), ETY))
        else:
            body.append("cmp(%s, &impls!(%s: From<%s>).to_string(), \"%s\");" % (rs_str("from.impl|" + st), ETY, st, "true" if want else "false"))
        nexp += 1
    shape = tuple(sorted(set((v["f"].kind, v["f"].n, v["attr"]) for v in variants)))
    tags = set()
    for v in variants:
        if v["f"].n > 1 and v["attr"] in ("none", "from", "types", "forward") and (v["attr"] != "none" or not explicit):
            tags.add("enum_from_%s_multi" % v["attr"])
    kinds_used = set(v["attr"] for v in variants if v["attr"] in ("from", "types", "forward"))
    if explicit and any(v["attr"] == "none" and v["f"].n > 0 for v in variants):
        tags.add("enum_unannotated_suppressed_by_%s" % ("+".join(sorted(kinds_used)) if len(kinds_used) == 1 else "mixed"))
    if any(v["attr"] in ("skip", "ignore") and v["f"].n > 0 for v in variants):
        tags.add("enum_skipped_variant")
    if any(v["f"].kind == "unit" and v["attr"] == "none" for v in variants):
        tags.add("enum_unit_variant")
    meta = {"tags": sorted(tags), "what": "enum From [%s]" % ", ".join("%s%s%s%s" % (v["text"], v["name"], v["f"].kind, v["f"].ks) for v in variants),
            "decl": items[0], "explicit": explicit}
    trivial = not concrete and not forwards and all(v["f"].n == 0 for v in variants)
    return Case(cid, ("enum", nv, kmode, gen, explicit, shape), "\n".join(items), "\n".join(body), expect=nexp, meta=meta, trivial=trivial)


# ---------------------------------------------------------------------------------------------


REQUIRED_TAGS = [
    "struct_from_none_multi", "struct_from_types_multi", "struct_from_forward_multi",
    "struct_from_types_multi_sametype", "struct_from_forward_multi_sametype",
    "enum_from_none_multi", "enum_from_from_multi", "enum_from_types_multi", "enum_from_forward_multi",
    "enum_unannotated_suppressed_by_from", "enum_unannotated_suppressed_by_types", "enum_unannotated_suppressed_by_forward",
    "enum_skipped_variant", "enum_unit_variant",
    "into_owned_multi", "into_ref_multi", "into_ref_mut_multi", "into_owned_typed_multi", "into_ref_typed_multi", "into_ref_mut_typed_multi",
    "into_owned_tuple_index_ne_position", "into_ref_tuple_index_ne_position", "into_ref_mut_tuple_index_ne_position",
    "into_repeated_attrs", "into_field_conv_on_skipped_field", "roundtrip_multi", "ctor_multi_tuple", "ctor_multi_named",
]


def keyfn(c, e):
    kind = e.get("kind", "").split("|")[0]
    if kind.endswith(".impl"):
        kind += ".missing" if e.get("want") == "true" else ".unexpected"
    return "mismatch:%s:%s" % (c.cls[0], kind)


def run(ctx):
    rng = ctx.rng
    cases = []
    ns = ctx.pick(300, 4500)
    ne = ctx.pick(200, 3000)
    for i in range(ns):
        cases.append(struct_case("s%d" % i, rng))
    for i in range(ne):
        cases.append(enum_case("e%d" % i, rng))
    ctx.rule = ("types: unit/tuple/named structs with 0-4 fields deriving a random subset of From/Into/Constructor, and enums with 1-5 variants "
                "(unit, tuple 0-3, named 0-3) deriving From; field types are spy types B<K> that are pairwise distinct, all equal or mixed "
                "(equal types make a permutation type-check so that only run-time values reveal it), concrete or generic over T; attributes: "
                "#[from(<types>)] (single/repeated), #[from(forward)], #[from], #[from(skip|ignore)] per variant; #[into], #[into(<types>)], "
                "owned/ref/ref_mut with and without type lists in one or several attributes on the struct and on fields, #[into(skip|ignore)]. "
                "Only coherent declarations are generated (no two impls for one source/target type). distinct = distinct (kind, arity, type mode, "
                "genericity, attribute kinds, reference kinds, skip/field-conversion use, attribute spelling, variant-kind set) tuples; "
                "a case is trivial only if it has no field and no conversion")
    ctx.assumptions += [
        "the spy conversions A<K>->B<K>->C<K> (and &B<K>->&C<K>, &mut B<K>->&mut C<K>) defined in the generated crate log exactly one op per call and keep value/address",
        "rt::impls! (inherent-const/autoref probe) reports trait presence as rustc resolves it for concrete types",
        "`#[from]` on a field-less variant and un-annotated `V()`/`V {}` variants are not specified by the documentation: recorded as observations only",
    ]
    seen = {}
    for c in cases:
        for t in c.meta.get("tags", ()):
            seen[t] = seen.get(t, 0) + 1
    ctx.extra["coverage_tags"] = dict(sorted(seen.items()))
    missing = [t for t in REQUIRED_TAGS if not seen.get(t)]
    if missing:
        raise common.Inconclusive("workload does not contain the required case classes: %s" % ", ".join(missing))
    res = l2.build_and_run(ctx, "conv", cases, prelude=PRELUDE)
    ctx.extra["build_rounds"] = res.rounds
    for c in cases:
        for e in res.events.get(c.id, []):
            k = e.get("kind", "")
            if k.startswith("from.impl.unspecified|"):
                ctx.bump("obs_unspecified_%s_%s" % ("unit_from_attr" if "#[from]" in k else "empty_variant", e.get("val")))
            elif "got" in e:
                ctx.bump("events_" + k.split("|")[0].replace(".", "_"))
    l2.check_cmp_events(ctx, cases, res, keyfn=keyfn)
    picks = []
    for t in ("into_ref_mut_tuple_index_ne_position", "struct_from_types_multi_sametype", "struct_from_forward_multi", "roundtrip_multi",
              "into_field_conv_on_skipped_field", "ctor_multi_named", "enum_from_types_multi", "enum_from_forward_multi",
              "enum_unannotated_suppressed_by_types", "enum_skipped_variant"):
        for c in cases:
            if t in c.meta.get("tags", ()) and c not in picks:
                picks.append(c)
                break
    for c in picks:
        evs = [e for e in res.events.get(c.id, []) if "got" in e]
        first = {}
        for e in evs:  # one event of every check kind, preferring non-empty conversion logs
            k = e["kind"].split("|")[0]
            if k not in first or (k.endswith(".ops") and not first[k]["want"] and e["want"]):
                first[k] = e
        ctx.sample({"case": c.meta.get("what"), "type": c.meta.get("decl"), "events": list(first.values())})
