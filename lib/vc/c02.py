"""C02 - derived formatting prints exactly what `format!` prints for the same literal.

Generated programs (L2, real proc-macro) derive one of the nine formatting traits on structs and
enums whose struct/variant carries `#[<trait>("literal", args...)]`, and define next to each type a
reference method built from the SAME literal token and the SAME argument tokens:

    fn reference(&self) -> String {
        let x = &self.x; ...                       // fields inside argument expressions: references
        format!("literal", args..., x = self.x)    // fields named inside the literal: the field itself
    }

(`match self { E::V(_0, _1) => format!(.., _0 = *_0) }` for enum variants).  Every value is formatted
once through the derived impl with the trait's flag-free placeholder and once through `reference()`,
both strings go to the event log and are compared offline, byte for byte.  Attribute-free shapes are
checked against the documented rule: a single field prints as the field under the derived trait, a
unit struct/variant prints its name (through an independent `rename_all` model).

Two side workloads: (a) a fixed set of attributes whose literal/argument list `format!` itself rejects
(`{1}` with one argument, unused argument, unknown name, non-usize width ...) must not compile
(L0, `cargo check`); (b) breadth on `rename_all` (struct/enum/variant level, override order) through
the in-process expander, reading the name literal out of the expansion.
"""
import re

from . import common, l2, inproc
from .common import rs_str, Inconclusive
from .l2 import Case

# (derive, attribute, type suffix of the flag-free placeholder)
DERIVES = [("Display", "display", ""), ("Binary", "binary", "b"), ("Octal", "octal", "o"),
           ("LowerHex", "lower_hex", "x"), ("UpperHex", "upper_hex", "X"), ("LowerExp", "lower_exp", "e"),
           ("UpperExp", "upper_exp", "E"), ("Pointer", "pointer", "p"), ("Debug", "debug", "?")]
DERIVE_W = [8, 2, 2, 2, 2, 2, 2, 3, 5]

INT = frozenset(["", "?", "x?", "X?", "o", "x", "X", "b", "e", "E"])
FLT = frozenset(["", "?", "x?", "X?", "e", "E"])
TXT = frozenset(["", "?", "x?", "X?"])
DBG = frozenset(["?", "x?", "X?"])
ALL = INT | {"p"}
KIND_TRAITS = {"int": INT, "count": INT, "flt": FLT, "txt": TXT, "dbg": DBG, "intp": INT | {"p"}, "spy": ALL}

STRS = ['""', '"a"', '"héllo"', '"line\\nbreak"', '"🦀 crab"', '"quo\\"te"', '"{}"', '"tab\\there"', '"ｗｉｄｅ"', '"e\\u{301}"']


class FT:
    """A field type: Rust spelling, formatting traits it implements, hostile values, and expression
    templates over it ({v}: method receiver, {d}: the value, {r}: a reference to it) -> result kind."""

    def __init__(self, rust, key, traits, values, exprs=(), ptr=False, count=False):
        self.rust, self.key, self.traits, self.values, self.exprs = rust, key, frozenset(traits), values, list(exprs)
        self.ptr, self.count = ptr, count


FTYPES = [
    FT("i32", "i32", INT, ["0", "1", "-1", "i32::MIN", "i32::MAX", "42", "-7", "255"],
       [("{v}.wrapping_add(1)", "int"), ("{v}.wrapping_abs()", "int"), ("{v}.count_ones()", "int"), ("{d} as i64 * 2", "int"),
        ("{v}.signum()", "int"), ("{v}.to_string()", "txt"), ("{v}.is_negative()", "txt"), ("({d}, 1u8)", "dbg"),
        ("{v}.checked_add(1)", "dbg"), ("if {d} > 0 { \"pos\" } else { \"non-pos\" }", "txt"), ("[{d}, 2, 3]", "dbg"),
        ("{d}.max(3)", "int"), ("format_args!(\"<{}>\", {r})", "txt"), ("{v}.pow(2u32.min(1)) as i64 - 1", "int")]),
    FT("u8", "u8", INT, ["0", "255", "7", "128"],
       [("{d} as u32 + 1", "int"), ("{v}.leading_zeros()", "int"), ("{v}.wrapping_mul(3)", "int"), ("{d} as char", "txt"),
        ("{d} as usize % 16", "count")]),
    FT("u64", "u64", INT, ["0", "u64::MAX", "1234567890123", "1"],
       [("{v}.wrapping_mul(3)", "int"), ("{d} % 7", "int"), ("{d} as f64", "flt"), ("({d} % 13) as usize", "count")]),
    FT("usize", "usize", INT, ["0", "1", "3", "8", "12", "20"],
       [("{d} + 1", "count"), ("{d}.min(9)", "count"), ("{d} * 2", "count"), ("{v}.to_string()", "txt")], count=True),
    FT("f64", "f64", FLT, ["0.0", "-0.0", "1.5", "-2.25", "f64::NAN", "f64::INFINITY", "f64::NEG_INFINITY", "f64::MIN_POSITIVE",
                          "1e300", "123456.789", "1e-7", "0.1 + 0.2"],
       [("{v}.abs()", "flt"), ("{v}.floor()", "flt"), ("{d} * 2.0", "flt"), ("{v}.is_nan()", "txt"), ("{v}.to_bits()", "int"),
        ("{v}.max(1.0)", "flt"), ("({d}, {d})", "dbg")]),
    FT("&'static str", "str", TXT | {"p"}, STRS,
       [("{v}.len()", "count"), ("{v}.to_uppercase()", "txt"), ("{v}.trim()", "txt"), ("{v}.chars().rev().collect::<String>()", "txt"),
        ("{v}.is_empty()", "txt"), ("{v}.chars().next()", "dbg"), ("{v}.chars().count()", "count"), ("{v}.split(',').collect::<Vec<_>>()", "dbg")],
       ptr=True),
    FT("String", "String", TXT, [s + ".to_string()" for s in STRS],
       [("{v}.len()", "count"), ("{v}.as_str()", "txt"), ("{v}.clone() + \"!\"", "txt"), ("{v}.replace(\"a\", \"<a, b>\")", "txt")]),
    FT("char", "char", TXT, ["'a'", "'é'", "'🦀'", "'\\n'", "'\\''", "'{'", "'\\u{0}'"],
       [("{v}.is_alphabetic()", "txt"), ("{v}.len_utf8()", "count"), ("{v}.to_ascii_uppercase()", "txt"), ("{d} as u32", "int")]),
    FT("bool", "bool", TXT, ["true", "false"],
       [("!{d}", "txt"), ("if {d} { \"yes\" } else { \"no\" }", "txt"), ("{d} as u8", "int"), ("match {d} { true => 1, false => 0 }", "int")]),
    FT("*const u8", "ptr", DBG | {"p"}, ["std::ptr::null()", "0x10 as *const u8", "0xdeadbeef_usize as *const u8", "usize::MAX as *const u8"],
       [("{v}.is_null()", "txt")], ptr=True),
    FT("&'static i32", "ref", INT | {"p"}, ["&7", "&-1", "&i32::MIN", "&0"],
       [("{v}.wrapping_add(1)", "int"), ("{d}", "intp")], ptr=True),
    FT("Box<i32>", "box", TXT | {"p"}, ["Box::new(5)", "Box::new(-3)", "Box::new(i32::MAX)"],
       [("{v}.wrapping_add(1)", "int")], ptr=True),
    FT("Spy", "spy", ALL, ["Spy(1)", "Spy(77)", "Spy(u32::MAX)"], [("Spy({v}.0 ^ 1)", "spy")], ptr=True),
]
FT_BY_KEY = {t.key: t for t in FTYPES}
FT_W = {"i32": 6, "u8": 2, "u64": 2, "usize": 5, "f64": 5, "str": 5, "String": 3, "char": 2, "bool": 2, "ptr": 2, "ref": 4, "box": 2, "spy": 4}

NAMED_POOL = ["x", "y", "z", "w", "n", "value", "r#type", "r#fn", "r#match", "_a", "größe", "width", "prec", "f", "r#struct", "i"]
ALIAS_POOL = ["a", "b", "k", "m", "al", "q", "arg", "_p"]
# free constants every case can name inside a literal or an argument (defined in the prelude)
PRELUDE = """
pub const KW: usize = 6;
pub const GREETING: &str = "hï";
"""
FREE_ARGS = [("\"lit\"", "txt", False), ("7", "int", False), ("1 + 1", "int", False), ("'c'", "txt", False), ("true", "txt", False),
             ("\"a,b\"", "txt", False), ("\"}\"", "txt", False), ("','", "txt", False), ("i32::MAX", "int", False), ("2.5f64", "flt", False),
             ("GREETING", "txt", False), ("KW", "count", True), ("5usize", "count", True), ("KW - 3", "count", True),
             ("(1, \"t\")", "dbg", False), ("Some(\"s\")", "dbg", False), ("usize::MAX", "int", False),
             ("format_args!(\"{}-{}\", 1, 2)", "txt", False), ("{ let t = 3; t * 2 }", "int", False), ("std::cmp::max(1, 2)", "int", False),
             ("Vec::<u8>::new()", "dbg", False)]
TEXTS = ["", "", " ", "a", "é", "🦀", "→ ", "{{", "}}", "{{}}", "\n", "\"", "\\", ":", "$", "x: ", "{{x}}", "%s", "\t", ", ", " = ", "{{0}}", "'", "#"]
WORDS = ["Foo", "Bar", "Baz", "Variant", "One", "Two", "Http", "Request", "Id", "My", "Long", "Name", "Of", "Thing", "Ab", "Xy", "Unit", "Loop", "Match", "Self"]
CASINGS = ["lowercase", "UPPERCASE", "PascalCase", "camelCase", "snake_case", "SCREAMING_SNAKE_CASE", "kebab-case", "SCREAMING-KEBAB-CASE"]


def rename(words, casing):
    """Independent model of the documented casings, for names made of plain capitalised words."""
    lo = [w.lower() for w in words]
    up = [w.upper() for w in words]
    cap = [w[0].upper() + w[1:].lower() for w in words]
    return {"lowercase": "".join(lo), "UPPERCASE": "".join(up), "PascalCase": "".join(cap),
            "camelCase": lo[0] + "".join(cap[1:]), "snake_case": "_".join(lo), "SCREAMING_SNAKE_CASE": "_".join(up),
            "kebab-case": "-".join(lo), "SCREAMING-KEBAB-CASE": "-".join(up)}[casing]


def wchoice(rng, items, weights):
    return rng.choices(items, weights=weights, k=1)[0]


def unraw(n):
    return n[2:] if n.startswith("r#") else n


# ---------------------------------------------------------------------------------------------
# fields of a struct / variant

class Field:
    def __init__(self, ident, ft, generic=None):
        self.ident = ident          # Rust identifier of the binding (`x`, `r#type`, `_0`)
        self.ft = ft
        self.generic = generic      # name of the type parameter standing for the type, or None

    @property
    def lit(self):
        return unraw(self.ident)


class Shape:
    """kind: 'unit' | 'tuple' | 'named'; fields: [Field]"""

    def __init__(self, kind, fields):
        self.kind, self.fields = kind, fields

    def member(self, i):
        return str(i) if self.kind == "tuple" else self.fields[i].ident

    def decl(self):
        if self.kind == "unit":
            return ""
        if self.kind == "tuple":
            return "(%s)" % ", ".join(f.generic or f.ft.rust for f in self.fields)
        return " { %s }" % ", ".join("%s: %s" % (f.ident, f.generic or f.ft.rust) for f in self.fields)

    def pattern(self):
        if self.kind == "unit":
            return ""
        if self.kind == "tuple":
            return "(%s)" % ", ".join(f.ident for f in self.fields)
        return " { %s }" % ", ".join(f.ident for f in self.fields)

    def make(self, vals):
        if self.kind == "unit":
            return ""
        if self.kind == "tuple":
            return "(%s)" % ", ".join(vals)
        return " { %s }" % ", ".join("%s: %s" % (f.ident, v) for f, v in zip(self.fields, vals))

    def key(self):
        return "%s%d" % (self.kind, len(self.fields))


def gen_shape(rng, gen_state, kind=None, nmin=0, nmax=4, want=None, allow_generic=True):
    """Random shape.  `want`: type suffix that field 0 must implement (implicit single-field case)."""
    kind = kind or wchoice(rng, ["unit", "tuple", "named"], [1, 5, 5])
    if kind == "unit":
        return Shape("unit", [])
    n = rng.randint(max(1, nmin), nmax)
    names = rng.sample(NAMED_POOL, n)
    fields = []
    for i in range(n):
        cands = [t for t in FTYPES if want is None or want in t.traits]
        ft = wchoice(rng, cands, [FT_W[t.key] for t in cands])
        gen = None
        if allow_generic and not ft.count and rng.random() < 0.18:
            gen = "T%d" % len(gen_state)
            gen_state.append(ft)
        fields.append(Field("_%d" % i if kind == "tuple" else names[i], ft, gen))
    return Shape(kind, fields)


# ---------------------------------------------------------------------------------------------
# attribute generator: literal + argument list over a shape

class Arg:
    def __init__(self, text, traits, count=False, alias=None, bare=None):
        self.text, self.traits, self.count, self.alias, self.bare = text, frozenset(traits), count, alias, bare
        self.used = False


class Ph:
    """One placeholder of a literal."""

    def __init__(self):
        self.arg = ""        # "", "3", "name"
        self.target = None   # ("pos", i) | ("alias", name) | ("field", idx) | ("const", name)
        self.fill = self.sign = self.alt = self.zero = self.width = self.prec = self.ty = self.ws = ""
        self.colon = False

    def spec(self):
        return self.fill + self.sign + self.alt + self.zero + self.width + self.prec + self.ty

    def text(self):
        s = self.spec()
        if s or self.colon:
            return "{%s:%s%s}" % (self.arg, s, self.ws)
        return "{%s%s}" % (self.arg, self.ws)

    def has_modifiers(self):
        return bool(self.fill or self.sign or self.alt or self.zero or self.width or self.prec or self.ty in ("x?", "X?"))


class Attr:
    """A generated `#[trait("lit", args...)]` with everything the reference and the classifiers need."""

    def __init__(self):
        self.pieces = []       # ("t", text) | ("p", Ph)
        self.pos = []          # positional Args
        self.named = []        # aliased Args
        self.captured = []     # field indices named inside the literal (not shadowed by an alias)
        self.helper = False
        self.tokform = 0

    def value(self):
        return "".join(p[1] if p[0] == "t" else p[1].text() for p in self.pieces)

    def phs(self):
        return [p[1] for p in self.pieces if p[0] == "p"]

    def lit_token(self):
        v = self.value()
        if self.tokform == 1 and '"#' not in v and "\r" not in v:
            return 'r#"%s"#' % v
        if self.tokform == 2:
            return rs_str(v).replace("é", "\\u{e9}").replace("🦀", "\\u{1F980}")
        return rs_str(v)

    def args_text(self):
        return [a.text for a in self.pos] + ["%s = %s" % (a.alias, a.text) for a in self.named]

    def attr_inner(self):
        return ", ".join([self.lit_token()] + self.args_text())

    def shape_abs(self):
        out = []
        for k, p in self.pieces:
            if k == "t":
                if p in ("{{", "}}"):
                    out.append(p)
                elif p and (not out or out[-1] != "t"):
                    out.append("t")
            else:
                a = "" if p.arg == "" else ("N" if p.arg.isdigit() else "I")
                sp = re.sub(r"\d+", "N", re.sub(r"[^\W\d]\w*\$", "I$", p.spec(), flags=re.U))
                out.append("{%s:%s%s}" % (a, sp, "_" if p.ws else ""))
        return "".join(out)

    def trivial(self):
        return all(k == "t" and not p or k == "p" and p.text() == "{}" for k, p in self.pieces)


def field_exprs(rng, shape, allow_self, concrete_only=True):
    """All argument expressions available over the fields: (text, traits, count, bare field idx)."""
    out = []
    for i, f in enumerate(shape.fields):
        ft = f.ft
        # the bare binding: a reference to the field; formats as the field; its address is the field's
        if f.generic:
            out.append((f.ident, ft.traits, False, i))
            continue
        out.append((f.ident, ft.traits | {"p"}, ft.count, i))
        forms = [(f.ident, "(*%s)" % f.ident, f.ident)]
        if allow_self:
            path = "self.%s" % shape.member(i)
            forms.append((path, path, "&" + path))
            out.append((path, ft.traits, ft.count, None))
            out.append(("&" + path, ft.traits | {"p"}, False, None))
        for tmpl, kind in ft.exprs:
            v, d, r = rng.choice(forms)
            text = tmpl.replace("{v}", v).replace("{d}", d).replace("{r}", r)
            if kind == "intp" and d.startswith("(*"):
                text = "*" + f.ident          # the documented `*field` spelling
            out.append((text, KIND_TRAITS[kind], kind == "count", None))
    # two-field arithmetic
    ints = [f for f in shape.fields if f.ft.key == "i32" and not f.generic]
    if len(ints) >= 2:
        out.append(("%s.wrapping_add(*%s)" % (ints[0].ident, ints[1].ident), INT, False, None))
        out.append(("(%s, %s)" % (ints[0].ident, ints[1].ident), DBG, False, None))
    return out


def gen_attr(rng, shape, allow_self, helper_ok, derive_suffix):
    at = Attr()
    at.tokform = wchoice(rng, [0, 1, 2], [8, 1, 1])
    exprs = field_exprs(rng, shape, allow_self)
    bare = [e for e in exprs if e[3] is not None]
    aliases = set()
    field_names = {f.lit: i for i, f in enumerate(shape.fields)}
    nxt = 0  # std's implicit positional counter

    def new_arg(want_count=False, want=None):
        r = rng.random()
        pool = None
        if want_count:
            pool = [e for e in exprs if e[2]] + [(t, KIND_TRAITS[k], True, None) for t, k, c in FREE_ARGS if c]
        elif bare and r < 0.45:
            pool = bare
        elif exprs and r < 0.85:
            pool = exprs
        elif helper_ok and r < 0.9:
            at.helper = True
            return Arg("self.helper()", TXT)
        else:
            pool = [(t, KIND_TRAITS[k], c, None) for t, k, c in FREE_ARGS]
        if want is not None:
            p2 = [e for e in pool if want in e[1]]
            pool = p2 or pool
        t, traits, count, b = rng.choice(pool)
        return Arg(t, traits, count, bare=b)

    def pos_at(i, want_count=False):
        """positional argument i, created (with everything before it) on demand"""
        while len(at.pos) <= i:
            at.pos.append(new_arg(want_count and len(at.pos) == i))
        return at.pos[i]

    def new_alias(want_count=False):
        free = [a for a in ALIAS_POOL if a not in aliases and a not in field_names]
        shadow = [n for n in field_names if n not in aliases and re.match(r"^[a-z]\w*$", n) and n not in KEYWORDS
                  and field_names[n] not in at.captured]
        if shadow and rng.random() < 0.08:
            name = rng.choice(shadow)
        elif free:
            name = rng.choice(free)
        else:
            return None
        a = new_arg(want_count)
        a.alias = name
        aliases.add(name)
        at.named.append(a)
        return a

    def count_ref():
        """a `N$` / `name$` reference to a usize argument; '' if none can be made"""
        r = rng.random()
        if r < 0.35 and len(at.pos) + len(at.named) < 5:
            # an index: existing count-capable positional argument or a new one at the end
            cands = [i for i, a in enumerate(at.pos) if a.count]
            if cands and rng.random() < 0.5:
                i = rng.choice(cands)
            else:
                i = len(at.pos)
                pos_at(i, want_count=True)
            if at.pos[i].count:
                at.pos[i].used = True
                return "%d$" % i
            return ""
        if r < 0.6:
            cands = [a for a in at.named if a.count]
            a = rng.choice(cands) if cands and rng.random() < 0.5 else (new_alias(True) if len(at.pos) + len(at.named) < 5 else None)
            if a is not None and a.count:
                a.used = True
                return a.alias + "$"
            return ""
        if r < 0.9:
            cands = [i for i, f in enumerate(shape.fields) if f.ft.count and not f.generic and f.lit not in aliases]
            if cands:
                i = rng.choice(cands)
                capture(i)
                return shape.fields[i].lit + "$"
            return ""
        if "KW" not in aliases and "KW" not in field_names:
            return "KW$"
        return ""

    def capture(i):
        if i not in at.captured:
            at.captured.append(i)

    nph = wchoice(rng, [0, 1, 2, 3, 4, 5, 6], [1, 9, 8, 6, 4, 2, 1])
    if shape.kind == "unit" and nph > 2:
        nph = 2
    # "single": the whole literal is one placeholder with at most one modifier - the border of the
    # documented transparent delegation (`{_0:o}` delegates, `{_0:^o}` does not)
    single = rng.random() < 0.22
    if single:
        nph = 1
    for _ in range(nph):
        at.pieces.append(("t", rng.choice(TEXTS) if rng.random() < 0.75 and not single else ""))
        ph = Ph()
        ph.colon = False
        # ---- what the placeholder prints
        r = rng.random()
        tgt_traits = None
        star = False
        nargs = len(at.pos) + len(at.named)
        if r < 0.36 and shape.fields:
            i = rng.randrange(len(shape.fields))
            f = shape.fields[i]
            if f.lit in aliases:
                a = [a for a in at.named if a.alias == f.lit][0]
                a.used = True
                tgt_traits = a.traits
                ph.target = ("alias", f.lit)
            else:
                capture(i)
                # named inside the literal: the field itself (its own Pointer impl, if any)
                tgt_traits = f.ft.traits
                ph.target = ("field", i)
            ph.arg = f.lit
        elif r < 0.62 and (nxt < len(at.pos) or nargs < 5):
            # implicit "next argument", possibly with `.*`
            if rng.random() < 0.12 and (nxt + 1 < len(at.pos) and at.pos[nxt].count or nxt >= len(at.pos) and nargs < 4):
                a = pos_at(nxt, want_count=True)
                if a.count:
                    a.used = True
                    nxt += 1
                    star = True
            a = pos_at(nxt)
            a.used = True
            ph.target = ("pos", nxt)
            tgt_traits = a.traits
            nxt += 1
        elif r < 0.8 and (at.pos or nargs < 5):
            i = rng.randrange(0, min(len(at.pos) + (2 if nargs < 4 else 1 if nargs < 5 else 0), 5)) if nargs < 5 else rng.randrange(len(at.pos))
            if single and rng.random() < 0.85:
                i = 0
            a = pos_at(i)
            a.used = True
            ph.arg = str(i)
            ph.target = ("pos", i)
            tgt_traits = a.traits
        elif r < 0.95:
            cands = at.named
            a = rng.choice(cands) if cands and (rng.random() < 0.4 or nargs >= 5) else (new_alias() if nargs < 5 else None)
            if a is None:
                continue
            a.used = True
            ph.arg = a.alias
            ph.target = ("alias", a.alias)
            tgt_traits = a.traits
        else:
            name, kind = rng.choice([("KW", "int"), ("GREETING", "txt")])
            if name in aliases or name in field_names:
                continue
            ph.arg = name
            ph.target = ("const", name)
            tgt_traits = KIND_TRAITS[kind]
        if not star and ph.target[0] != "pos" and rng.random() < 0.06 and (nxt < len(at.pos) and at.pos[nxt].count or nxt >= len(at.pos) and nargs < 5):
            # `{name:.*}`: the precision is still taken from "the next argument"
            a = pos_at(nxt, want_count=True)
            if a.count:
                a.used = True
                nxt += 1
                star = True
        # ---- how
        tys = sorted(tgt_traits)
        w = [8 if t == "" else 5 if t == "p" else 3 if t == "?" else 1 for t in tys]
        if derive_suffix in tgt_traits and rng.random() < 0.3:
            ph.ty = derive_suffix
        else:
            ph.ty = wchoice(rng, tys, w)
        if ph.ty == "?" and derive_suffix == "?" and rng.random() < 0.3 and "" in tgt_traits:
            ph.ty = ""
        if star:
            ph.prec = ".*"
        if single:
            m = rng.choice(["", "", "", "", "", "fill", "sign", "alt", "zero", "width", "widthc", "prec", "precc"])
            if m == "fill":
                ph.fill = rng.choice(["<", "^", ">", "*<", "é^"])
            elif m == "sign":
                ph.sign = rng.choice("+-")
            elif m == "alt":
                ph.alt = "#"
            elif m == "zero":
                ph.zero = "0"
            elif m == "width":
                ph.width = str(rng.choice([1, 3, 8, 12]))
            elif m == "widthc":
                ph.width = count_ref()
            elif m == "prec" and not star:
                ph.prec = "." + str(rng.choice([0, 1, 3]))
            elif m == "precc" and not star:
                c = count_ref()
                ph.prec = "." + c if c else ""
        elif rng.random() < 0.45:
            if rng.random() < 0.35:
                ph.fill = rng.choice(["<", "^", ">", "*<", "é^", "0>", "#>", " <", "🦀^", ">>", "->", "+^", ".<", "x>", "1^", "$>", ":<"])
            if rng.random() < 0.2:
                ph.sign = rng.choice("+-")
            if rng.random() < 0.2:
                ph.alt = "#"
            if rng.random() < 0.2:
                ph.zero = "0"
            rw = rng.random()
            if rw < 0.3:
                ph.width = str(rng.choice([1, 2, 3, 5, 8, 10, 12, 17]))
            elif rw < 0.55:
                ph.width = count_ref()
            if not star:
                rp = rng.random()
                if rp < 0.2:
                    ph.prec = "." + str(rng.choice([0, 1, 2, 3, 5, 8]))
                elif rp < 0.4:
                    c = count_ref()
                    ph.prec = "." + c if c else ""
        if rng.random() < 0.08:
            ph.ws = rng.choice([" ", " ", "  ", "\t"])
        ph.colon = bool(ph.spec()) or rng.random() < 0.05
        at.pieces.append(("p", ph))
    at.pieces.append(("t", rng.choice(TEXTS) if rng.random() < 0.6 and not single else ""))
    if nph == 0 and not at.value():
        at.pieces.append(("t", rng.choice(["text", "é", "unit!", "{{}}"])))
    # an alias carrying the name of a field shadows the field: `{x:p}` then is the alias, not a re-bound field
    if shape.fields and not single and rng.random() < 0.06 and len(at.pos) + len(at.named) < 5:
        cands = [f for i, f in enumerate(shape.fields) if f.lit not in aliases and i not in at.captured
                 and re.match(r"^[a-z_]\w*$", f.lit) and f.lit not in KEYWORDS]
        bares = [e for e in bare if "p" in e[1]]
        if cands and bares:
            f = rng.choice(cands)
            t, traits, count, b = rng.choice(bares)
            a = Arg(t, traits, count, alias=f.lit, bare=b)
            a.used = True
            aliases.add(f.lit)
            at.named.append(a)
            ph = Ph()
            ph.arg, ph.target, ph.ty, ph.colon = f.lit, ("alias", f.lit), "p", True
            at.pieces.append(("p", ph))
            at.pieces.append(("t", rng.choice(["", " ", "/"])))
    # every argument passed must be used (format_args! rejects the literal otherwise)
    for i, a in enumerate(at.pos):
        if not a.used:
            ph = Ph()
            ph.colon = False
            if i == nxt:
                nxt += 1
            else:
                ph.arg = str(i)
            ph.target = ("pos", i)
            tys = sorted(a.traits)
            ph.ty = wchoice(rng, tys, [8 if t == "" else 2 for t in tys])
            ph.colon = bool(ph.ty)
            a.used = True
            at.pieces.append(("p", ph))
            at.pieces.append(("t", rng.choice(["", " ", "|"])))
    return at


KEYWORDS = set("as break const continue crate else enum extern false fn for if impl in let loop match mod move mut pub ref return self Self static struct super trait true type unsafe use where while async await dyn abstract become box do final macro override priv typeof unsized virtual yield try gen".split())


def is_transparent_pointer_arg(at, shape):
    """Coverage tag (defect fixed in /repo 04c7624): the whole literal is a single modifier-free `{..:p}`
    placeholder whose argument is the only argument of the attribute and is a bare field binding
    (positional `{}`/`{0}` or the matching alias).  display.md: such an argument is a REFERENCE to the
    field, so `{:p}` prints the field's own address; the transparent-delegation shortcut used to call
    `Pointer::fmt(field)` on the field itself."""
    if len(at.pieces) < 1:
        return False
    phs = at.phs()
    if len(phs) != 1 or at.value() != phs[0].text():
        return False
    p = phs[0]
    if p.ty != "p" or p.has_modifiers():
        return False
    args = at.pos + at.named
    if len(args) != 1 or args[0].bare is None:
        return False
    a = args[0]
    if p.target == ("pos", 0) and a.alias is None:
        return True
    if p.target[0] == "alias" and a.alias == p.arg:
        return True
    return False


def raw_ident_generic_args(at, shape):
    """Coverage tag (defect fixed in /repo 3a17d97): type parameters whose field is passed as a bare
    raw-identifier argument (`r#type`, positional or aliased); fmt/mod.rs `bounded_types` used to compare
    the argument's `to_string()` ("r#type") with the field's unraw()ed name ("type") and inferred no bound."""
    out = set()
    for a in at.pos + at.named:
        if a.bare is not None:
            f = shape.fields[a.bare]
            if f.generic and f.ident.startswith("r#") and f.ident == a.text:
                out.add(f.generic)
    return sorted(out)


# ---------------------------------------------------------------------------------------------
# reference code

def reference_format(at, shape, in_match):
    """`format!(<same literal token>, <same argument tokens>, captured fields bound to the field itself)`"""
    extra = []
    for i in at.captured:
        f = shape.fields[i]
        extra.append("%s = %s" % (f.ident, ("*" + f.ident) if in_match else "self.%s" % shape.member(i)))
    return "format!(%s)" % ", ".join([at.lit_token()] + at.args_text() + extra)


def pick_values(rng, shape):
    return [rng.choice(f.ft.values) for f in shape.fields]


def generics_decl(gen_state):
    if not gen_state:
        return "", ""
    return "<%s>" % ", ".join("T%d" % i for i in range(len(gen_state))), "<%s>" % ", ".join(t.rust for t in gen_state)


def struct_case(cid, rng, nvals):
    d, attr, suf = wchoice(rng, DERIVES, DERIVE_W)
    gen_state = []
    r = rng.random()
    name = "S"
    meta = {"derive": d}
    placeholder = "{:%s}" % suf if suf else "{}"
    if r < 0.82:
        # ---- struct with an attribute of its own
        shape = gen_shape(rng, gen_state)
        helper_ok = not gen_state
        at = gen_attr(rng, shape, allow_self=True, helper_ok=helper_ok, derive_suffix=suf)
        if rng.random() < 0.1:
            name = rng.choice(["r#Loop", "Größe", "S_1"])
        g_decl, g_inst = generics_decl(gen_state)
        decl = "struct %s%s%s%s" % (name, g_decl, shape.decl(), "" if shape.kind == "named" else ";")
        items = ["#[derive(derive_more::%s)]" % d, "#[%s(%s)]" % (attr, at.attr_inner()), "pub " + decl]
        locals_ = " ".join("let %s = &self.%s;" % (f.ident, shape.member(i)) for i, f in enumerate(shape.fields))
        impl = ["impl %s%s {" % (name, g_inst)]
        if at.helper:
            impl.append("    fn helper(&self) -> String { format!(\"<h%d>\") }" % len(shape.fields))
        impl.append("    fn reference(&self) -> String { %s %s }" % (locals_, reference_format(at, shape, False)))
        impl.append("}")
        items += impl
        kind = "attr"
        cls = (d, "struct", shape.key(), at.shape_abs())
        meta.update(kind=kind, literal=at.value(), attribute="#[%s(%s)]" % (attr, at.attr_inner()), type=decl,
                    reference=reference_format(at, shape, False))
        trivial = at.trivial()
        known = is_transparent_pointer_arg(at, shape)
        meta["raw_generic_args"] = raw_ident_generic_args(at, shape)
    elif r < 0.93:
        # ---- attribute-free single field: prints as the field does under the derived trait
        if d == "Debug":
            d, attr, suf = DERIVES[0]
            placeholder = "{}"
            meta["derive"] = d
        shape = gen_shape(rng, gen_state, kind=rng.choice(["tuple", "named"]), nmin=1, nmax=1, want=suf)
        g_decl, g_inst = generics_decl(gen_state)
        decl = "struct %s%s%s%s" % (name, g_decl, shape.decl(), "" if shape.kind == "named" else ";")
        items = ["#[derive(derive_more::%s)]" % d, "pub " + decl,
                 "impl %s%s { fn reference(&self) -> String { format!(\"%s\", self.%s) } }" % (name, g_inst, placeholder, shape.member(0))]
        cls = (d, "struct", shape.key(), "implicit:" + shape.fields[0].ft.key)
        meta.update(kind="implicit", type=decl, reference="format!(\"%s\", self.%s)" % (placeholder, shape.member(0)))
        trivial, known = False, False
    else:
        # ---- unit struct (three spellings): prints its name, converted by rename_all (Display)
        d, attr, suf = DERIVES[0]
        placeholder = "{}"
        meta["derive"] = d
        words = rng.sample(WORDS, rng.randint(1, 4))
        name = "".join(words)
        raw = name not in ("Self",) and rng.random() < 0.15
        casing = rng.choice(CASINGS) if rng.random() < 0.7 else None
        want = rename(words, casing) if casing else name
        form = rng.choice([";", " {}", "();"])
        decl = "struct %s%s%s" % ("r#" if raw else "", name, form)
        items = ["#[derive(derive_more::Display)]"] + (["#[display(rename_all = \"%s\")]" % casing] if casing else []) + ["pub " + decl]
        if name == "Self":
            return None
        body = "{ let v = %s%s%s; cmp(\"v0\", &format!(\"{}\", v), %s); }" % ("r#" if raw else "", name, form.rstrip(";"), rs_str(want))
        return Case(cid, (d, "struct", "unit", "name:" + str(casing)), "\n".join(items), body, expect=1,
                    meta={"derive": d, "kind": "unit", "type": decl, "rename_all": casing, "what": "unit struct %s rename_all=%s" % (name, casing), "expected": want})
    # values
    body = []
    tyname = name + g_inst.replace("<", "::<", 1) if g_inst else name
    seen = set()
    nv = nvals if shape.fields else 1
    for k in range(nv):
        vals = pick_values(rng, shape)
        if tuple(vals) in seen:
            continue
        seen.add(tuple(vals))
        body.append("{ let v = %s%s; cmp(\"v%d\", &format!(\"%s\", v), &v.reference()); }" % (tyname, shape.make(vals), k, placeholder))
    meta["what"] = "%s on %s%s" % (d, decl, (" with " + meta["attribute"]) if "attribute" in meta else "")
    meta["transparent_pointer_arg"] = known
    meta["values"] = body[:]
    return Case(cid, cls, "\n".join(items), "\n".join(body), expect=len(body), meta=meta, trivial=trivial)


def enum_case(cid, rng, nvals):
    d, attr, suf = wchoice(rng, DERIVES, DERIVE_W)
    placeholder = "{:%s}" % suf if suf else "{}"
    gen_state = []
    nvar = rng.randint(1, 4)
    enum_casing = rng.choice(CASINGS) if d == "Display" and rng.random() < 0.3 else None
    variants = []
    used_names = set()
    kinds = []
    for vi in range(nvar):
        words = rng.sample(WORDS, rng.randint(1, 3))
        vname = "".join(words)
        if vname in used_names or vname == "Self":
            vname = "V%d%s" % (vi, "")
            words = None
        used_names.add(vname)
        r = rng.random()
        v = {"name": vname, "raw": words is not None and rng.random() < 0.1, "attrs": []}
        if r < 0.6:
            shape = gen_shape(rng, gen_state)
            at = gen_attr(rng, shape, allow_self=False, helper_ok=False, derive_suffix=suf)
            v.update(shape=shape, kind="attr", at=at, ref=reference_format(at, shape, True))
            v["attrs"].append("#[%s(%s)]" % (attr, at.attr_inner()))
            if d == "Display" and rng.random() < 0.1:
                v["attrs"].append("#[display(rename_all = \"%s\")]" % rng.choice(CASINGS))  # irrelevant next to a format
            v["cls"] = at.shape_abs()
            v["trivial"] = at.trivial()
            v["transparent_pointer_arg"] = is_transparent_pointer_arg(at, shape)
            v["raw_generic_args"] = raw_ident_generic_args(at, shape)
        elif r < 0.8 and d != "Debug":
            shape = gen_shape(rng, gen_state, kind=rng.choice(["tuple", "named"]), nmin=1, nmax=1, want=suf)
            v.update(shape=shape, kind="implicit", ref="format!(\"%s\", *%s)" % (placeholder, shape.fields[0].ident))
            v["cls"] = "implicit:" + shape.fields[0].ft.key
            v["trivial"] = False
            v["transparent_pointer_arg"] = False
        elif d == "Display" and words is not None:
            # unit variant (three spellings) without a format: its name, variant-level rename_all wins
            form = rng.choice(["unit", "unit", "tuple", "named"])
            shape = Shape(form, [])
            casing = enum_casing
            if rng.random() < 0.35:
                casing = rng.choice(CASINGS)
                v["attrs"].append("#[display(rename_all = \"%s\")]" % casing)
            want = rename(words, casing) if casing else vname
            v.update(shape=shape, kind="unit", ref="%s.to_string()" % rs_str(want), casing=casing, want=want)
            v["cls"] = "name:%s:%s" % (form, casing)
            v["trivial"] = False
            v["transparent_pointer_arg"] = False
        elif d == "Debug" and r < 0.9:
            # derive(Debug): a unit variant without an attribute next to attributed ones prints its name (as std's derive does)
            shape = Shape("unit", [])
            v.update(shape=shape, kind="unit", ref="%s.to_string()" % rs_str(vname), casing=None, want=vname)
            v["cls"] = "name:debug-unit-next-to-attributed"
            v["trivial"] = False
            v["transparent_pointer_arg"] = False
        else:
            shape = Shape("unit", [])
            at = gen_attr(rng, shape, allow_self=False, helper_ok=False, derive_suffix=suf)
            v.update(shape=shape, kind="attr", at=at, ref=reference_format(at, shape, True))
            v["attrs"].append("#[%s(%s)]" % (attr, at.attr_inner()))
            v["cls"] = at.shape_abs()
            v["trivial"] = at.trivial()
            v["transparent_pointer_arg"] = False
        variants.append(v)
    g_decl, g_inst = generics_decl(gen_state)
    lines = ["#[derive(derive_more::%s)]" % d]
    if enum_casing:
        # (a second #[display(..)] attribute before or after must not make the first one forgotten)
        other = "#[display(bound(u8: ::core::marker::Copy))]"
        r2 = rng.random()
        if r2 < 0.25:
            lines.append(other)
        lines.append("#[display(rename_all = \"%s\")]" % enum_casing)
        if 0.25 <= r2 < 0.5:
            lines.append(other)
    lines.append("pub enum E%s {" % g_decl)
    for v in variants:
        for a in v["attrs"]:
            lines.append("    " + a)
        sh = v["shape"]
        vd = sh.decl() if sh.kind != "unit" else ""
        if sh.kind in ("tuple", "named") and not sh.fields:
            vd = "()" if sh.kind == "tuple" else " {}"
        v["ident"] = ("r#" if v["raw"] else "") + v["name"]
        lines.append("    %s%s," % (v["ident"], vd))
    lines.append("}")
    arms = []
    for v in variants:
        sh = v["shape"]
        pat = sh.pattern()
        if sh.kind in ("tuple", "named") and not sh.fields:
            pat = "()" if sh.kind == "tuple" else " {}"
        arms.append("            E::%s%s => %s," % (v["ident"], pat, v["ref"]))
    lines.append("impl E%s {\n    fn reference(&self) -> String {\n        match self {\n%s\n        }\n    }\n}" % (g_inst, "\n".join(arms)))
    body = []
    ename = "E" + (g_inst.replace("<", "::<", 1) if g_inst else "")
    evk = {}
    k = 0
    for vi, v in enumerate(variants):
        sh = v["shape"]
        seen = set()
        for _ in range(nvals if sh.fields else 1):
            vals = pick_values(rng, sh)
            if tuple(vals) in seen:
                continue
            seen.add(tuple(vals))
            mk = sh.make(vals)
            if sh.kind in ("tuple", "named") and not sh.fields:
                mk = "()" if sh.kind == "tuple" else " {}"
            body.append("{ let v = %s::%s%s; cmp(\"v%d\", &format!(\"%s\", v), &v.reference()); }" % (ename, v["ident"], mk, k, placeholder))
            evk["v%d" % k] = vi
            k += 1
    cls = (d, "enum", tuple(sorted(set((v["kind"], v["shape"].key(), v["cls"]) for v in variants if not v["trivial"]))))
    meta = {"derive": d, "kind": "enum", "type": "\n".join(lines[:lines.index("}") + 1]) if "}" in lines else "", "what": "%s on enum (%s)" % (d, ", ".join("%s:%s" % (v["name"], v["kind"]) for v in variants)),
            "variants": [{"name": v["name"], "kind": v["kind"], "attrs": v["attrs"], "reference": v["ref"], "transparent_pointer_arg": v["transparent_pointer_arg"], "raw_generic_args": v.get("raw_generic_args", []), "cls": v["cls"]} for v in variants],
            "event_variant": evk, "enum_rename_all": enum_casing}
    return Case(cid, cls, "\n".join(lines), "\n".join(body), expect=len(body), meta=meta, trivial=all(v["trivial"] for v in variants))


# ---------------------------------------------------------------------------------------------
# literals/argument lists `format!` itself rejects: the derive must not compile either

def must_fail_cases():
    raw = [
        ("idx_oob1", "Display", "#[display(\"{1}\", _0)] pub struct S(i32);"),
        ("idx_oob2", "Display", "#[display(\"{2} {}\", x, y)] pub struct S { x: i32, y: i32 }"),
        ("implicit_oob", "Display", "#[display(\"{} {}\", _0)] pub struct S(i32);"),
        ("star_oob", "Display", "#[display(\"{:.*}\", _0)] pub struct S(usize);"),
        ("unused_pos", "Display", "#[display(\"{}\", _0, _1)] pub struct S(i32, i32);"),
        ("unused_named", "Display", "#[display(\"{}\", _0, a = _1)] pub struct S(i32, i32);"),
        ("unknown_name", "Display", "#[display(\"{nope}\")] pub struct S { x: i32 }"),
        ("alias_mismatch", "Display", "#[display(\"{nope}\", a = x)] pub struct S { x: i32 }"),
        ("width_not_usize", "Display", "#[display(\"{:1$}\", _0, _1)] pub struct S(i32, i32);"),
        ("idx_oob_variant", "Display", "pub enum S { #[display(\"{1}\", _0)] A(i32) }"),
        ("idx_oob_debug", "Debug", "#[debug(\"{1}\", _0)] pub struct S(i32);"),
        ("idx_oob_hex", "LowerHex", "#[lower_hex(\"{1:x}\", _0)] pub struct S(i32);"),
        ("wrong_trait", "Display", "#[display(\"{_0:x}\")] pub struct S(&'static str);"),
        ("named_before_pos", "Display", "#[display(\"{} {a}\", a = _0, _1)] pub struct S(i32, i32);"),
    ]
    out = []
    for n, d, item in raw:
        out.append(Case("mf_" + n, ("must_fail", n), "#[derive(derive_more::%s)]\n%s" % (d, item), "", expect=0, must_fail=True,
                        meta={"what": "format! rejects this, the derive must too: " + item}))
    return out


# ---------------------------------------------------------------------------------------------
# breadth on rename_all through the in-process expander (no rustc): the name literal in the expansion

def rename_breadth(ctx, n):
    rng = ctx.rng
    jobs, plan = [], {}
    for i in range(n):
        words = rng.sample(WORDS, rng.randint(1, 5))
        if "".join(words) == "Self":
            continue
        casing = rng.choice(CASINGS)
        where = rng.choice(["struct", "enum", "variant", "both"])
        name = "".join(words)
        # identifiers written with underscores: the underscore is a word boundary under every convention
        # (words consistently lower / UPPER / Capitalised, so no convention sees further boundaries)
        sp = rng.random()
        if len(words) >= 2 and sp < 0.3:
            style = rng.choice(("lower", "upper", "cap"))
            ws = [w.lower() if style == "lower" else w.upper() if style == "upper" else w[0].upper() + w[1:].lower() for w in words]
            name = "_".join(ws)
            if name in ("self", "Self", "super", "crate"):
                continue
        if where == "struct":
            item = "#[display(rename_all = \"%s\")] struct %s;" % (casing, name)
        elif where == "enum":
            item = "#[display(rename_all = \"%s\")] enum E { %s, #[display(\"x\")] Other }" % (casing, name)
        elif where == "variant":
            item = "enum E { #[display(rename_all = \"%s\")] %s, #[display(\"x\")] Other }" % (casing, name)
        else:
            other = rng.choice([c for c in CASINGS if c != casing])
            item = "#[display(rename_all = \"%s\")] enum E { #[display(rename_all = \"%s\")] %s, #[display(\"x\")] Other }" % (other, casing, name)
        cid = "rn%d" % i
        jobs.append((cid, "Display", item))
        plan[cid] = (item, rename(words, casing), where, casing)
    res = inproc.expand_many(jobs)
    for cid, (item, want, where, casing) in plan.items():
        o = res.get(cid)
        if o is None or o.get("kind") not in ("ok", "err", "panic"):
            raise Inconclusive("in-process expansion did not answer for %s: %r" % (item, o))
        ctx.count()
        ctx.cls(("rename_all", where, casing))
        ctx.bump("rename_all_expansions")
        if o["kind"] != "ok":
            ctx.violate("rename_all:rejected:%s" % casing, "documented rename_all input rejected: %s: %s" % (item, o.get("msg")), item=item, outcome=o)
            continue
        m = [x for x in re.findall(r'"([^"]*)"', o["tokens"]) if x != "x"]
        if len(m) > 1 and want in m:
            ctx.bump("rename_all_extra_literals")
        if want not in m:
            ctx.violate("rename_all:%s:%s" % (where, casing), "%s: name literal(s) %r in the expansion, documented casing gives %r" % (item, m, want),
                        item=item, expected=want, found=m)


# ---------------------------------------------------------------------------------------------
# offline oracle

def check(ctx, cases, res):
    for c in cases:
        m = c.meta
        ctx.count()
        if not c.trivial:
            ctx.cls(c.cls)
        variants = m.get("variants")
        if m.get("transparent_pointer_arg") or variants and any(v["transparent_pointer_arg"] for v in variants):
            ctx.bump("cases_transparent_pointer_arg")
        if m.get("raw_generic_args") or variants and any(v.get("raw_generic_args") for v in variants):
            ctx.bump("cases_raw_ident_generic_arg")
        if c.id in res.compile_errors:
            ctx.bump("cases_compile_error")
            txt = l2.err_text(res.compile_errors[c.id])
            key = "compile:%s:%s" % (m["derive"], m.get("kind"))
            ctx.violate(key, "supported input does not compile (%s): %s" % (m.get("what", c.id), txt[:700]), case=m, items=c.items, errors=txt)
            continue
        if c.id in res.not_run:
            ctx.bump("cases_not_run")
            continue
        evs = res.events.get(c.id, [])
        ncmp = 0
        for e in evs:
            k = e.get("kind")
            if "got" in e and "want" in e:
                ncmp += 1
                ctx.bump("events_compared")
                if e["got"] == e["want"]:
                    continue
                if variants:
                    v = variants[m["event_variant"].get(k, 0)]
                    key = "mismatch:%s:variant:%s" % (m["derive"], v["kind"])
                    what = "%s variant %s %s" % (m["derive"], v["name"], " ".join(v["attrs"]))
                else:
                    key = "mismatch:%s:struct:%s" % (m["derive"], m.get("kind"))
                    what = m.get("what", c.id)
                ctx.violate(key, "%s [%s]: derived impl printed %r, reference %r" % (what, k, e["got"][:300], e["want"][:300]),
                            case=m, items=c.items, body=c.body, event=e)
            elif k in ("panic", "crash"):
                ctx.violate("panic:%s:%s" % (m["derive"], m.get("kind")), "%s: generated program %s: %s" % (m.get("what", c.id), k, e.get("val", "")[:300]),
                            case=m, items=c.items, body=c.body, event=e)
        if ncmp < c.expect and not any(e.get("kind") in ("panic", "crash") for e in evs):
            ctx.bump("cases_short_of_events")
    if ctx.extra.get("cases_not_run", 0) or ctx.extra.get("cases_short_of_events", 0):
        raise Inconclusive("some cases did not run to completion: not_run=%s short=%s" % (
            ctx.extra.get("cases_not_run", 0), ctx.extra.get("cases_short_of_events", 0)))


def run(ctx):
    rng = ctx.rng
    cases = []
    n_struct = ctx.pick(4000, 36000)
    n_enum = ctx.pick(2000, 18000)
    nvals = ctx.pick(3, 4)
    for i in range(n_struct):
        c = struct_case("s%d" % i, rng, nvals)
        if c is not None:
            cases.append(c)
    for i in range(n_enum):
        cases.append(enum_case("e%d" % i, rng, nvals))
    ctx.rule = ("each case is one struct or enum deriving one of the 9 formatting traits; structs/variants carry `#[trait(\"literal\", args...)]` drawn from a grammar "
                "(implicit/indexed/named placeholders, implicit after explicit, `N$`/`name$`/`.*` width and precision, fill/align/sign/#/0, all 11 type suffixes, "
                "`{{`/`}}`, Unicode text, whitespace before `}`, raw/escaped literal tokens) over 0-4 fields of 13 types (some behind type parameters), with arguments "
                "that are bare fields, aliases, `self.field`, method calls, arithmetic, blocks, constants; attribute-free single-field and unit shapes (rename_all) are mixed in; "
                "3-4 hostile values per type/variant.  distinct = distinct (derive, struct|enum, field layout, literal shape with identifiers/numbers/text abstracted); "
                "trivial = literals made only of `{}`")
    ctx.assumptions += [
        "std's format! evaluated in the same process on the same value is the reference; the literal and argument tokens are textually identical in the attribute and in the reference",
        "fields named inside the literal are bound to the field itself (`x = self.x` / `x = *x` in a match arm), fields inside argument expressions are `&field` locals, as display.md/debug.md state",
        "rename_all model restricted to names made of capitalised ASCII words of >= 2 letters (all casing conventions agree on their word boundaries)",
        "addresses printed by {:p} are compared within one process on one value that is not moved between the two calls",
    ]
    res = l2.build_and_run(ctx, "fmt", cases, prelude=PRELUDE, max_rounds=10)
    ctx.extra["build_rounds"] = res.rounds

    check(ctx, cases, res)
    ctx.extra["types_built"] = len(cases)

    # rejected inputs
    mf = must_fail_cases()
    res2 = l2.build_and_run(ctx, "reject", mf, nshards=1, run=False)
    for c in mf:
        ctx.count()
        ctx.cls(c.cls)
        if c.id in res2.compile_errors:
            ctx.bump("rejected_as_required")
        else:
            ctx.violate("accepted:%s" % c.cls[1], "%s compiled" % c.meta["what"], case=c.meta, items=c.items)

    rename_breadth(ctx, ctx.pick(4000, 30000))

    picks = [c for c in cases if not c.trivial][:400]
    rng.shuffle(picks)
    for c in picks[:10]:
        evs = [e for e in res.events.get(c.id, []) if "got" in e][:2]
        ctx.sample({"case": c.meta.get("what"), "items": c.items.split("\n")[:14], "run": c.body.split("\n")[:2], "events": evs})
