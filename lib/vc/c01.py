"""C01 - every supported derive input is accepted and expands to code that compiles, warning-free.

L0 monitor: the corpus of supported items (lib/vc/items.py, transcribed from impl/doc/*.md) is
compiled through the real proc-macro; every rustc diagnostic (error or warning) whose macro
expansion chain names a derive_more derive is an event attributed to (case, derive).
"""
import re

from . import common, items, l2
from .l2 import Case

HEADER = """#![allow(dead_code)]
#![allow(clippy::all)]
#![recursion_limit = "512"]
"""


def decorate_all(it):
    """#[deprecated] on each single field / variant position in turn (not only the first)."""
    out = []
    src = it.src
    m = re.search(r"pub (struct|enum) @N@[^({;]*([({])", src)
    if not m or ("struct" in m.group(0) and src.rstrip().endswith("@N@;")):
        return out
    start = m.end()
    # split the body at top-level commas
    depth, pos, cuts = 0, start, [start]
    while pos < len(src):
        ch = src[pos]
        if ch in "([{<":
            depth += 1
        elif ch in ")]}>":
            if ch == ">" and src[pos - 1] == "-":
                pass
            else:
                depth -= 1
                if depth < 0:
                    break
        elif ch == "," and depth == 0:
            cuts.append(pos + 1)
        pos += 1
    for k, c in enumerate(cuts[1:], 1):
        rest = src[c:].lstrip()
        if not rest or rest[0] in ")}":
            continue
        out.append(("deprecated-pos%d" % k, src[:c] + " #[deprecated]" + src[c:]))
    return out


def decorate(it, kind, rng):
    """Hostile decorations that must not make the expansion warn: #[deprecated] fields/variants."""
    src = it.src
    if kind == "deprecated-field":
        # first field of a struct with named or positional fields
        m = re.search(r"(pub struct @N@[^({;]*[({]\s*)", src)
        if not m or "struct" not in src or src.rstrip().endswith("@N@;"):
            return None
        rest = src[m.end():]
        if rest.startswith(")") or rest.startswith("}"):
            return None
        return src[:m.end()] + "#[deprecated] " + rest
    if kind == "deprecated-variant":
        m = re.search(r"(pub enum @N@[^{]*\{\s*)", src)
        if not m or src[m.end():].lstrip().startswith("}"):
            return None
        return src[:m.end()] + "#[deprecated] " + src[m.end():]
    return None


def select(ctx, all_items):
    rng = ctx.rng
    if ctx.quick():
        # pairwise-style core: every (family, generics) and every (family, shape/attr) at least once
        seen, core = set(), []
        order = list(all_items)
        rng.shuffle(order)
        for it in order:
            keys = {("fg", it.dims[0], it.dims[2]), ("fs", it.dims[0], it.dims[1], it.dims[4]), ("fn", it.dims[0], it.dims[3]),
                    ("fd", it.dims[0], it.dims[1], tuple(it.derives))}
            if not keys <= seen:
                seen |= keys
                core.append(it)
        extra = [it for it in order if it not in core]
        return core + extra[: max(0, 1500 - len(core))]
    return list(all_items)


def run(ctx):
    corpus = items.all_items()
    chosen = select(ctx, corpus) + list(items.macro_items()) + list(items.usage_items())
    cases = []
    for i, it in enumerate(chosen):
        cases.append((Case("i%d" % i, it.dims, "    #[allow(non_camel_case_types, non_snake_case)]\n    " + it.text("T%d" % i).replace("\n", "\n    "), "", expect=0,
                           meta={"what": "derive(%s) on %s" % (",".join(it.derives), it.dims), "derives": it.derives, "dims": it.dims}), it))
    # hostile decorations
    k = len(cases)
    for it in chosen:
        for kind in ("deprecated-field", "deprecated-variant"):
            if ctx.quick() and ctx.rng.random() < 0.6:
                continue
            src = decorate(it, kind, ctx.rng)
            if src is None:
                continue
            it2 = items.Item(it.derives, src, it.dims[:4] + (it.dims[4] + "+" + kind,), it.std_derives)
            cases.append((Case("i%d" % k, it2.dims, "    #[allow(deprecated, non_camel_case_types, non_snake_case)]\n    " + it2.text("T%d" % k).replace("\n", "\n    "), "", expect=0,
                               meta={"what": "derive(%s) on %s" % (",".join(it2.derives), it2.dims), "derives": it2.derives, "dims": it2.dims}), it2))
            k += 1
    for it in chosen:
        for kind, src in decorate_all(it):
            if ctx.quick() and ctx.rng.random() < 0.8:
                continue
            it2 = items.Item(it.derives, src, it.dims[:4] + (it.dims[4] + "+" + kind,), it.std_derives)
            cases.append((Case("i%d" % k, it2.dims, "    #[allow(deprecated, non_camel_case_types, non_snake_case)]\n    " + it2.text("T%d" % k).replace("\n", "\n    "), "", expect=0,
                               meta={"what": "derive(%s) on %s" % (",".join(it2.derives), it2.dims), "derives": it2.derives, "dims": it2.dims}), it2))
            k += 1
    only = [c for c, _ in cases]
    ctx.rule = ("items: the support matrix of DESIGN.md Appendix A instantiated over 14 generics classes (lifetimes, type params with inline bounds/defaults/where-clauses, const params before/"
                "between/after type params, defaults), tuple/named/unit shapes, enums mixing all variant kinds, raw-identifier names, each documented attribute option, plus #[deprecated] "
                "fields/variants; distinct = distinct (family, shape, generics class, naming, attribute) tuples; non-generic attribute-free plain-named items are trivial")
    ctx.assumptions += ["lib/vc/items.py transcribes what impl/doc/*.md documents as supported; field types satisfy the documented trait requirements",
                       "lint set of stable rustc 1.95 at default levels (dead_code allowed crate-wide because generated pub methods are unused in the workload)"]
    res = l2.build_and_run(ctx, "items", only, prelude=items.PRELUDE, run=False, header=HEADER, collect_warnings=True, max_rounds=8,
                           nshards=min(common.NCPU, max(1, len(only) // 40)))
    ctx.extra["build_rounds"] = res.rounds
    ctx.extra["items"] = len(only)
    nderive = 0
    for c, it in cases:
        ctx.count()
        nderive += len(it.derives)
        trivial = it.dims[2] == "none" and it.dims[3] == "plain" and it.dims[4] == "-"
        if not trivial:
            ctx.cls(it.dims)
        if c.id in res.compile_errors:
            ds = res.compile_errors[c.id]
            derives = sorted(set(sum((common.diag_derives(d) for d in ds), [])))
            msg = re.sub(r"T\d+", "T", ds[0].get("message", ""))[:90]
            if not derives:
                ctx.bump("errors_without_derive_in_chain")
            ctx.violate("compile:%s:%s:%s" % (",".join(derives) or "?", it.dims[0], msg),
                        "supported input rejected: %s: %s\n%s" % (c.meta["what"], ds[0].get("message"), c.items),
                        item=c.items, derives=derives, dims=it.dims, errors=l2.err_text(ds))
        for d in res.warnings.get(c.id, []):
            # The case module contains nothing but the item definition (which carries
            # `#[allow(deprecated, non_camel_case_types, non_snake_case)]` for its own names), so every
            # warning located in it is raised by code the derives generated - also when the span points
            # at a user token re-used by the expansion (e.g. "use of deprecated variant" at the variant).
            derives = sorted(set(common.diag_derives(d))) or ["(one of %s)" % ",".join(it.derives)]
            code = (d.get("code") or {}).get("code", "?")
            ctx.violate("warning:%s:%s:%s" % (",".join(derives), code, it.dims[0]),
                        "expansion of derive(%s) raises warning `%s` on %s: %s\n%s" % (",".join(derives), code, it.dims, d.get("message"), c.items),
                        item=c.items, derives=derives, dims=it.dims, warning=common.diag_text(d))
    ctx.extra["derive_applications"] = nderive
    if res.warnings.get("#unattributed"):
        ctx.bump("unattributed_warnings", len(res.warnings["#unattributed"]))
    for c, it in cases[:4] + cases[-3:]:
        ctx.sample({"dims": it.dims, "item": c.items.strip()})
