"""Corpus of *supported* derive inputs (DESIGN.md §4 C01, Appendix A), shared by C01, C15, C17, C18, C19.

Every entry is an `Item(derives, src, dims)`: `src` is a complete struct/enum definition named
`@N@` (the caller substitutes a unique name) written against the helper types of PRELUDE, such that
the documentation of each listed derive supports the shape and the field types meet the documented
trait requirements.  `dims` is the class tuple (family, shape, generics, naming, attribute).

The table is data about the documentation, not about the implementation: a compile error for one of
these items is the derive's fault unless this table is wrong (then it is corrected here).
"""
import itertools

PRELUDE = r'''
#[allow(unused_imports)]
use ::rt::{Tag, Scalar, Leaf};
pub use ::core::marker::PhantomData;

/// An operand carrying a lifetime (all operators, like Tag).
#[derive(Clone, Copy, Debug, PartialEq)]
pub struct LtTag<'a>(pub Tag, pub PhantomData<&'a ()>);
macro_rules! lt_ops { ($($tr:ident $m:ident $atr:ident $am:ident),*) => {$(
    impl<'a> ::core::ops::$tr for LtTag<'a> { type Output = Self; fn $m(self, r: Self) -> Self { LtTag(::core::ops::$tr::$m(self.0, r.0), PhantomData) } }
    impl<'a> ::core::ops::$tr<Scalar> for LtTag<'a> { type Output = Self; fn $m(self, r: Scalar) -> Self { LtTag(::core::ops::$tr::$m(self.0, r), PhantomData) } }
    impl<'a> ::core::ops::$atr for LtTag<'a> { fn $am(&mut self, r: Self) { ::core::ops::$atr::$am(&mut self.0, r.0) } }
    impl<'a> ::core::ops::$atr<Scalar> for LtTag<'a> { fn $am(&mut self, r: Scalar) { ::core::ops::$atr::$am(&mut self.0, r) } }
)*}}
lt_ops!(Add add AddAssign add_assign, Sub sub SubAssign sub_assign, Mul mul MulAssign mul_assign, Div div DivAssign div_assign,
        Rem rem RemAssign rem_assign, BitAnd bitand BitAndAssign bitand_assign, BitOr bitor BitOrAssign bitor_assign,
        BitXor bitxor BitXorAssign bitxor_assign, Shl shl ShlAssign shl_assign, Shr shr ShrAssign shr_assign);
impl<'a> ::core::ops::Not for LtTag<'a> { type Output = Self; fn not(self) -> Self { LtTag(!self.0, PhantomData) } }
impl<'a> ::core::ops::Neg for LtTag<'a> { type Output = Self; fn neg(self) -> Self { LtTag(-self.0, PhantomData) } }
impl<'a> ::core::iter::Sum for LtTag<'a> { fn sum<I: Iterator<Item = Self>>(i: I) -> Self { LtTag(i.map(|x| x.0).sum(), PhantomData) } }
impl<'a> ::core::iter::Product for LtTag<'a> { fn product<I: Iterator<Item = Self>>(i: I) -> Self { LtTag(i.map(|x| x.0).product(), PhantomData) } }

pub trait Tr { type Assoc; }
impl Tr for i32 { type Assoc = u8; }

/// An error type with two type arguments (only the second needs to be an error).
#[derive(Debug)]
pub struct Two<A, B>(pub A, pub B);
impl<A, B> ::core::fmt::Display for Two<A, B> { fn fmt(&self, f: &mut ::core::fmt::Formatter<'_>) -> ::core::fmt::Result { f.write_str("two") } }
impl<A: ::core::fmt::Debug, B: ::std::error::Error + 'static> ::std::error::Error for Two<A, B> {}
'''

DISPLAY_LIKE = ["Display", "Binary", "Octal", "LowerHex", "UpperHex", "LowerExp", "UpperExp", "Pointer"]
ATTR_OF = {"Display": "display", "Binary": "binary", "Octal": "octal", "LowerHex": "lower_hex", "UpperHex": "upper_hex",
           "LowerExp": "lower_exp", "UpperExp": "upper_exp", "Pointer": "pointer", "Debug": "debug"}
ADD_LIKE = ["Add", "Sub", "BitAnd", "BitOr", "BitXor"]
ADD_ASSIGN = ["AddAssign", "SubAssign", "BitAndAssign", "BitOrAssign", "BitXorAssign"]
MUL_LIKE = ["Mul", "Div", "Rem", "Shr", "Shl"]
MUL_ASSIGN = ["MulAssign", "DivAssign", "RemAssign", "ShrAssign", "ShlAssign"]
MUL_ATTR = {"Mul": "mul", "Div": "div", "Rem": "rem", "Shr": "shr", "Shl": "shl", "MulAssign": "mul_assign", "DivAssign": "div_assign",
            "RemAssign": "rem_assign", "ShrAssign": "shr_assign", "ShlAssign": "shl_assign"}


class Item:
    __slots__ = ("derives", "src", "dims", "std_derives")

    def __init__(self, derives, src, dims, std_derives=()):
        self.derives = list(derives)
        self.src = src
        self.dims = tuple(dims)
        self.std_derives = list(std_derives)

    def text(self, name, path="derive_more::"):
        ds = ", ".join([path + d for d in self.derives] + list(self.std_derives))
        if "@DERIVE@" in self.src:
            # the item is produced by a `macro_rules!` macro of its own: the derive attribute sits inside the macro body
            return self.src.replace("@DERIVE@", "#[derive(%s)]" % ds).replace("@N@", name)
        return ("#[derive(%s)]\n" % ds) + self.src.replace("@N@", name)


class G:
    """A generics class: declaration text, where clause, and which kinds of parameter exist."""

    def __init__(self, key, decl, where="", T=None, U=None, lt=None, N=None):
        self.key, self.decl, self.where = key, decl, where
        self.T, self.U, self.lt, self.N = T, U, lt, N

    @property
    def g(self):
        return "<%s>" % self.decl if self.decl else ""

    @property
    def w(self):
        return (" where %s" % self.where) if self.where else ""


GENERICS = [
    G("none", ""),
    G("T", "T", T="T"),
    G("T:bound", "T: ::core::clone::Clone", T="T"),
    G("T:where", "T", where="T: ::core::clone::Clone", T="T"),
    # the way rustfmt lays out a where clause: trailing comma (an expansion that appends `, Pred` to the printed clause breaks)
    G("T,U:where-trailing-comma", "T, U", where="T: ::core::clone::Clone, U: ::core::marker::Sized,", T="T", U="U"),
    G("T=default", "T = Tag", T="T"),
    G("T,U", "T, U: ::core::clone::Clone", where="T: ::core::clone::Clone", T="T", U="U"),
    G("'a", "'a", lt="'a"),
    G("'a,T", "'a, T: 'a", T="T", lt="'a"),
    G("constN", "const N: usize", N="N"),
    G("constN=default", "const N: usize = 2", N="N"),
    G("constN,T", "const N: usize, T", T="T", N="N"),
    G("T,constN", "T, const N: usize", T="T", N="N"),
    G("T,constN,U", "T: ::core::clone::Clone, const N: usize, U", T="T", U="U", N="N"),
    G("'a,T,constN=default", "'a, T: ::core::clone::Clone, const N: usize = 3", where="T: 'a", T="T", lt="'a", N="N"),
    G("T:2bounds+where", "T: ::core::clone::Clone + ::core::marker::Send", where="T: 'static + ::core::marker::Sync", T="T"),
    G("T,U=default", "T, U = u8", T="T", U="U"),
    G("constA:u8,constB:bool", "const A: u8, const B: bool", N="A"),
    G("T=default,constN=default", "T = Tag, const N: usize = 1", T="T", N="N"),
    G("constN,T:where-only", "const N: usize, T", where="T: ::core::marker::Sized, [u8; N]: ::core::marker::Sized", T="T", N="N"),
]
GEN_BY_KEY = {g.key: g for g in GENERICS}

PLAIN_FIELDS = ["a", "b", "c", "d"]
RAW_FIELDS = ["r#type", "r#fn", "r#loop", "r#match"]


def fields_decl(named, types, raw=False, attrs=None):
    names = RAW_FIELDS if raw else PLAIN_FIELDS
    attrs = attrs or [""] * len(types)
    if named:
        return "{ %s }" % ", ".join("%s%s: %s" % (a + " " if a else "", names[i], t) for i, (t, a) in enumerate(zip(types, attrs)))
    return "(%s)" % ", ".join("%s%s" % (a + " " if a else "", t) for t, a in zip(types, attrs))


def struct_src(g, named, types, raw=False, attrs=None, item_attrs=""):
    body = fields_decl(named, types, raw, attrs)
    tname = "r#@N@" if False else "@N@"
    if named:
        return "%spub struct %s%s%s %s" % (item_attrs, tname, g.g, g.w, body)
    return "%spub struct %s%s%s%s;" % (item_attrs, tname, g.g, body, g.w)


def enum_src(g, variants, item_attrs=""):
    return "%spub enum @N@%s%s { %s }" % (item_attrs, g.g, g.w, ", ".join(variants))


# ---------------------------------------------------------------------------------------------
# per-family generators; each yields Items

def ops_items():
    """Add-like, AddAssign-like, Not/Neg, Sum (with Add), scalar and forward Mul-like + assign, Product."""
    for g in GENERICS:
        # operand types that use the declared parameters and satisfy the operator requirements
        opts = []
        if g.T:
            opts.append("T")
        if g.U:
            opts.append("U")
        if g.lt:
            opts.append("LtTag<%s>" % g.lt)
        base = opts or ["Tag"]
        for named in (False, True):
            for n in (1, 2, 3):
                types = [base[i % len(base)] for i in range(max(n, len(base)))]
                for raw in ((False, True) if named and n == 2 else (False,)):
                    shape = ("named" if named else "tuple", len(types))
                    nm = "raw" if raw else "plain"
                    src = struct_src(g, named, types, raw)
                    yield Item(ADD_LIKE + ADD_ASSIGN + ["Not", "Neg", "Sum"], src, ("ops", shape, g.key, nm, "-"))
                    yield Item(MUL_LIKE + MUL_ASSIGN, src, ("mul-scalar", shape, g.key, nm, "-"))
                    fa = "".join("#[%s(forward)]\n" % MUL_ATTR[d] for d in MUL_LIKE + MUL_ASSIGN)
                    yield Item(MUL_LIKE + MUL_ASSIGN + ["Product"], struct_src(g, named, types, raw, item_attrs=fa), ("mul-forward", shape, g.key, nm, "forward"))
        # enums: Add-like, Not/Neg, forward Mul-like
        for vs_key, mk in (("mixed", lambda t: ["A(%s)" % t[0], "B { x: %s, y: %s }" % (t[0], t[-1]), "C(%s, %s)" % (t[0], t[-1])]),
                           ("with-unit", lambda t: ["A(%s)" % t[0], "B { x: %s }" % t[-1], "U"]),
                           ("single", lambda t: ["Only(%s, %s)" % (t[0], t[-1])]),
                           ("empty-kinds", lambda t: ["A(%s, %s)" % (t[0], t[-1]), "E0()", "E1 {}"])):
            variants = mk(base)
            src = enum_src(g, variants)
            yield Item(ADD_LIKE + ["Not", "Neg"], src, ("ops-enum", vs_key, g.key, "plain", "-"))
            fa = "".join("#[%s(forward)]\n" % MUL_ATTR[d] for d in MUL_LIKE)
            yield Item(MUL_LIKE, enum_src(g, variants, item_attrs=fa), ("mul-forward-enum", vs_key, g.key, "plain", "forward"))


def param_payload(g, wrap="{}"):
    """Field types that together use every declared lifetime/type parameter (const may stay unused)."""
    ts = []
    if g.lt and g.T:
        ts.append(wrap.format("&%s %s" % (g.lt, g.T)))
    elif g.lt:
        ts.append(wrap.format("&%s i32" % g.lt))
    elif g.T:
        ts.append(wrap.format(g.T))
    if g.U:
        ts.append(wrap.format(g.U))
    return ts


def fmt_items():
    for g in GENERICS:
        pay = param_payload(g) or ["i32"]
        # single field, no attribute: delegation
        for named in (False, True):
            for raw in ((False, True) if named else (False,)):
                if len(pay) == 1:
                    fmtable = pay[0]
                    src = struct_src(g, named, [fmtable], raw)
                    ds = [d for d in DISPLAY_LIKE if d != "Pointer"] if not fmtable.startswith("&") else ["Display", "Pointer"]
                    if g.T or not fmtable.startswith("&"):
                        # generic T gets the bound inferred; `i32` implements all numeric traits
                        ds2 = ds if not g.T else ds
                        yield Item(ds2, src, ("fmt-delegate", "named1" if named else "tuple1", g.key, "raw" if raw else "plain", "-"))
        # attribute with literal over all fields
        names = PLAIN_FIELDS
        for named in (False, True):
            for raw in ((False, True) if named else (False,)):
                types = pay + ["u8"]
                fn = (RAW_FIELDS if raw else PLAIN_FIELDS)[:len(types)] if named else ["_%d" % i for i in range(len(types))]
                ref = [n.replace("r#", "") for n in fn]
                lit = " ".join("{%s}" % r for r in ref) + " {}"
                for tr in ("Display", "UpperHex"):
                    if tr == "UpperHex":
                        lit2 = "{%s} {:X}" % ref[0]
                    else:
                        lit2 = lit
                    attr = '#[%s("%s", %s)]\n' % (ATTR_OF[tr], lit2, fn[-1])
                    yield Item([tr], struct_src(g, named, types, raw, item_attrs=attr), ("fmt-attr", "named" if named else "tuple", g.key, "raw" if raw else "plain", tr))
        # Debug: every shape, with skip and field formats
        for named in (False, True):
            for raw in ((False, True) if named else (False,)):
                types = pay + ["u8", "i64"]
                for ak, attrs in (("-", None), ("skip", [""] * (len(types) - 1) + ["#[debug(skip)]"]),
                                  ("field-fmt", ['#[debug("{:?}", 1)]'] + [""] * (len(types) - 1))):
                    if ak == "field-fmt" and g.T:
                        # a replaced field is not formatted: its parameter needs no Debug bound - still supported
                        pass
                    yield Item(["Debug"], struct_src(g, named, types, raw, attrs), ("debug", "named" if named else "tuple", g.key, "raw" if raw else "plain", ak))
        # Debug with formats that name (generic) fields: on the struct, on a field (itself / a neighbour), on variants
        for named in (False, True):
            types = pay + ["u8"]
            fn = PLAIN_FIELDS[:len(types)] if named else ["_%d" % i for i in range(len(types))]
            lit = "/".join("{%s:?}" % n for n in fn)
            yield Item(["Debug"], struct_src(g, named, types, False, item_attrs='#[debug("%s")]\n' % lit), ("debug", "named" if named else "tuple", g.key, "plain", "struct-fmt-names-fields"))
            fa = ['#[debug("<{%s:?}>")]' % fn[0]] + [""] * (len(types) - 2) + ['#[debug("{%s:?}+{%s:?}")]' % (fn[0], fn[-1])]
            yield Item(["Debug"], struct_src(g, named, types, False, fa), ("debug", "named" if named else "tuple", g.key, "plain", "field-fmt-names-fields"))
        vsd = ['#[debug("a:{_0:?}")] A(%s)' % pay[0], '#[debug("b:{x:?}/{}", 7)] B { x: %s }' % pay[-1], 'C(#[debug("{_0:?}!")] %s, u8)' % pay[0], "#[debug(\"unit\")] U", "Plain"]
        yield Item(["Debug"], enum_src(g, vsd), ("debug-enum", "mixed", g.key, "plain", "variant-and-field-fmt"))
        # enums
        p0 = pay[0]
        variants = ['#[display("a:{_0}")] A(%s)' % p0, '#[display("b:{x}/{}", 7)] B { x: %s }' % pay[-1], "#[display(\"unit\")] U", "Plain"]
        yield Item(["Display"], enum_src(g, variants), ("fmt-enum", "mixed", g.key, "plain", "variant-attrs"))
        variants = ["A(%s)" % p0, "B(%s)" % pay[-1], "U"]
        yield Item(["Display"], enum_src(g, variants, item_attrs='#[display("<{_variant}>")]\n'), ("fmt-enum", "shared", g.key, "plain", "_variant"))
        yield Item(["Display"], enum_src(g, variants, item_attrs='#[display(rename_all = "snake_case")]\n'), ("fmt-enum", "rename", g.key, "plain", "rename_all"))
        # shared `_variant` / default formats for every Display-like trait (single-field variants delegate under the derived trait)
        for tr in DISPLAY_LIKE:
            at = ATTR_OF[tr]
            if tr == "Pointer":
                fa = p0 if (g.T or g.lt) else "*const u8"
                fb = pay[-1] if (g.T or g.lt) else "&'static i32"
            else:
                fa, fb = p0, pay[-1]
            L = {"Display": "", "Binary": "b", "Octal": "o", "LowerHex": "x", "UpperHex": "X", "LowerExp": "e", "UpperExp": "E", "Pointer": "p"}[tr]
            vs = ["A(%s)" % fa, '#[%s("own {_0:%s}")] B(%s)' % (at, L, fb), "C { x: %s }" % fa]
            yield Item([tr], enum_src(g, vs, item_attrs='#[%s("<{_variant}>")]\n' % at), ("fmt-enum", "shared-wrap", g.key, "plain", tr + ":_variant"))
            vs = ["A(%s)" % fa, '#[%s("{_0:%s}")] B(%s)' % (at, L, fb), "C(%s)" % fb]
            yield Item([tr], enum_src(g, vs, item_attrs='#[%s("dflt {_0:%s}")]\n' % (at, L)), ("fmt-enum", "shared-default", g.key, "plain", tr + ":default"))
        variants = ["A(%s)" % p0, "B { x: %s, #[debug(skip)] y: u8 }" % pay[-1], "U", "E0()", "E1 {}", "r#Loop(u8)"]
        yield Item(["Debug"], enum_src(g, variants), ("debug-enum", "mixed", g.key, "raw-variant", "skip"))
        # explicit bounds
        if g.T:
            attr = '#[display("{}", a.len())]\n#[display(bound(%s: ::core::fmt::Debug))]\n' % g.T
            yield Item(["Display"], "%spub struct @N@%s%s { a: ::std::vec::Vec<%s>%s }" % (
                attr, g.g, g.w, g.T if not g.lt else "&%s %s" % (g.lt, g.T), "".join(", x%d: %s" % (i, t) for i, t in enumerate(pay[1:]))),
                ("fmt-attr", "bound", g.key, "plain", "bound"))
    # unit struct / unit-like
    yield Item(["Display", "Debug"], "pub struct @N@;", ("fmt-unit", "unit", "none", "plain", "-"))
    yield Item(["Display", "Debug"], "pub struct @N@ {}", ("fmt-unit", "empty-brace", "none", "plain", "-"))
    yield Item(["Display", "Debug"], "pub struct @N@();", ("fmt-unit", "empty-tuple", "none", "plain", "-"))


def conv_items():
    for g in GENERICS:
        pay = param_payload(g) or ["i32"]
        for named in (False, True):
            for n in (0, 1, 2):
                types = (pay + ["u8", "i64"])[: max(n, len(pay))] if n else ([] if not pay or not (g.T or g.lt) else None)
                if types is None:
                    continue
                if n == 0 and (g.T or g.lt):
                    continue
                for raw in ((False, True) if named and n == 2 else (False,)):
                    src = struct_src(g, named, types, raw)
                    nm = "raw" if raw else "plain"
                    shape = ("named" if named else "tuple", len(types))
                    yield Item(["From", "Constructor"], src, ("from", shape, g.key, nm, "-"))
                    # Into a bare type parameter or reference of a generic struct is an orphan-rule error
                    if not (g.T or g.lt):
                        yield Item(["Into"], src, ("into", shape, g.key, nm, "-"))
                        if types:
                            yield Item(["Into"], struct_src(g, named, types, raw, item_attrs="#[into(owned, ref, ref_mut)]\n"), ("into", shape, g.key, nm, "owned,ref,ref_mut"))
        if g.T and not g.lt:
            # wrapped generic payloads are fine for Into
            yield Item(["Into", "From"], struct_src(g, False, ["::std::vec::Vec<%s>" % g.T] + (["[%s; 2]" % g.U] if g.U else [])), ("into", ("tuple", "wrapped"), g.key, "plain", "-"))
            # (a single generic field with `forward` overlaps with core's `impl<T> From<T> for T`)
            yield Item(["From"], struct_src(g, False, [g.T, g.U or "u8"], item_attrs="#[from(forward)]\n"), ("from", ("tuple", "forward"), g.key, "plain", "forward"))
        # enums: From per variant with pairwise distinct payloads
        # a bare type parameter as payload would overlap with every other `From<X>` impl (E0119), so wrap it
        wp = param_payload(g, "::std::vec::Vec<{}>") if (g.T or g.lt) else ["i32"]
        y = "[%s; 2]" % g.U if g.U else "i64"
        vs = ["A(%s)" % wp[0], "B { x: u8, y: %s }" % y, "U", "#[from(skip)] S(u16)"]
        yield Item(["From"], enum_src(g, vs), ("from-enum", "mixed", g.key, "plain", "skip"))
        vs = ["#[from] A(%s)" % wp[0], "B(u16)", "C { x: %s }" % y]
        yield Item(["From"], enum_src(g, vs), ("from-enum", "explicit", g.key, "plain", "#[from]"))
    # typed conversions (non generic)
    g0 = GEN_BY_KEY["none"]
    yield Item(["From"], struct_src(g0, False, ["i64"], item_attrs="#[from(i8, i16, i32)]\n"), ("from", ("tuple", 1), "none", "plain", "types"))
    yield Item(["From"], struct_src(g0, True, ["i64", "i64"], item_attrs="#[from((i16, i16), (i32, i32))]\n"), ("from", ("named", 2), "none", "plain", "types"))
    yield Item(["Into"], struct_src(g0, False, ["i32"], item_attrs="#[into(i64, i128)]\n"), ("into", ("tuple", 1), "none", "plain", "types"))
    yield Item(["Into"], struct_src(g0, True, ["i32", "u8"], attrs=["", "#[into(skip)]"]), ("into", ("named", 2), "none", "plain", "skip"))
    yield Item(["Into"], struct_src(g0, False, ["i32", "u8"], item_attrs="#[into(owned, ref((i32, u8)), ref_mut)]\n"), ("into", ("tuple", 2), "none", "plain", "owned,ref(..),ref_mut"))


def deleg_items():
    for g in GENERICS:
        elem = g.T or "i32"
        extra = param_payload(g)
        # other fields only to use the remaining parameters
        others = [t for t in extra if t != g.T]
        vec = "::std::vec::Vec<%s>" % elem
        for named in (False, True):
            for sel in ("only", "attr", "ignore-others"):
                if sel == "only":
                    if others:
                        continue
                    types, attrs = [vec], {}
                else:
                    types = [vec] + (others or ["u8"])
                    attrs = {}
                raw = named and sel == "attr"

                def mk(attr_name, forward=False):
                    if sel == "only":
                        at = [""]
                    elif sel == "attr":
                        at = ["#[%s%s]" % (attr_name, "(forward)" if forward else "")] + [""] * (len(types) - 1)
                    else:
                        at = [""] + ["#[%s(ignore)]" % attr_name] * (len(types) - 1)
                    ia = "#[%s(forward)]\n" % attr_name if forward and sel != "attr" else ""
                    return struct_src(g, named, types, raw, at, item_attrs=ia)
                shape = ("named" if named else "tuple", sel)
                nm = "raw" if raw else "plain"
                yield Item(["Deref"], mk("deref"), ("deref", shape, g.key, nm, "-"))
                yield Item(["Deref"], mk("deref", True), ("deref", shape, g.key, nm, "forward"))
                yield Item(["Index"], mk("index"), ("index", shape, g.key, nm, "-"))
                yield Item(["IntoIterator"], mk("into_iterator"), ("into_iterator", shape, g.key, nm, "-"))
                if sel == "only":
                    yield Item(["Deref", "DerefMut", "Index", "IndexMut", "IntoIterator"],
                               struct_src(g, named, types, raw, item_attrs="#[into_iterator(owned, ref, ref_mut)]\n"),
                               ("deleg-all", shape, g.key, nm, "owned,ref,ref_mut"))
                    yield Item(["AsRef", "AsMut"], struct_src(g, named, types, raw), ("as_ref", shape, g.key, nm, "-"))
                    yield Item(["AsRef", "AsMut"], struct_src(g, named, types, raw, item_attrs="#[as_ref(forward)]\n#[as_mut(forward)]\n"), ("as_ref", shape, g.key, nm, "forward"))
                    yield Item(["AsRef", "AsMut"], struct_src(g, named, types, raw, item_attrs="#[as_ref([%s])]\n#[as_mut([%s])]\n" % (elem, elem)), ("as_ref", shape, g.key, nm, "types"))
                else:
                    at = [""] + ["#[as_ref(skip)] #[as_mut(ignore)]"] * (len(types) - 1) if sel == "ignore-others" else ["#[as_ref] #[as_mut]"] + [""] * (len(types) - 1)
                    yield Item(["AsRef", "AsMut"], struct_src(g, named, types, raw, at), ("as_ref", shape, g.key, nm, "field-attr"))
    g0 = GEN_BY_KEY["none"]
    yield Item(["AsRef"], struct_src(g0, True, ["::std::string::String", "::std::vec::Vec<u8>"], attrs=["#[as_ref(str, ::std::string::String)]", "#[as_ref([u8])]"]),
               ("as_ref", ("named", "multi"), "none", "plain", "field-types"))


def enum_access_items():
    for g in GENERICS:
        pay = param_payload(g, "::std::vec::Vec<{}>") if (g.T or g.lt) else ["i32"]
        pay = pay or ["i32"]
        vs = ["Alpha(%s)" % pay[0], "BetaGamma(u8, %s)" % pay[-1], "Unit", "Empty()"]
        yield Item(["IsVariant", "Unwrap", "TryUnwrap"], enum_src(g, vs), ("accessors", "tuple+unit", g.key, "plain", "-"))
        yield Item(["Unwrap", "TryUnwrap"], enum_src(g, vs, item_attrs="#[unwrap(ref, ref_mut)]\n#[try_unwrap(ref, ref_mut)]\n"), ("accessors", "tuple+unit", g.key, "plain", "ref,ref_mut"))
        vs2 = ["Alpha(%s)" % pay[0], "Named { x: u8, y: %s }" % pay[-1], "#[is_variant(ignore)] Unit"]
        yield Item(["IsVariant"], enum_src(g, vs2), ("is_variant", "named", g.key, "plain", "ignore"))
        vs3 = ["Alpha(%s)" % pay[0], "Beta(u8, u16)", "Gamma(u8, u16)", "Named { x: i64 }", "#[try_into(ignore)] Unit", "Other(#[try_into(ignore)] u32, i128)"]
        if len(pay) > 1:
            vs3.append("Last(%s, u8, u8)" % pay[-1])
        yield Item(["TryInto"], enum_src(g, vs3), ("try_into", "groups", g.key, "plain", "ignore"))
        yield Item(["TryInto"], enum_src(g, vs3, item_attrs="#[try_into(owned, ref, ref_mut)]\n"), ("try_into", "groups", g.key, "plain", "owned,ref,ref_mut"))
        # TryFrom repr
        fieldv = "Data(%s)" % pay[0] if (g.T or g.lt) else "Data(u8)"
        second = ", More(%s)" % pay[-1] if g.U else ""
        for repr in ("", "#[repr(u8)]\n", "#[repr(i16)]\n", "#[repr(C, u32)]\n"):
            # rustc demands an explicit integer repr for explicit discriminants next to variants with fields
            vs4 = ["A = 1", "B", fieldv + second, "C = 7", "D", "E0()", "E1 {}"] if repr else ["A", "B", fieldv + second, "C", "E0()", "E1 {}"]
            yield Item(["TryFrom"], enum_src(g, vs4, item_attrs="#[try_from(repr)]\n" + repr), ("try_from", "mixed", g.key, "plain", repr.strip() or "no-repr"))
    g0 = GEN_BY_KEY["none"]
    yield Item(["FromStr"], enum_src(g0, ["Foo", "Bar", "baz", "BAZ", "r#type"]), ("from_str", "enum", "none", "raw-variant", "-"))
    yield Item(["IsVariant", "Unwrap", "TryUnwrap", "TryInto", "From"], enum_src(g0, ["r#Loop(u8)", "r#Match(i64)", "Plain(i128)"]), ("accessors", "raw", "none", "raw-variant", "-"))
    for g in GENERICS:
        if g.lt or g.U:
            continue
        inner = g.T or "i32"
        for named in (False, True):
            yield Item(["FromStr"], struct_src(g, named, [inner]), ("from_str", "named1" if named else "tuple1", g.key, "plain", "-"))


def error_items():
    for g in GENERICS:
        if g.lt:
            continue  # `Error` sources must be 'static
        src_ty = g.T or "Leaf"
        extra = [g.U] if g.U else []
        disp = '#[display("e")]\n'
        bound_t = ""
        for named in (False, True):
            if named:
                body = "{ source: %s%s }" % (src_ty, "".join(", x%d: %s" % (i, t) for i, t in enumerate(extra)))
                src = "%spub struct @N@%s%s %s" % (disp, g.g, g.w, body)
            else:
                if extra:
                    continue
                src = "%spub struct @N@%s(%s)%s;" % (disp, g.g, src_ty, g.w)
            yield Item(["Error", "Display"], src, ("error", "named" if named else "tuple", g.key, "plain", "inferred"), std_derives=["Debug"])
        vs = ['#[display("a")] A(%s)' % src_ty, '#[display("b")] B { #[error(source)] inner: Leaf, other: u8 }', '#[display("c")] C',
              '#[display("d")] #[error(ignore)] D(Leaf)', '#[display("e")] E { source: Leaf, #[error(not(source))] x: %s }' % (extra[0] if extra else "u8")]
        yield Item(["Error", "Display"], enum_src(g, vs), ("error", "enum", g.key, "plain", "source,ignore,not(source)"), std_derives=["Debug"])


def special_items():
    """Uninhabited field types, `?Sized` parameters, where-clauses on associated types, nested generics."""
    g0 = GEN_BY_KEY["none"]
    inf = "::core::convert::Infallible"
    yield Item(["From", "Constructor", "Into", "Display", "Debug"], "pub struct @N@(%s);" % inf, ("special", "uninhabited-tuple1", "none", "plain", "-"))
    yield Item(["From", "Constructor", "Debug"], "pub struct @N@ { a: %s, b: u8 }" % inf, ("special", "uninhabited-named2", "none", "plain", "-"))
    yield Item(["From", "Display", "Debug", "IsVariant", "Unwrap", "TryUnwrap", "TryInto"], "pub enum @N@ { A(%s), B(u8), C }" % inf, ("special", "uninhabited-variant", "none", "plain", "-"))
    yield Item(["Error", "Display"], '#[display("e")]\npub struct @N@ { source: %s }' % inf, ("special", "uninhabited-source", "none", "plain", "-"), std_derives=["Debug"])
    yield Item(["Display", "Debug", "From", "IsVariant", "FromStr", "TryInto", "Unwrap", "TryUnwrap", "Not", "Neg", "Add", "Error"], "pub enum @N@ {}", ("special", "empty-enum", "none", "plain", "-"), std_derives=[])
    yield Item(["FromStr", "Display", "IsVariant"], "pub enum @N@ { Only }", ("special", "single-unit-variant", "none", "plain", "-"))
    yield Item(["FromStr"], "pub enum @N@<const N: usize> { A, B }", ("special", "const-generic-fieldless", "constN", "plain", "-"))
    yield Item(["TryFrom"], "#[try_from(repr)]\npub enum @N@ {}", ("special", "empty-enum", "none", "plain", "try_from"))
    yield Item(["TryFrom"], "#[try_from(repr)]\n#[repr(u8)]\npub enum @N@<T> { A(T), B { x: T } }", ("special", "no-fieldless-variant", "T", "plain", "try_from"))
    yield Item(["Display", "Debug"], "pub enum @N@<const N: usize = 3> {}", ("special", "empty-enum", "constN=default", "plain", "-"))
    # variants / fields named like the associated items the expansions mention (`Self::Output`, `Self::Error`,
    # `Self::Err`, `Self::Target`, `Self::Item`, `Self::IntoIter`) or like prelude items (`Ok`, `Err`, `Some`, `None`)
    assoc = "Output(i32), Error(i32), Err(i32), Target(i32), Item(i32), IntoIter(i32), Ok(i32), Some(i32), None(i32), Result(i32), Option(i32)"
    distinct = "Output(i8), Error(i16), Err(i32), Target(i64), Item(u8), IntoIter(u16), Ok(u32), Some(u64), None(i128), Result(u128), Option(isize)"
    for ds in (["Add", "Sub", "BitAnd", "BitOr", "BitXor"], ["Not", "Neg"], ["From", "TryInto", "IsVariant", "Unwrap", "TryUnwrap"], ["Display", "Debug", "Error"]):
        body = distinct if "From" in ds else assoc.replace("(i32)", " { x: i32 }") if "Error" in ds else assoc
        yield Item(ds, "pub enum @N@ { %s }" % body, ("special", "assoc-named-variants", "none", "plain", "+".join(ds)[:20]))
    yield Item(["Mul", "Div", "Rem", "Shl", "Shr"], "#[mul(forward)]\n#[div(forward)]\n#[rem(forward)]\n#[shl(forward)]\n#[shr(forward)]\npub enum @N@ { Output(i32), Error(i32), Unit }",
               ("special", "assoc-named-variants", "none", "plain", "mul-forward"))
    yield Item(["FromStr", "Display", "IsVariant"], "pub enum @N@ { Output, Error, Err, Target, Item, Ok, Some, None, Result, Option, Self_ }", ("special", "assoc-named-unit-variants", "none", "plain", "-"))
    yield Item(["TryFrom"], "#[try_from(repr)]\n#[repr(u8)]\npub enum @N@ { Output, Error, Err, Ok, Some, None, Result }", ("special", "assoc-named-unit-variants", "none", "plain", "try_from"))
    yield Item(["Deref", "DerefMut", "AsRef", "AsMut", "Index", "IndexMut", "IntoIterator"],
               "pub struct @N@ { #[deref] #[deref_mut] #[as_ref] #[as_mut] #[index] #[index_mut] #[into_iterator(owned, ref, ref_mut)] Target: ::std::vec::Vec<u8>, Output: u8, Item: u8, IntoIter: u8 }",
               ("special", "assoc-named-fields", "none", "plain", "-"))
    # record-like variants are documented as unsupported by Unwrap/TryUnwrap only when they take part: ignored ones are fine
    yield Item(["Unwrap", "TryUnwrap", "IsVariant"], "pub enum @N@ { A(u8), #[unwrap(ignore)] #[try_unwrap(ignore)] N { x: u8, y: u16 }, U, #[unwrap(ignore)] #[try_unwrap(ignore)] E {} }",
               ("special", "ignored-record-variant", "none", "plain", "ignore"))
    yield Item(["Unwrap", "TryUnwrap"], "#[unwrap(ref, ref_mut)]\n#[try_unwrap(ref, ref_mut)]\npub enum @N@<T> { A(T), #[unwrap(ignore)] #[try_unwrap(ignore)] N { x: T }, U }",
               ("special", "ignored-record-variant", "T", "plain", "ref,ref_mut+ignore"))
    # enums with a single variant (catch-all arms the expansions add for other variants become unreachable patterns)
    for body, tag in (("A(i32)", "tuple1"), ("A { x: i32, y: i64 }", "named2"), ("U", "unit"), ("A()", "empty-tuple")):
        yield Item(["Add", "Sub", "BitAnd", "BitOr", "BitXor", "Not", "Neg"], "pub enum @N@ { %s }" % body, ("special", "single-variant-enum", "none", "plain", "ops:" + tag))
        yield Item(["Mul", "Div", "Rem", "Shl", "Shr"], "#[mul(forward)]\n#[div(forward)]\n#[rem(forward)]\n#[shl(forward)]\n#[shr(forward)]\npub enum @N@ { %s }" % body,
                   ("special", "single-variant-enum", "none", "plain", "mul-forward:" + tag))
    yield Item(["Add", "Not"], "pub enum @N@<T> { A(T, T) }", ("special", "single-variant-enum", "T", "plain", "ops:generic"))
    yield Item(["Error", "Display", "Debug"], '#[display("e")]\npub enum @N@ { A { source: ::std::fmt::Error } }', ("special", "single-variant-enum", "none", "plain", "error"))
    yield Item(["Error", "Display", "Debug"], '#[display("e")]\npub enum @N@ { A(i32, i32) }', ("special", "single-variant-enum", "none", "plain", "error-no-source"))
    yield Item(["From", "TryInto", "Display", "Debug"], '#[try_into(owned, ref, ref_mut)]\npub enum @N@ { A(i32) }', ("special", "single-variant-enum", "none", "plain", "conv"))
    yield Item(["TryFrom"], "#[try_from(repr)]\n#[repr(u8)]\npub enum @N@ { A = 3 }", ("special", "single-variant-enum", "none", "plain", "try_from"))
    # generic Error whose source type mentions the parameter in a later generic argument, next to concrete ones
    yield Item(["Error", "Display", "Debug"], '#[display("e")]\npub struct @N@<T> { source: Two<u8, T> }', ("special", "error-generic-arg-source", "T", "plain", "second-arg"))
    yield Item(["Error", "Display", "Debug"], '#[display("e")]\npub enum @N@<T, U> { A(Two<U, T>), B { source: Two<::std::vec::Vec<u8>, ::std::boxed::Box<T>> }, C(U, U) }', ("special", "error-generic-arg-source", "T,U", "plain", "enum"))
    # generic Error whose source is an associated type of a parameter (the bound must be put on the projection)
    yield Item(["Error", "Display", "Debug"], '#[display("e")]\npub struct @N@<T: Tr> { source: <T as Tr>::Assoc }', ("special", "error-assoc-source", "T", "plain", "qself"))
    yield Item(["Error", "Display", "Debug"], '#[display("e")]\npub struct @N@<T: Tr>(T::Assoc);', ("special", "error-assoc-source", "T", "plain", "path"))
    yield Item(["Error", "Display", "Debug"], '#[display("e")]\npub enum @N@<T: Tr, U> { A { source: <T as Tr>::Assoc }, B(::std::boxed::Box<U>), C }', ("special", "error-assoc-source", "T,U", "plain", "enum"))
    # a tuple TYPE listed for an item with a single field is one conversion source/target, not a field list
    yield Item(["From"], "#[from((::std::net::IpAddr, u16))]\npub struct @N@(::std::net::SocketAddr);", ("special", "tuple-type-for-single-field", "none", "plain", "from"))
    yield Item(["From", "Into"], "#[from((i32, i64))]\n#[into((i32, i64))]\npub struct @N@((i32, i64));", ("special", "tuple-type-for-single-field", "none", "plain", "from+into"))
    yield Item(["From"], "pub enum @N@ { #[from((::std::net::IpAddr, u16))] A(::std::net::SocketAddr), B(u8) }", ("special", "tuple-type-for-single-field", "none", "plain", "from-variant"))
    yield Item(["Into"], "pub struct @N@ { #[into((i32, i64))] a: (i32, i64), b: u8 }", ("special", "tuple-type-for-single-field", "none", "plain", "into-field"))
    # ?Sized parameters
    yield Item(["Display", "Debug"], "pub struct @N@<T: ?::core::marker::Sized>(T);", ("special", "unsized-tail", "T:?Sized", "plain", "-"))
    yield Item(["Debug"], "pub struct @N@<T: ?::core::marker::Sized> { a: u8, b: T }", ("special", "unsized-tail", "T:?Sized", "plain", "-"))
    yield Item(["Deref", "DerefMut", "AsRef", "AsMut", "From", "Constructor"], "pub struct @N@<T: ?::core::marker::Sized>(::std::boxed::Box<T>);", ("special", "boxed-unsized", "T:?Sized", "plain", "-"))
    yield Item(["Deref"], "#[deref(forward)]\npub struct @N@<T: ?::core::marker::Sized>(::std::boxed::Box<T>);", ("special", "boxed-unsized", "T:?Sized", "plain", "forward"))
    yield Item(["Display"], '#[display("{}", _0)]\npub struct @N@<\'a, T: ?::core::marker::Sized>(&\'a T);', ("special", "ref-unsized", "'a,T:?Sized", "plain", "attr"))
    # unions: Display-like derives with a format attribute (the only documented union support)
    for tr in DISPLAY_LIKE:
        yield Item([tr], '#[%s("union text")]\npub union @N@ { a: u8, b: u16 }' % ATTR_OF[tr], ("special", "union", "none", "plain", tr))
    yield Item(["Display"], '#[display("{}", 1 + 2)]\npub union @N@<T: ::core::marker::Copy> { a: T, b: u16 }', ("special", "union", "T", "plain", "Display+arg"))
    # unsized fields with explicit AsRef targets (run-time glue in src/as.rs must accept `?Sized`)
    yield Item(["AsRef"], "#[as_ref([u8])]\npub struct @N@(str);", ("special", "unsized-field", "none", "plain", "as_ref-types"))
    yield Item(["AsRef"], "#[as_ref([u8], ::std::path::Path)]\npub struct @N@(str);", ("special", "unsized-field", "none", "plain", "as_ref-types2"))
    yield Item(["AsRef"], "pub struct @N@ { id: u8, #[as_ref(str, [u8])] key: str }", ("special", "unsized-last-field", "none", "plain", "as_ref-field-types"))
    yield Item(["AsRef", "AsMut"], "#[as_ref([u8])]\n#[as_mut([u8])]\npub struct @N@([u8]);", ("special", "unsized-field", "none", "plain", "own-type"))
    yield Item(["AsRef", "Deref"], "#[as_ref(forward)]\npub struct @N@(str);", ("special", "unsized-field", "none", "plain", "forward"))
    # associated types, trait-bounded where clauses, higher-ranked bounds
    yield Item(["Display", "Debug", "Constructor"], "pub struct @N@<T: Tr>(T::Assoc) where T::Assoc: ::core::marker::Copy;", ("special", "assoc-type", "T:Tr", "plain", "-"))
    yield Item(["Debug", "From", "Constructor"], "pub struct @N@<T: Tr> { a: <T as Tr>::Assoc, b: ::core::marker::PhantomData<T> }", ("special", "assoc-type-qualified", "T:Tr", "plain", "-"))
    yield Item(["Debug", "From", "Constructor", "Deref"], "pub struct @N@<F>(F) where F: for<'x> ::core::ops::Fn(&'x u8) -> &'x u8;", ("special", "hrtb-where", "F:Fn", "plain", "-"))
    yield Item(["From", "Into", "Constructor", "Debug"], "pub struct @N@<'a, 'b: 'a, T: 'b + ::core::fmt::Debug>(&'a &'b T, ::std::vec::Vec<::core::option::Option<&'b T>>);", ("special", "nested-lifetimes", "'a,'b,T", "plain", "-"))
    yield Item(["Add", "Sub", "Not", "Neg", "AddAssign", "Sum", "From", "Constructor"], "pub struct @N@<T, const A: usize, const B: usize>(T, T);", ("special", "two-consts-unused", "T,constA,constB", "plain", "-"))
    yield Item(["Index", "IndexMut", "IntoIterator", "Deref", "DerefMut", "AsRef", "AsMut"], "pub struct @N@<T, const N: usize>([T; N]);", ("special", "array-field", "T,constN", "plain", "-"))
    yield Item(["Debug", "Display"], '#[display("{a:?} {}", b.len())]\npub struct @N@<T, const N: usize> { a: [u8; N], b: ::std::vec::Vec<T> }', ("special", "array-field", "T,constN", "plain", "attr"))
    yield Item(["IsVariant", "Unwrap", "TryUnwrap", "Debug"], "pub enum @N@<'a, T: 'a + ?::core::marker::Sized> { Borrowed(&'a T), Owned(::std::boxed::Box<T>), Nothing }", ("special", "cow-like", "'a,T:?Sized", "plain", "-"))
    # many fields / many variants
    yield Item(["From", "Into", "Constructor", "Debug", "Add", "Not"], "pub struct @N@(%s);" % ", ".join(["Tag"] * 12), ("special", "12-fields", "none", "plain", "-"))
    yield Item(["From", "IsVariant", "Unwrap", "TryUnwrap", "TryInto", "Debug", "Display"], "pub enum @N@ { %s }" % ", ".join("V%d(%s)" % (i, t) for i, t in enumerate(["u8", "u16", "u32", "u64", "u128", "i8", "i16", "i32", "i64", "i128", "f32", "f64", "bool", "char"])),
               ("special", "14-variants", "none", "plain", "-"))
    # attribute options not covered elsewhere
    yield Item(["Display"], '#[display("{}", ::core::format_args!("{_0:o}"))]\npub struct @N@(u8);', ("special", "nested-format-args", "none", "plain", "attr"))
    yield Item(["Display"], '#[display("{_0:>+08.3e} {_1:#x?} {_2:w$}", w = 3)]\npub struct @N@(f64, u8, u16);', ("special", "rich-spec", "none", "plain", "attr"))
    yield Item(["Display"], '#[display(rename_all = "SCREAMING_SNAKE_CASE")]\npub enum @N@ { FooBar, #[display(rename_all = "kebab-case")] BazQux, Plain(u8) }', ("special", "rename_all", "none", "plain", "rename_all"))
    yield Item(["Pointer"], '#[pointer("{a:p} {:p}", *b)]\npub struct @N@<\'x> { a: &\'x u8, b: &\'x u16 }', ("special", "pointer", "'x", "plain", "attr"))
    yield Item(["From"], "#[from(::std::borrow::Cow<'static, str>, ::std::string::String, &'static str)]\npub struct @N@(::std::borrow::Cow<'static, str>);", ("special", "from-types-paths", "none", "plain", "types"))
    yield Item(["Into"], "#[into(ref((::std::string::String, f64)))]\npub struct @N@ { #[into(ref)] #[into(skip)] a: u8, b: ::std::string::String, c: f64 }", ("special", "into-ref-skip", "none", "plain", "ref,skip"))
    yield Item(["TryInto"], "#[try_into(owned, ref, ref_mut)]\npub enum @N@<T, const N: usize> { A([T; N]), B(::std::vec::Vec<T>), #[try_into(ignore)] C }", ("special", "try_into-generic", "T,constN", "plain", "owned,ref,ref_mut"))
    yield Item(["Error", "Display"], '#[display("e")]\npub struct @N@<E> { #[error(source)] inner: E, #[error(not(backtrace))] backtrace: u8 }', ("special", "error-not-backtrace", "E", "plain", "source,not(backtrace)"), std_derives=["Debug"])
    yield Item(["Error", "Display"], '#[display("e")]\npub struct @N@(::std::boxed::Box<dyn ::std::error::Error + ::core::marker::Send + ::core::marker::Sync + \'static>);', ("special", "error-boxed-dyn", "none", "plain", "inferred"), std_derives=["Debug"])


def cross_items():
    """Attribute combinations whose handling needs two code sites to agree (added after seeded-defect misses)."""
    for g in GENERICS:
        if g.lt or g.U:
            continue
        E = g.T or "Leaf"
        disp = '#[display("e")]\n'
        # ignored / other fields in front of, between and behind the source
        yield Item(["Error", "Display"], "%spub struct @N@%s%s { #[error(ignore)] id: u32, source: %s }" % (disp, g.g, g.w, E), ("error", "named-ignore-first", g.key, "plain", "ignore+inferred"), std_derives=["Debug"])
        yield Item(["Error", "Display"], "%spub struct @N@%s(#[error(ignore)] u32, #[error(source)] %s)%s;" % (disp, g.g, E, g.w), ("error", "tuple-ignore-first", g.key, "plain", "ignore+source"), std_derives=["Debug"])
        yield Item(["Error", "Display"], "%spub struct @N@%s(#[error(source)] %s, #[error(ignore)] u32, u8)%s;" % (disp, g.g, E, g.w), ("error", "tuple-ignore-middle", g.key, "plain", "source+ignore"), std_derives=["Debug"])
        vs = ['#[display("a")] A(#[error(ignore)] u8, #[error(source)] %s)' % E, '#[display("b")] B { #[error(ignore)] x: u8, y: u16, source: %s }' % E,
              '#[display("c")] #[error(ignore)] C(#[error(source)] Leaf, u8)']
        yield Item(["Error", "Display"], enum_src(g, vs), ("error", "enum-ignore-before-source", g.key, "plain", "ignore+source"), std_derives=["Debug"])
        # From: forward / types / skip on variants in every order
        w = "::std::vec::Vec<%s>" % g.T if g.T else "i64"
        y = "[%s; 2]" % g.U if g.U else "u16"
        yield Item(["From"], enum_src(g, ["#[from(forward)] A(%s)" % w, "B { x: u8, y: %s }" % y, "U"]), ("from-enum", "forward-first", g.key, "plain", "forward"))
        yield Item(["From"], enum_src(g, ["Plain(u32)", "#[from] A(%s)" % w, "#[from(forward)] B { x: u8, y: %s }" % y]), ("from-enum", "unannotated-first", g.key, "plain", "#[from],forward"))
        yield Item(["From"], enum_src(g, ["#[from(skip)] S(u32)", "A(%s)" % w, "#[from(u8, u16)] C(u64)"]), ("from-enum", "skip-first", g.key, "plain", "skip,types"))
        # selection of a non-first tuple field
        v = "::std::vec::Vec<%s>" % (g.T or "i32")
        others = [t for t in param_payload(g) if t != g.T] or ["u8"]
        yield Item(["Deref", "DerefMut", "Index", "IndexMut", "IntoIterator"], struct_src(g, False, others + [v], attrs=["#[deref(ignore)] #[deref_mut(ignore)] #[index(ignore)] #[index_mut(ignore)] #[into_iterator(ignore)]"] * len(others) + [""]),
                   ("deleg-all", ("tuple", "last-selected"), g.key, "plain", "ignore-others"))
        yield Item(["Deref", "DerefMut", "Index", "IndexMut", "IntoIterator"], struct_src(g, False, others + [v], attrs=[""] * len(others) + ["#[deref] #[deref_mut] #[index] #[index_mut] #[into_iterator]"]),
                   ("deleg-all", ("tuple", "last-selected"), g.key, "plain", "attr"))
        # Into with skipped fields in front
        if not (g.T or g.lt):
            yield Item(["Into"], struct_src(g, False, ["i8", "i16", "i32"], attrs=["#[into(skip)]", "", ""]), ("into", ("tuple", "skip-first"), g.key, "plain", "skip"))
            yield Item(["Into"], struct_src(g, False, ["i8", "i16", "i32"], attrs=["#[into(skip)]", "", ""], item_attrs="#[into((i64, i128))]\n#[into(owned, ref, ref_mut)]\n"), ("into", ("tuple", "skip-first"), g.key, "plain", "skip+types"))
            yield Item(["Into"], struct_src(g, False, ["i8", "i16"], item_attrs="#[into(ref)]\n#[into(ref_mut)]\n"), ("into", ("tuple", 2), g.key, "plain", "ref;ref_mut"))
            yield Item(["Into"], struct_src(g, False, ["i8", "i16"], item_attrs="#[into(owned)]\n#[into(ref_mut)]\n"), ("into", ("tuple", 2), g.key, "plain", "owned;ref_mut"))
        # accessors: ignored variant first, reference selections alone
        pay = param_payload(g, "::std::vec::Vec<{}>") if (g.T or g.lt) else ["i32"]
        vs = ["#[is_variant(ignore)] #[unwrap(ignore)] #[try_unwrap(ignore)] Hidden(u8)", "Alpha(%s)" % pay[0], "Beta(u16, %s)" % pay[-1], "Unit"]
        yield Item(["IsVariant", "Unwrap", "TryUnwrap"], enum_src(g, vs), ("accessors", "ignored-first", g.key, "plain", "ignore"))
        for sel in ("ref", "ref_mut", "owned"):
            yield Item(["Unwrap", "TryUnwrap"], enum_src(g, ["Alpha(%s)" % pay[0], "Beta(u16, %s)" % pay[-1], "Unit"], item_attrs="#[unwrap(%s)]\n#[try_unwrap(%s)]\n" % (sel, sel)), ("accessors", "tuple+unit", g.key, "plain", sel))
        vs = ["Id(u32)", "Name(%s)" % pay[0], "Count(u32)", "Pair(u8, u8)", "Unit", "Other(u8, u8)"]
        yield Item(["TryInto"], enum_src(g, vs), ("try_into", "non-adjacent-groups", g.key, "plain", "-"))


def macro_items():
    """Items generated by `macro_rules!` macros: field types, listed types, literals and discriminants arrive as
    `$t:ty` / `$l:literal` / `$e:expr` fragments, i.e. wrapped in invisible groups (syn: `Type::Group`, `Expr::Group`).
    Only usable through the real compiler (the in-process harness cannot produce such token streams from text)."""
    def m(derives, params, body, call, tag, std=()):
        src = "macro_rules! @N@_m { (%s) => { %s } }\n@N@_m!(%s);" % (params, body, call)
        return Item(derives, src, ("macro", tag, "none", "plain", "-"), std_derives=list(std))
    yield m(["From", "Into", "Constructor", "Display", "Debug", "Deref", "DerefMut", "AsRef", "AsMut", "Add", "Sub", "Mul", "Not", "Neg", "AddAssign", "MulAssign", "FromStr", "Sum"],
            "$t:ty", "@DERIVE@ pub struct @N@(pub $t);", "i32", "ty-newtype")
    yield m(["From", "Into", "Constructor", "Debug", "Add", "Not", "AddAssign"], "$t:ty, $u:ty", "@DERIVE@ pub struct @N@ { pub a: $t, pub b: $u }", "i32, u8", "ty-named2")
    yield m(["From", "TryInto", "IsVariant", "Unwrap", "TryUnwrap", "Display", "Debug"], "$t:ty, $u:ty", "@DERIVE@ pub enum @N@ { A($t), B($u), C }", "i32, u8", "ty-enum")
    yield m(["Debug", "From", "Constructor"], "$t:ty", "@DERIVE@ pub struct @N@<T>(pub $t, pub T);", "::std::vec::Vec<T>", "ty-generic-fragment")
    yield m(["Error", "Display", "Debug"], "$t:ty", "@DERIVE@ #[display(\"e\")] pub struct @N@ { source: $t }", "::std::fmt::Error", "ty-error-source")
    yield m(["Error", "Display", "Debug"], "$t:ty", "@DERIVE@ #[display(\"e\")] pub struct @N@($t);", "::std::fmt::Error", "ty-error-source-tuple")
    yield m(["Error", "Display", "Debug"], "$t:ty", "@DERIVE@ #[display(\"e\")] pub enum @N@ { A($t), B { source: $t }, C }", "::std::fmt::Error", "ty-error-source-enum")
    yield m(["From"], "$t:ty", "@DERIVE@ #[from($t, i16)] pub struct @N@(pub i64);", "i32", "ty-in-from-list")
    yield m(["Into"], "$t:ty", "@DERIVE@ #[into($t, i64)] pub struct @N@(pub i32);", "i128", "ty-in-into-list")
    yield m(["AsRef", "AsMut"], "$t:ty", "@DERIVE@ pub struct @N@ { #[as_ref($t)] #[as_mut($t)] pub a: ::std::vec::Vec<u8> }", "[u8]", "ty-in-as_ref-list")
    yield m(["Display", "Debug"], "$l:literal", "@DERIVE@ #[display($l, x)] #[debug($l, x)] pub struct @N@ { pub x: i32 }", '"{0}-{0:>4}"', "literal-fragment")
    yield m(["Display"], "$l:literal", "@DERIVE@ pub enum @N@ { #[display($l, x)] A { x: i32 }, #[display(\"b\")] B }", '"{:?}"', "literal-fragment-variant")
    yield m(["TryFrom"], "$e:expr", "@DERIVE@ #[try_from(repr)] #[repr(u8)] pub enum @N@ { A = $e, B, C = 9, D }", "1 + 2", "expr-discriminant", std=["::core::fmt::Debug", "::core::cmp::PartialEq"])
    yield m(["FromStr", "Display", "IsVariant", "Unwrap", "TryUnwrap"], "$a:ident, $b:ident", "@DERIVE@ pub enum @N@ { $a, $b }", "First, r#Second", "ident-variants")


def typekind_items():
    """Field types of every syntactic kind (derives that look at a field's type must not assume a plain path)."""
    kinds = [("ref-str", "&'static str"), ("ref-slice", "&'static [u8]"), ("array", "[u8; 4]"), ("tuple", "(u8, i16)"), ("unit", "()"),
             ("fn-ptr", "fn(u8) -> u8"), ("raw-ptr", "*const u8"), ("qself", "<u8 as ::core::ops::Add>::Output"),
             ("nested-generic", "::core::option::Option<::std::boxed::Box<[u16; 2]>>"), ("ref-dyn", "&'static (dyn ::core::fmt::Debug + ::core::marker::Sync)"),
             ("box-dyn", "::std::boxed::Box<dyn ::core::fmt::Debug>"), ("ref-ref", "&'static &'static i32"), ("tuple1", "(u8,)"),
             ("array-of-tuples", "[(u8, &'static str); 2]"), ("fn-ptr-generic-ret", "fn() -> ::std::vec::Vec<(u8, u8)>")]
    for key, ty in kinds:
        # (`impl From<S> for <u8 as Add>::Output` overlaps with core's reflexive impl as far as rustc can tell)
        conv = [] if key == "qself" else ["From", "Into"]
        yield Item(["Constructor", "Deref", "DerefMut", "AsRef", "AsMut", "Debug"] + conv, "pub struct @N@(%s);" % ty, ("typekind", "tuple1", "none", "plain", key))
        yield Item(["Constructor", "Debug"] + conv, "pub struct @N@ { a: %s, r#type: u8 }" % ty, ("typekind", "named2", "none", "plain", key))
        yield Item(["Display", "Debug"], '#[display("{_0:?}")]\n#[debug("{_0:?}")]\npub struct @N@(%s);' % ty, ("typekind", "fmt-attr", "none", "plain", key))
        # (a projection type overlaps with everything as far as coherence can tell; a `()` field next to a unit variant
        # makes two `TryFrom<E> for ()` groups)
        enum_ds = ["IsVariant", "Unwrap", "TryUnwrap", "Debug"] + ([] if key in ("qself", "unit") else ["From", "TryInto"])
        yield Item(enum_ds, "pub enum @N@ { A(%s), B(i128), C, D(%s, u64) }" % (ty, ty), ("typekind", "enum", "none", "plain", key))
        yield Item(["Error", "Display", "Debug"], '#[display("e")]\npub struct @N@ { #[error(not(source))] source: %s, other: %s }' % (ty, ty), ("typekind", "error-not-source", "none", "plain", key))
    # generic flavours: the parameter sits inside each kind of type
    gk = [("ref", "&'a T"), ("array", "[T; 2]"), ("tuple", "(T, u8)"), ("fn-ptr", "fn(T) -> T"), ("raw-ptr", "*const T"), ("slice-ref", "&'a [T]"), ("nested", "::core::option::Option<&'a T>")]
    for key, ty in gk:
        yield Item(["From", "Constructor", "Deref", "AsRef"], "pub struct @N@<'a, T: 'a>(%s, ::core::marker::PhantomData<&'a T>);" % ty if False else "pub struct @N@<'a, T: 'a> { #[deref] #[as_ref] a: %s, b: ::core::marker::PhantomData<&'a T> }" % ty,
                   ("typekind-generic", "named2", "'a,T", "plain", key))
        yield Item(["Debug"], "pub struct @N@<'a, T: 'a>(%s, ::core::marker::PhantomData<&'a T>);" % ty, ("typekind-generic", "debug", "'a,T", "plain", key))


def usage_items():
    """Generic items together with a use site that instantiates them with a type meeting exactly the documented
    requirements (an impl that silently carries an extra bound only shows at such an instantiation). Real compiler only."""
    def u(derives, body, tag):
        return Item(derives, body, ("usage", tag, "T", "plain", "-"))
    yield u(["Mul", "Div"], "#[allow(non_camel_case_types, non_snake_case, dead_code)] pub struct @N@_Only(pub u8);\n"
            "impl ::core::ops::Mul<::rt::Scalar> for @N@_Only { type Output = @N@_Only; fn mul(self, _r: ::rt::Scalar) -> @N@_Only { self } }\n"
            "impl ::core::ops::Div<::rt::Scalar> for @N@_Only { type Output = @N@_Only; fn div(self, _r: ::rt::Scalar) -> @N@_Only { self } }\n"
            "#[allow(non_camel_case_types, non_snake_case)] @DERIVE@ pub struct @N@<T>(pub T);\n"
            "#[allow(non_camel_case_types, non_snake_case, dead_code)] pub fn @N@_use(a: @N@<@N@_Only>, k: ::rt::Scalar) -> @N@<@N@_Only> { (a * k) / k }", "scalar-mul-only-scalar-impl")
    yield u(["MulAssign"], "#[allow(non_camel_case_types, non_snake_case, dead_code)] pub struct @N@_Only(pub u8);\n"
            "impl ::core::ops::MulAssign<::rt::Scalar> for @N@_Only { fn mul_assign(&mut self, _r: ::rt::Scalar) {} }\n"
            "#[allow(non_camel_case_types, non_snake_case)] @DERIVE@ pub struct @N@<T> { pub a: T }\n"
            "#[allow(non_camel_case_types, non_snake_case, dead_code)] pub fn @N@_use(a: &mut @N@<@N@_Only>, k: ::rt::Scalar) { *a *= k; }", "scalar-mul-assign-only-scalar-impl")
    # a single-field struct multiplied by a scalar that is not `Copy` (mul.md: only several fields need `Copy`)
    yield u(["Mul", "Rem"], "#[allow(non_camel_case_types, non_snake_case, dead_code)] pub struct @N@_Rhs(pub ::std::string::String);\n#[allow(non_camel_case_types, non_snake_case, dead_code)] pub struct @N@_F(pub u8);\n"
            "impl ::core::ops::Mul<@N@_Rhs> for @N@_F { type Output = @N@_F; fn mul(self, _r: @N@_Rhs) -> @N@_F { self } }\n"
            "impl ::core::ops::Rem<@N@_Rhs> for @N@_F { type Output = @N@_F; fn rem(self, _r: @N@_Rhs) -> @N@_F { self } }\n"
            "#[allow(non_camel_case_types, non_snake_case)] @DERIVE@ pub struct @N@(pub @N@_F);\n"
            "#[allow(non_camel_case_types, non_snake_case, dead_code)] pub fn @N@_use(a: @N@, k: @N@_Rhs, m: @N@_Rhs) -> @N@ { (a * k) % m }", "scalar-mul-non-copy-rhs")
    yield u(["MulAssign"], "#[allow(non_camel_case_types, non_snake_case, dead_code)] pub struct @N@_Rhs(pub ::std::string::String);\n#[allow(non_camel_case_types, non_snake_case, dead_code)] pub struct @N@_F(pub u8);\n"
            "impl ::core::ops::MulAssign<@N@_Rhs> for @N@_F { fn mul_assign(&mut self, _r: @N@_Rhs) {} }\n"
            "#[allow(non_camel_case_types, non_snake_case)] @DERIVE@ pub struct @N@ { pub r#type: @N@_F }\n"
            "#[allow(non_camel_case_types, non_snake_case, dead_code)] pub fn @N@_use(a: &mut @N@, k: @N@_Rhs) { *a *= k; }", "scalar-mul-assign-non-copy-rhs")
    yield u(["Error", "Display", "Debug"], "#[allow(non_camel_case_types, non_snake_case, dead_code)] pub struct @N@_Opaque;\n"
            "#[allow(non_camel_case_types, non_snake_case)] @DERIVE@ #[display(\"request {id} failed\")] pub struct @N@<Ctx> { id: u32, #[debug(skip)] context: Ctx }\n"
            "#[allow(non_camel_case_types, non_snake_case, dead_code)] pub fn @N@_use() { fn is_error<E: ::std::error::Error>() {} is_error::<@N@<@N@_Opaque>>(); }", "error-param-without-fmt")
    yield u(["Error", "Display", "Debug"], "#[allow(non_camel_case_types, non_snake_case, dead_code)] pub struct @N@_Opaque;\n"
            "#[allow(non_camel_case_types, non_snake_case)] @DERIVE@ #[display(\"e\")] pub enum @N@<K> { Io(::std::fmt::Error), BadKey(#[error(not(source))] #[debug(skip)] K) }\n"
            "#[allow(non_camel_case_types, non_snake_case, dead_code)] pub fn @N@_use() { fn is_error<E: ::std::error::Error>() {} is_error::<@N@<@N@_Opaque>>(); }", "error-enum-param-without-fmt")
    yield u(["Display"], "#[allow(non_camel_case_types, non_snake_case, dead_code)] pub struct @N@_Opaque;\n"
            "#[allow(non_camel_case_types, non_snake_case)] @DERIVE@ #[display(\"<{inner}>\", inner = 1 + 1)] pub struct @N@<T> { inner: T }\n"
            "#[allow(non_camel_case_types, non_snake_case, dead_code)] pub fn @N@_use() { fn is_display<E: ::core::fmt::Display>() {} is_display::<@N@<@N@_Opaque>>(); }", "display-alias-shadows-field")
    yield u(["Debug"], "#[allow(non_camel_case_types, non_snake_case, dead_code)] pub struct @N@_Opaque;\n"
            "#[allow(non_camel_case_types, non_snake_case)] @DERIVE@ pub struct @N@<T> { #[debug(\"{secret}\", secret = \"***\")] secret: T, n: u8 }\n"
            "#[allow(non_camel_case_types, non_snake_case, dead_code)] pub fn @N@_use() { fn is_debug<E: ::core::fmt::Debug>() {} is_debug::<@N@<@N@_Opaque>>(); }", "debug-alias-shadows-field")
    yield u(["From", "Into"], "#[allow(non_camel_case_types, non_snake_case, dead_code)] pub struct @N@_Opaque;\n"
            "#[allow(non_camel_case_types, non_snake_case)] @DERIVE@ pub struct @N@<T>(pub ::std::vec::Vec<T>);\n"
            "#[allow(non_camel_case_types, non_snake_case, dead_code)] pub fn @N@_use(v: ::std::vec::Vec<@N@_Opaque>) -> ::std::vec::Vec<@N@_Opaque> { @N@::from(v).into() }", "from-into-opaque-param")


def all_items():
    return list(itertools.chain(cross_items(), ops_items(), fmt_items(), conv_items(), deleg_items(), enum_access_items(), error_items(), special_items(), typekind_items()))


def hostile_variants(item):
    """Same item with #[deprecated] / uninhabited-type decorations (C01: no warnings of its own)."""
    return []
