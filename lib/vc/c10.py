"""C10 - derived operators act field-wise with operand order preserved.

Generated programs derive the 24 operator traits on structs/enums whose fields are `rt::Tag`
(a non-commutative, value-mixing operand that logs every operator call).  For every operation the
program logs the observed result fields and the observed operator-call log next to the reference
(`rt::mix` applied field-wise to the raw operand values); the offline checker compares.
"""
from . import common, l2
from .l2 import Case

ADD_LIKE = [("Add", "add", "+"), ("Sub", "sub", "-"), ("BitAnd", "bitand", "&"), ("BitOr", "bitor", "|"), ("BitXor", "bitxor", "^")]
MUL_LIKE = [("Mul", "mul", "*"), ("Div", "div", "/"), ("Rem", "rem", "%"), ("Shr", "shr", ">>"), ("Shl", "shl", "<<")]
ADD_ASSIGN = [("AddAssign", "add", "+="), ("SubAssign", "sub", "-="), ("BitAndAssign", "bitand", "&="), ("BitOrAssign", "bitor", "|="), ("BitXorAssign", "bitxor", "^=")]
MUL_ASSIGN = [("MulAssign", "mul", "*="), ("DivAssign", "div", "/="), ("RemAssign", "rem", "%="), ("ShrAssign", "shr", ">>="), ("ShlAssign", "shl", "<<=")]
UNARY = [("Not", "not", "!"), ("Neg", "neg", "-")]
FNAMES = ["x", "y", "z", "w", "r#type", "r#fn"]


class Shape:
    """A struct: tuple or named, n fields, optionally generic over the field type(s).  `hetero` alternates two operand
    types (Tag, Tag2 / T, U) so that the fields are of differing types."""

    def __init__(self, named, n, generic, raw=False, hetero=False):
        self.named, self.n, self.generic, self.hetero = named, n, generic, hetero
        names = FNAMES + ["f%d" % i for i in range(6, 16)]
        self.fnames = (["r#type", "r#fn", "r#loop", "r#match"][:n] if raw else names[:n]) if named else [str(i) for i in range(n)]
        self.second = [hetero and i % 2 == 1 for i in range(n)]
        self.two = hetero and n > 1

    def fty(self, i):
        if self.generic:
            return "U" if self.second[i] else "T"
        return "Tag2" if self.second[i] else "Tag"

    def pf(self, i):
        """operator-name prefix of field i's operand type"""
        return "t2." if self.second[i] else ""

    def lit(self, i, v):
        return "%s(%d)" % ("Tag2" if self.second[i] else "Tag", v)

    def decl(self, name, derives, attrs=""):
        g = ("<T, U>" if self.two else "<T>") if self.generic else ""
        if self.named:
            body = " { %s }" % ", ".join("%s: %s" % (f, self.fty(i)) for i, f in enumerate(self.fnames))
        else:
            body = "(%s);" % ", ".join(self.fty(i) for i in range(self.n))
        return "#[derive(%s)]\n%s\npub struct %s%s%s" % (", ".join("derive_more::" + d for d in derives), attrs, name, g, body)

    def ty(self, name):
        return name + (("<Tag, Tag2>" if self.two else "<Tag>") if self.generic else "")

    def make(self, name, vals):
        if self.named:
            return "%s { %s }" % (name, ", ".join("%s: %s" % (f, self.lit(i, v)) for i, (f, v) in enumerate(zip(self.fnames, vals))))
        return "%s(%s)" % (name, ", ".join(self.lit(i, v) for i, v in enumerate(vals)))

    def fields(self, var):
        return "vec![%s]" % ", ".join("%s.%s.0" % (var, f) for f in self.fnames)

    def key(self):
        return ("named" if self.named else "tuple", self.n, "generic" if self.generic else "concrete") + (("hetero",) if self.hetero else ())


def sorted_ops():
    return "{ let mut v: Vec<String> = take_ops().split(';').filter(|s| !s.is_empty()).map(|s| s.to_string()).collect(); v.sort(); v.join(\";\") }"


def struct_case(cid, sh, rng, maxlen=3):
    n = sh.n
    la = [rng.randrange(1, 1000) for _ in range(n)]
    lb = [rng.randrange(1000, 2000) for _ in range(n)]
    sc = rng.randrange(2000, 3000)
    items = []
    body = []
    plain = [d for d, _, _ in ADD_LIKE + MUL_LIKE + ADD_ASSIGN + MUL_ASSIGN + UNARY] + ["Sum"]
    items.append(sh.decl("P", plain))
    fwd_attrs = "\n".join("#[%s(forward)]" % m for _, m, _ in MUL_LIKE) + "\n" + "\n".join("#[%s_assign(forward)]" % m for _, m, _ in MUL_ASSIGN)
    items.append(sh.decl("F", [d for d, _, _ in MUL_LIKE + MUL_ASSIGN] + ["Product"], fwd_attrs))
    nexp = 0

    def binop(T, sym, opname, rhs_expr, rhs_vals, scalar):
        nonlocal nexp
        tag = opname + ("_scalar" if scalar else "")
        body.append("{ let a: %s = %s; let b = %s; let _ = take_ops();" % (sh.ty(T), sh.make(T, la), rhs_expr))
        body.append("  let r = a %s b; let ops = %s;" % (sym, sorted_ops()))
        want = "vec![%s]" % ", ".join("mix(\"%s%s\", %d, %d)" % (sh.pf(i), tag, l, r) for i, (l, r) in enumerate(zip(la, rhs_vals)))
        body.append("  cmp(\"%s.%s.result\", &format!(\"{:?}\", %s), &format!(\"{:?}\", %s));" % (T, tag, sh.fields("r"), want))
        wops = sorted("%s%s(%d,%d)" % (sh.pf(i), tag, l, r) for i, (l, r) in enumerate(zip(la, rhs_vals)))
        body.append("  cmp(\"%s.%s.ops\", &ops, %s); }" % (T, tag, common.rs_str(";".join(wops))))
        nexp += 2

    def assignop(T, sym, opname, rhs_expr, rhs_vals, scalar):
        nonlocal nexp
        tag = opname + ("_scalar" if scalar else "")
        body.append("{ let mut a: %s = %s; let b = %s; let _ = take_ops();" % (sh.ty(T), sh.make(T, la), rhs_expr))
        body.append("  a %s b; let ops = %s;" % (sym, sorted_ops()))
        want = "vec![%s]" % ", ".join("mix(\"%s%s\", %d, %d)" % (sh.pf(i), tag, l, r) for i, (l, r) in enumerate(zip(la, rhs_vals)))
        body.append("  cmp(\"%s.%s_assign.result\", &format!(\"{:?}\", %s), &format!(\"{:?}\", %s));" % (T, tag, sh.fields("a"), want))
        wops = sorted("%s%s_assign%s(%d,%d)" % (sh.pf(i), opname, "_scalar" if scalar else "", l, r) for i, (l, r) in enumerate(zip(la, rhs_vals)))
        body.append("  cmp(\"%s.%s_assign.ops\", &ops, %s); }" % (T, tag, common.rs_str(";".join(wops))))
        nexp += 2

    for d, m, sym in ADD_LIKE:
        binop("P", sym, m, sh.make("P", lb), lb, False)
    for d, m, sym in ADD_ASSIGN:
        assignop("P", sym, m, sh.make("P", lb), lb, False)
    for d, m, sym in MUL_LIKE:
        binop("P", sym, m, "Scalar(%d)" % sc, [sc] * n, True)
        binop("F", sym, m, sh.make("F", lb), lb, False)
    for d, m, sym in MUL_ASSIGN:
        assignop("P", sym, m, "Scalar(%d)" % sc, [sc] * n, True)
        assignop("F", sym, m, sh.make("F", lb), lb, False)
    for d, m, sym in UNARY:
        body.append("{ let a: %s = %s; let _ = take_ops(); let r = %sa; let ops = %s;" % (sh.ty("P"), sh.make("P", la), sym, sorted_ops()))
        want = "vec![%s]" % ", ".join("mix(\"%s%s\", %d, 0)" % (sh.pf(i), m, l) for i, l in enumerate(la))
        body.append("  cmp(\"P.%s.result\", &format!(\"{:?}\", %s), &format!(\"{:?}\", %s));" % (m, sh.fields("r"), want))
        body.append("  cmp(\"P.%s.ops\", &ops, %s); }" % (m, common.rs_str(";".join(sorted("%s%s(%d)" % (sh.pf(i), m, l) for i, l in enumerate(la))))))
        nexp += 2
    # multi-step sequences: the value produced by one derived operator is the operand of the next one
    # (a += b; c = a - c0; d = -c; d *= s; e = !d; e ^= b; ...), compared with the nested field-wise reference
    for rep in range(2):
        steps = []
        exprs = [str(v) for v in la]
        body.append("{ let mut a: %s = %s; let _ = take_ops();" % (sh.ty("P"), sh.make("P", la)))
        for st in range(rng.randrange(3, 7)):
            kind = rng.choice(("bin", "assign", "scalar", "scalar_assign", "unary"))
            if kind in ("bin", "assign"):
                d, m, sym = rng.choice(ADD_LIKE if kind == "bin" else ADD_ASSIGN)
                vals = [rng.randrange(4000, 5000) for _ in range(n)]
                body.append("  a = a %s %s;" % (sym, sh.make("P", vals)) if kind == "bin" else "  a %s %s;" % (sym, sh.make("P", vals)))
                exprs = ["mix(\"%s%s\", %s, %d)" % (sh.pf(i), m, exprs[i], vals[i]) for i in range(n)]
            elif kind in ("scalar", "scalar_assign"):
                d, m, sym = rng.choice(MUL_LIKE if kind == "scalar" else MUL_ASSIGN)
                v = rng.randrange(5000, 6000)
                body.append("  a = a %s Scalar(%d);" % (sym, v) if kind == "scalar" else "  a %s Scalar(%d);" % (sym, v))
                exprs = ["mix(\"%s%s_scalar\", %s, %d)" % (sh.pf(i), m, exprs[i], v) for i in range(n)]
            else:
                d, m, sym = rng.choice(UNARY)
                body.append("  a = %sa;" % sym)
                exprs = ["mix(\"%s%s\", %s, 0)" % (sh.pf(i), m, exprs[i]) for i in range(n)]
            steps.append(kind)
        body.append("  let _ = take_ops(); cmp(\"P.seq%d.result\", &format!(\"{:?}\", %s), &format!(\"{:?}\", vec![%s])); }" % (rep, sh.fields("a"), ", ".join(exprs)))
        nexp += 1
    # Sum / Product: fold from the field-wise empty sum/product
    for T, tr, m, zero in (("P", "sum", "add", "SUM_ZERO"), ("F", "product", "mul", "PRODUCT_ONE")):
        for k in range(0, maxlen + 1):
            rows = [[rng.randrange(3000 + 100 * j, 3100 + 100 * j) for _ in range(n)] for j in range(k)]
            vec = "vec![%s]" % ", ".join(sh.make(T, r) for r in rows) if rows else "Vec::<%s>::new()" % sh.ty(T)
            body.append("{ let v: Vec<%s> = %s; let r: %s = v.into_iter().%s();" % (sh.ty(T), vec, sh.ty(T), tr))
            wants = []
            for i in range(n):
                e = zero
                for r in rows:
                    e = "mix(\"%s%s\", %s, %d)" % (sh.pf(i), m, e, r[i])
                wants.append(e)
            body.append("  cmp(\"%s.%s%d\", &format!(\"{:?}\", %s), &format!(\"{:?}\", vec![%s])); }" % (T, tr, k, sh.fields("r"), ", ".join(wants)))
            nexp += 1
    return Case(cid, ("struct",) + sh.key(), "\n".join(items), "\n".join(body), expect=nexp,
                meta={"what": "struct %s" % (sh.key(),), "shape": sh.key()})


def enum_case(cid, rng, generic):
    # variants: (name, kind, nfields)
    kinds = []
    nv = rng.choice((1, 2, 3, 4))
    pool = [("tuple", 1), ("tuple", 2), ("tuple", 3), ("named", 1), ("named", 2), ("unit", 0), ("tuple", 0), ("named", 0)]
    for i in range(nv):
        k, n = rng.choice(pool)
        kinds.append(("V%d" % i, k, n))
    has_unit = any(k == "unit" for _, k, _ in kinds)
    if not any(n for _, _, n in kinds):
        generic = False  # an unused type parameter is rustc's error, not the derive's
    ty = "T" if generic else "Tag"
    g = "<T>" if generic else ""
    E = "E<Tag>" if generic else "E"

    def vdecl(name, k, n):
        if k == "unit":
            return name
        if k == "tuple":
            return "%s(%s)" % (name, ", ".join([ty] * n))
        return "%s { %s }" % (name, ", ".join("%s: %s" % (FNAMES[i], ty) for i in range(n)))

    def vmake(name, k, n, vals):
        if k == "unit":
            return "E::%s" % name
        if k == "tuple":
            return "E::%s(%s)" % (name, ", ".join("Tag(%d)" % v for v in vals))
        return "E::%s { %s }" % (name, ", ".join("%s: Tag(%d)" % (FNAMES[i], v) for i, v in enumerate(vals)))

    def vpat(name, k, n):
        if k == "unit":
            return "E::%s" % name, []
        vs = ["f%d" % i for i in range(n)]
        if k == "tuple":
            return "E::%s(%s)" % (name, ", ".join(vs)), vs
        return "E::%s { %s }" % (name, ", ".join("%s: %s" % (FNAMES[i], vs[i]) for i in range(n))), vs

    derives = [d for d, _, _ in ADD_LIKE + MUL_LIKE + UNARY]
    attrs = "\n".join("#[%s(forward)]" % m for _, m, _ in MUL_LIKE)
    items = ["#[derive(%s)]\n%s\npub enum E%s { %s }" % (", ".join("derive_more::" + d for d in derives), attrs, g, ", ".join(vdecl(*v) for v in kinds))]
    arms = []
    for name, k, n in kinds:
        pat, vs = vpat(name, k, n)
        arms.append("%s => format!(\"%s{:?}\", vec![%s] as Vec<u64>)," % (pat, name, ", ".join("%s.0" % v for v in vs)))
    items.append("pub fn d(e: &%s) -> String { match e { %s } }" % (E, " ".join(arms)))
    items.append("pub fn db(r: Result<%s, derive_more::BinaryError>) -> String { match r { Ok(e) => format!(\"Ok({})\", d(&e)), "
                 "Err(derive_more::BinaryError::Mismatch(_)) => \"Err(Mismatch)\".to_string(), Err(derive_more::BinaryError::Unit(_)) => \"Err(Unit)\".to_string() } }" % E)
    body = []
    nexp = 0
    for d_, m, sym in ADD_LIKE + MUL_LIKE:
        for (an, ak, ann) in kinds:
            for (bn, bk, bnn) in kinds:
                la = [rng.randrange(1, 1000) for _ in range(ann)]
                lb = [rng.randrange(1000, 2000) for _ in range(bnn)]
                if an != bn:
                    want = common.rs_str("Err(Mismatch)")
                    wops = ""
                elif ak == "unit":
                    want = common.rs_str("Err(Unit)")
                    wops = ""
                else:
                    want = "format!(\"Ok(%s{:?})\", vec![%s] as Vec<u64>)" % (an, ", ".join("mix(\"%s\", %d, %d)" % (m, l, r) for l, r in zip(la, lb)))
                    want = "&" + want
                    wops = ";".join(sorted("%s(%d,%d)" % (m, l, r) for l, r in zip(la, lb)))
                body.append("{ let a: %s = %s; let b: %s = %s; let _ = take_ops(); let r = a %s b; let ops = %s;" % (
                    E, vmake(an, ak, ann, la), E, vmake(bn, bk, bnn, lb), sym, sorted_ops()))
                body.append("  cmp(\"E.%s.%s.%s\", &db(r), %s); cmp(\"E.%s.%s.%s.ops\", &ops, %s); }" % (
                    m, an, bn, want if want.startswith("&") else want, m, an, bn, common.rs_str(wops)))
                nexp += 2
    for d_, m, sym in UNARY:
        for (an, ak, ann) in kinds:
            la = [rng.randrange(1, 1000) for _ in range(ann)]
            inner = "format!(\"%s{:?}\", vec![%s] as Vec<u64>)" % (an, ", ".join("mix(\"%s\", %d, 0)" % (m, l) for l in la))
            if has_unit:
                got = "match %sa { Ok(e) => format!(\"Ok({})\", d(&e)), Err(_e) => { let _: derive_more::UnitError = _e; \"Err(Unit)\".to_string() } }" % sym
                want = common.rs_str("Err(Unit)") if ak == "unit" else "&format!(\"Ok({})\", %s)" % inner
            else:
                got = "d(&(%sa))" % sym
                want = "&" + inner
            body.append("{ let a: %s = %s; let r = %s; cmp(\"E.%s.%s\", &r, %s); }" % (E, vmake(an, ak, ann, la), got, m, an, want))
            nexp += 1
    shape = tuple(sorted(set((k, n) for _, k, n in kinds)))
    return Case(cid, ("enum", nv, has_unit, generic, shape), "\n".join(items), "\n".join(body), expect=nexp,
                meta={"what": "enum %s generic=%s" % (kinds, generic)})


def handwritten_ops_case(cid, rng, n, named, generic):
    """`Sum`/`Product` derived next to HAND-WRITTEN `Add`/`Mul` impls of the type (the documentation only requires that the
    type implements `Add`/`Mul`): the result is the fold with the type's own operator from the field-wise empty sum/product,
    whatever that operator does."""
    fns = ["f%d" % i for i in range(n)]
    ty = "T" if generic else "Tag"
    g = "<T>" if generic else ""
    inst = "H<Tag>" if generic else "H"
    decl = ("pub struct H%s { %s }" % (g, ", ".join("pub %s: %s" % (f, ty) for f in fns))) if named else ("pub struct H%s(%s);" % (g, ", ".join("pub " + ty for _ in fns)))
    acc = (lambda v, i: "%s.%s" % (v, fns[i])) if named else (lambda v, i: "%s.%d" % (v, i))

    def build(vals):
        return ("H { %s }" % ", ".join("%s: %s" % (f, v) for f, v in zip(fns, vals))) if named else "H(%s)" % ", ".join(vals)
    items = ["#[derive(Debug, Clone, derive_more::Sum, derive_more::Product)]", decl]
    for tr, m, code in (("Add", "add", "hadd"), ("Mul", "mul", "hmul")):
        body = build(["Tag(mix(\"%s\", %s.0, %s.0))" % (code, acc("self", i), acc("r", i)) for i in range(n)])
        items.append("impl ::core::ops::%s for %s { type Output = %s; fn %s(self, r: %s) -> %s { %s } }" % (tr, inst, inst, m, inst, inst, body))
    out = []
    nexp = 0
    for tr, code, zero in (("sum", "hadd", "SUM_ZERO"), ("product", "hmul", "PRODUCT_ONE")):
        for k in range(0, 4):
            rows = [[rng.randrange(5000 + 100 * j, 5100 + 100 * j) for _ in range(n)] for j in range(k)]
            vec = "vec![%s]" % ", ".join(build(["Tag(%d)" % v for v in r]) for r in rows) if rows else "Vec::<%s>::new()" % inst
            wants = []
            for i in range(n):
                e = zero
                for r in rows:
                    e = "mix(\"%s\", %s, %d)" % (code, e, r[i])
                wants.append(e)
            out.append("{ let v: Vec<%s> = %s; let r: %s = v.into_iter().%s();" % (inst, vec, inst, tr))
            out.append("  cmp(\"H.%s%d\", &format!(\"{:?}\", vec![%s]), &format!(\"{:?}\", vec![%s])); }" % (
                tr, k, ", ".join("%s.0" % acc("r", i) for i in range(n)), ", ".join(wants)))
            nexp += 1
    return Case(cid, ("struct-handwritten-ops", "named" if named else "tuple", n, "generic" if generic else "concrete"), "\n".join(items), "\n".join(out), expect=nexp,
                meta={"what": "Sum/Product next to hand-written Add/Mul on %s" % decl})


def run(ctx):
    rng = ctx.rng
    cases = []
    shapes = [Shape(named, n, generic) for named in (False, True) for n in (1, 2, 3, 4) for generic in (False, True)]
    shapes += [Shape(True, n, g, raw=True) for n in (1, 3) for g in (False, True)]
    # fields of differing types (two operand types / two type parameters), and wide structs
    shapes += [Shape(named, n, generic, hetero=True) for named in (False, True) for n in (2, 3, 5) for generic in (False, True)]
    shapes += [Shape(named, n, False) for named in (False, True) for n in (6, 9, 13)]
    reps = ctx.pick(3, 40)
    k = 0
    for rep in range(reps):
        for sh in shapes:
            # the wide and the two-type shapes are expensive to compile (23 derives over up to 13 fields): every
            # round at the quick tier (3 rounds), a fraction of the 40 thorough rounds
            if rep >= 3 and ((sh.n >= 6 and rep % 8) or (sh.hetero and rep % 2)):
                continue
            cases.append(struct_case("s%d" % k, sh, rng, maxlen=ctx.pick(3, 6)))
            k += 1
    for i in range(ctx.pick(160, 2400)):
        cases.append(enum_case("e%d" % i, rng, generic=(i % 3 == 0)))
    hk = 0
    for rep in range(ctx.pick(1, 6)):
        for named in (False, True):
            for n in (1, 2, 3):
                for generic in (False, True):
                    cases.append(handwritten_ops_case("h%d" % hk, rng, n, named, generic))
                    hk += 1
    ctx.rule = ("types: tuple/named structs with 1-4 Tag fields (concrete and generic, raw-identifier names), with 2-5 fields alternating two operand types (Tag, Tag2 / two type parameters) and with 6-13 fields; chains of 3-6 derived operators where each result is the next operand; enums with 1-4 variants drawn from tuple(0-3)/named(0-2)/unit; "
                "all 24 operator derives, scalar and forward Mul-likes, every ordered pair of variants, iterators of length 0-3 (0-6 thorough); Sum/Product also next to hand-written Add/Mul impls of the type; "
                "distinct = distinct (kind, field layout, arity, genericity, variant-kind set) tuples; every case applies several operators so none is trivial")
    ctx.assumptions += ["rt::Tag implements every operator with a non-commutative mix and logs each call"]
    res = l2.build_and_run(ctx, "ops", cases)
    ctx.extra["build_rounds"] = res.rounds
    l2.check_cmp_events(ctx, cases, res, keyfn=lambda c, e: "mismatch:%s:%s" % (c.cls[0], ".".join(e["kind"].split(".")[:2])))
    for c in cases[:3] + cases[-2:]:
        evs = [e for e in res.events.get(c.id, []) if "got" in e][:3]
        ctx.sample({"case": c.meta.get("what"), "type": c.items.split("\n")[0:3], "events": evs})
