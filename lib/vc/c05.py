"""C05 - caller's formatting flags pass through exactly for bare-placeholder formats, are inert for
every other attribute-driven format, and an out-of-range index is a compile error.

Generated programs (L2) derive the eight Display-like traits and `Debug` (struct-/variant-level
format attribute) on structs and enum variants whose attribute literal is *constructed* by the
generator, so its class is known by construction, following the property text:

* pass-through: no attribute on a single-field type (Display-likes), or a literal that is exactly
  one placeholder without fill/align/sign/`#`/`0`/width/precision/`x?`/`X?` that refers to its only
  argument (implicitly, by index 0, by matching name) or to a field by name;
* inert: every other attribute-driven literal (any single modifier, surrounding text, escapes,
  several placeholders, no placeholder, `.*`, `w$`);
* must-not-compile: a placeholder whose index denotes no argument (`{1}` with one argument, `{0}`
  or `{}` with none); separate `cargo check`, one type per literal;
* literals `write!` rejects for another reason (unused / unknown argument): a rejection is only
  counted; should one compile it has to be inert (it is not in the pass-through class).

For every type, value and a sample of outer specs from the grid
fill{-,*,e'} x align{-,<,^,>} x sign{-,+,-} x # x 0 x width{-,8} x precision{-,.3} (480 specs, each a
literal `format!` call site in the prelude) the program records `format!("{:SPEC<D>}", value)` next to

* pass-through: `format!("{:SPEC<P>}", argument)` - std itself formatting the argument expression
  (re-evaluated outside the derive on an equal value) under the placeholder's trait P with the same
  spec.  A field named in the literal is the field itself, a field passed as an argument is a
  reference to it (display.md), which matters for `{:p}`;
* inert: `format!("{:<D>}", value)` - the same value through the same derive without any flag.

The verdict is computed offline from the event log.  A cheap in-process sweep (L1) over a much larger
set of single-placeholder literals looks at the shape of the expansion (`Trait::fmt(..)` vs `write!`)
only to *select* additional literals for the L2 run; it never produces a verdict by itself.
"""
import re

from . import common, l2
from .common import Inconclusive, rs_str
from .l2 import Case

ALL9 = ["Display", "Debug", "Octal", "LowerHex", "UpperHex", "Pointer", "Binary", "LowerExp", "UpperExp"]
DISPLAY_LIKE = [t for t in ALL9 if t != "Debug"]
LET = {"Display": "", "Debug": "?", "Octal": "o", "LowerHex": "x", "UpperHex": "X", "Pointer": "p",
       "Binary": "b", "LowerExp": "e", "UpperExp": "E"}
ATTR = {"Display": "display", "Debug": "debug", "Octal": "octal", "LowerHex": "lower_hex", "UpperHex": "upper_hex",
        "Pointer": "pointer", "Binary": "binary", "LowerExp": "lower_exp", "UpperExp": "upper_exp"}
RFN = {"": "r_display", "?": "r_debug", "x?": "r_debug_lx", "X?": "r_debug_ux", "o": "r_octal", "x": "r_lower_hex",
       "X": "r_upper_hex", "p": "r_pointer", "b": "r_binary", "e": "r_lower_exp", "E": "r_upper_exp"}
RTRAIT = {"": "Display", "?": "Debug", "x?": "Debug", "X?": "Debug", "o": "Octal", "x": "LowerHex", "X": "UpperHex",
          "p": "Pointer", "b": "Binary", "e": "LowerExp", "E": "UpperExp"}

class XCase(Case):
    """A generated type together with the units (struct / variants) it is made of."""
    __slots__ = ("units",)


INT = [t for t in ALL9 if t != "Pointer"]
FLT = ["Display", "Debug", "LowerExp", "UpperExp"]
TXT = ["Display", "Debug"]
STR = ["Display", "Debug", "Pointer"]


# ---------------------------------------------------------------------------------------------
# outer spec grid

def spec_grid():
    out = []
    for fill in ("", "*", "é"):
        for align in ("", "<", "^", ">"):
            if fill and not align:
                continue        # std: a fill character requires an alignment
            for sign in ("", "+", "-"):
                for alt in ("", "#"):
                    for zero in ("", "0"):
                        for width in ("", "8"):
                            for prec in ("", ".3"):
                                out.append(fill + align + sign + alt + zero + width + prec)
    assert out[0] == "" and len(set(out)) == len(out)
    return out


SPECS = spec_grid()
SPEC_IDX = {s: i for i, s in enumerate(SPECS)}
FIXED_SPECS = [SPEC_IDX[">8"], SPEC_IDX["*<+#08.3"], SPEC_IDX["é^-#8.3"]]


def prelude():
    p = ["use std::fmt as sfmt;",
         "pub static SPECS: [&str; %d] = [%s];" % (len(SPECS), ", ".join(rs_str(s) for s in SPECS)),
         # `&T: Pointer` prints the address of the reference instead of forwarding, so a trait object
         # needs a forwarding wrapper to be formatted as the value behind it
         "pub struct PW<'a>(pub &'a dyn sfmt::Pointer);",
         "impl sfmt::Pointer for PW<'_> { fn fmt(&self, f: &mut sfmt::Formatter<'_>) -> sfmt::Result { sfmt::Pointer::fmt(self.0, f) } }",
         # reference for `{:x?}`/`{:X?}` given to a Debug impl that hands its Formatter to another trait:
         # a hand-written Debug impl doing exactly that
         "pub struct ViaDbg<'a>(pub &'a dyn Fn(&mut sfmt::Formatter<'_>) -> sfmt::Result);",
         "impl sfmt::Debug for ViaDbg<'_> { fn fmt(&self, f: &mut sfmt::Formatter<'_>) -> sfmt::Result { (self.0)(f) } }",
         "pub static N1: i32 = 5;", "pub static N2: i32 = -77;", "pub static N3: i32 = 255;",
         "pub static S_EMPTY: &str = \"\";", "pub static S_AB: &str = \"ab\";", "pub static S_UNI: &str = \"é\U0001F980x\";",
         "pub static S_NL: &str = \"two\\nlines \";", "pub static S_LONG: &str = \"longer than eight\";",
         "pub const K_I32: i32 = 11;", "pub const K_NEG: i32 = -300;", "pub const K_F64: f64 = 3.15;", "pub const K_SPY: Spy = Spy(77);",
         "pub const K_STR: &str = \"konst\";", "pub const K_CHAR: char = 'k';",
         "pub fn spec(i: usize) -> &'static str { SPECS[i] }"]
    for letter, fn in RFN.items():
        tr = RTRAIT[letter]
        arg = "PW(v)" if letter == "p" else "v"
        arms = "\n".join("        %d => format!(\"{:%s%s}\", %s)," % (i, s, letter, arg) for i, s in enumerate(SPECS))
        p.append("#[inline(never)]\npub fn %s(v: &dyn sfmt::%s, i: usize) -> String {\n    match i {\n%s\n        _ => panic!(\"no such spec\"),\n    }\n}" % (fn, tr, arms))
    return "\n".join(p) + "\n"


# ---------------------------------------------------------------------------------------------
# field types

class FType:
    def __init__(self, key, ty, traits, vals, exprs, blind=False):
        self.key, self.ty, self.traits, self.vals, self.exprs = key, ty, traits, vals, exprs
        # std's Debug for str/String/char ignores every flag: such a placeholder cannot tell delegation from `write!`
        self.blind = blind


BLIND = "debug-ignores-flags"


def usable(traits, blind):
    """Placeholder traits under which the caller's flags are visible for this argument."""
    return [t for t in traits if not (blind and t == "Debug")]


# expression templates: `{f}` is the binding of the field inside the attribute (a `&T`, as documented)
FT = {t.key: t for t in [
    FType("spy", "Spy", ALL9, ["Spy(1)", "Spy(23)", "Spy(456)"],
          [("Spy({f}.0 + 1)", ALL9), ("Spy({f}.0 ^ 5)", ALL9)]),
    FType("i32", "i32", INT, ["0", "-7", "255", "i32::MIN", "1234567"],
          [("{f}.wrapping_mul(3)", INT), ("{f}.count_ones()", INT), ("{f}.to_string()", TXT, BLIND), ("f64::from(*{f})", FLT),
           ("(*{f} as u8)", INT), ("({f}.wrapping_add(1), 'q')", ["Debug"])]),
    FType("u8", "u8", INT, ["0", "200", "255"],
          [("{f}.wrapping_add(9)", INT), ("char::from(*{f})", TXT, BLIND)]),
    FType("f64", "f64", FLT, ["1.5", "-0.0", "1e10", "f64::NAN", "f64::INFINITY", "-2.25", "0.1234567"],
          [("{f}.abs()", FLT), ("({f} * 2.0)", FLT), ("{f}.is_nan()", TXT)]),
    FType("str", "&'static str", STR, ["S_EMPTY", "S_AB", "S_UNI", "S_NL", "S_LONG"],
          [("{f}.len()", INT), ("{f}.trim()", STR, BLIND), ("{f}.to_uppercase()", TXT, BLIND)], blind=True),
    FType("string", "String", TXT, ["String::from(S_AB)", "String::from(S_UNI)", "String::new()", "String::from(S_LONG)"],
          [("{f}.as_str()", TXT, BLIND), ("{f}.len()", INT)], blind=True),
    FType("char", "char", TXT, ["'a'", "'é'", "'\\n'", "'\U0001F980'"],
          [("{f}.is_alphabetic()", TXT), ("{f}.to_ascii_uppercase()", TXT, BLIND), ("(*{f} as u32)", INT)], blind=True),
    FType("bool", "bool", TXT, ["true", "false"], [("(!{f})", TXT)]),
    FType("refi32", "&'static i32", ALL9, ["&N1", "&N2", "&N3"],
          [("**{f}", INT), ("{f}.wrapping_add(1)", INT)]),
]}
CONSTS = [("K_I32", INT), ("K_NEG", INT), ("42", INT), ("K_F64", FLT), ("K_SPY", ALL9), ("Spy(9)", ALL9), ("K_STR", TXT, BLIND),
          ("\"lit\"", TXT, BLIND), ("K_CHAR", TXT, BLIND), ("&N1", ALL9), ("S_UNI", STR, BLIND), ("2.5", FLT), ("true", TXT)]


def types_with(trait):
    return [k for k, t in FT.items() if trait in t.traits]


# ---------------------------------------------------------------------------------------------
# literal construction

def ph(arg, spec, letter, ws=False, colon=False):
    s = arg
    t = spec + letter
    if t or colon:
        s += ":" + t
    if ws:
        s += " "
    return "{" + s + "}"


# single modifiers (and a few combinations) that make a placeholder non-trivial
MODS = [("fill-align", "*<"), ("fill-align", "é^"), ("align", ">"), ("align", "<"), ("align", "^"), ("sign", "+"), ("sign", "-"),
        ("alt", "#"), ("zero", "0"), ("width", "8"), ("width", "1"), ("precision", ".3"), ("precision", ".0"),
        ("combo", ">8"), ("combo", "+#08.3"), ("combo", "#010"), ("combo", "^.1")]

PASS_REFS = ["name", "implicit", "index0", "alias"]
ARG_FORMS = ["ident", "deref", "self", "expr", "const", "fmtargs"]


class Unit:
    """One struct or one enum variant together with its attribute and what is expected of it."""

    def __init__(self):
        self.kind = "tuple"       # tuple | named | unit
        self.fields = []          # [(name, member, tykey)]
        self.target = None        # index into fields of the formatted field
        self.generic = False
        self.attr = None          # text inside #[<attr>( ... )] or None
        self.mode = "pt"          # pt | in | obs | ptrident | mustfail | optional
        self.P = None             # placeholder trait for pt
        self.ref = None           # Rust expression of the argument, re-evaluated outside the derive
        self.form = ""            # label of the literal/argument form (goes into violation keys)
        self.needs_struct = False
        self.lit = None


def unraw(name):
    return name[2:] if name.startswith("r#") else name


def fields_for(rng, tykey, arity, named, raw_ok=False):
    """Field list with the target at a random position; other fields are `u8`/`i32` fillers."""
    pos = rng.randrange(arity)
    fs = []
    fillers = ["a", "b"]
    for i in range(arity):
        if i == pos:
            nm = "_%d" % i
            if named:
                # raw identifiers are referred to by their unraw name inside the literal (tests/display.rs `mod raw`)
                nm = rng.choice(("r#type", "r#thing", "r#fn")) if raw_ok and rng.random() < 0.2 else "x"
            fs.append((nm, nm if named else str(i), tykey))
        else:
            nm = fillers.pop(0) if named else "_%d" % i
            fs.append((nm, nm if named else str(i), rng.choice(("u8", "i32"))))
    return fs, pos


def make_arg(rng, form, tykey, fname, member):
    """-> (attribute text, reference text, traits of the argument's type under which flags are visible)"""
    t = FT[tykey] if tykey else None
    if form == "ident":
        return fname, "fr", usable(t.traits, t.blind)
    if form == "deref":
        return "*" + fname, "*fr", usable(t.traits, t.blind)
    if form == "self":
        return "self." + member, "f0", usable(t.traits, t.blind)
    if form == "expr":
        e = rng.choice(t.exprs)
        return e[0].replace("{f}", fname), e[0].replace("{f}", "fr"), usable(e[1], len(e) > 2)
    if form == "const":
        e = rng.choice(CONSTS)
        return e[0], e[0], usable(e[1], len(e) > 2)
    if form == "fmtargs":
        # `fmt::Arguments` ignores every flag (the documented way of suppressing transparency): such a
        # pass-through case holds trivially, it is generated because the documentation shows it
        return "format_args!(\"{%s:?}\")" % unraw(fname), "format_args!(\"{fr:?}\")", TXT
    raise AssertionError(form)


def pick_container(rng, u, tykey, allow_unit=False, want_named=None, arity=None, generic_ok=False, raw_ok=False):
    if tykey is None:
        u.kind = rng.choice(("unit", "tuple", "named")) if allow_unit else rng.choice(("tuple", "named"))
        if u.kind == "unit":
            u.fields, u.target = [], None
            return
        tykey = rng.choice(list(FT))
    named = rng.random() < 0.5 if want_named is None else want_named
    u.kind = "named" if named else "tuple"
    arity = arity or rng.choice((1, 1, 2, 3))
    u.fields, u.target = fields_for(rng, tykey, arity, named, raw_ok)
    u.generic = generic_ok and rng.random() < 0.25


def gen_placeholder_unit(rng, D, ref, argform, spec="", letter_override=None, alias_extra=None, ws=False, wrap=None, mode=None):
    """A unit whose literal is built around ONE placeholder `{<ref>:<spec><letter>}`.
    wrap: None or (prefix, suffix) literal text around the placeholder."""
    u = Unit()
    needs_field = ref == "name" or argform in ("ident", "deref", "self", "expr", "fmtargs")
    # choose the placeholder trait first, then a field type that supports it through the chosen argument
    for _ in range(200):
        tykey = rng.choice(list(FT)) if needs_field else None
        if ref == "name":
            fname_traits = usable(FT[tykey].traits, FT[tykey].blind)
            a_attr = a_ref = None
        else:
            pick_container(rng, u, tykey, allow_unit=(argform == "const"), generic_ok=(argform == "ident"), raw_ok=True)
            tf = u.fields[u.target] if u.target is not None else (None, None, None)
            a_attr, a_ref, fname_traits = make_arg(rng, argform, tf[2], tf[0], tf[1])
        if letter_override in ("x?", "X?") and "Debug" not in fname_traits:
            continue
        break
    else:
        raise AssertionError("no type for %s/%s" % (ref, argform))
    if letter_override in ("x?", "X?"):
        P, letter = "Debug", letter_override
    else:
        # favour the derived trait where the argument supports it: same-trait delegation is the common use
        P = D if (D in fname_traits and rng.random() < 0.35) else rng.choice(fname_traits)
        letter = LET[P]
    if ref == "name":
        pick_container(rng, u, tykey, generic_ok=True, raw_ok=True)
        tf = u.fields[u.target]
        arg_in_lit, args = unraw(tf[0]), []
        u.ref = "*fr"       # "except when used directly in the format string": the field itself
        u.form = "name"
    else:
        aliased = ref == "alias" or (alias_extra if alias_extra is not None else rng.random() < 0.3)
        arg_in_lit = {"implicit": "", "index0": "0", "alias": "n"}[ref]
        args = [("n = " if aliased else "") + a_attr]
        u.ref = a_ref
        u.form = "%s/%s%s" % (ref, argform, "/aliased" if aliased and ref != "alias" else "")
        if argform == "self":
            u.needs_struct = True
        if aliased or argform != "ident":
            u.generic = False   # bounds are only inferred for fields referenced directly
    body = ph(arg_in_lit, spec, letter, ws=ws, colon=(not spec and not letter and not wrap and rng.random() < 0.2))
    lit = (wrap[0] if wrap else "") + body + (wrap[1] if wrap else "")
    u.lit = lit
    u.attr = ", ".join([rs_str(lit)] + args)
    u.P = P
    if ws:
        u.form += "+ws"
    u.mode = mode or "pt"
    # Pointer placeholder whose argument is the bare field binding: the documented binding is a reference
    # to the field, so formatting "that argument" directly prints the field's own address
    if u.mode == "pt" and P == "Pointer" and ref != "name" and argform == "ident":
        u.mode = "ptrident"
        u.needs_struct = True
    return u


def gen_attrfree(rng, D):
    u = Unit()
    tykey = rng.choice(types_with(D))
    named = rng.random() < 0.5
    u.kind = "named" if named else "tuple"
    u.fields, u.target = fields_for(rng, tykey, 1, named, raw_ok=True)
    u.generic = rng.random() < 0.3
    u.P, u.ref, u.form, u.mode = D, "*fr", "attrfree", "pt"
    return u


def gen_inert_misc(rng, D, what):
    """Inert literals that are not 'one placeholder with a modifier'."""
    u = Unit()
    tykey = rng.choice(list(FT))
    pick_container(rng, u, tykey)
    f = u.fields[u.target]
    P = rng.choice(usable(FT[tykey].traits, FT[tykey].blind))
    L = LET[P]
    bare = ph(f[0], "", L)
    if what == "notext":
        lit = rng.choice(["text", "", "{{}}", "é {{x}} ", "}}{{", "8", "{{0}}", "{{:>8}}"])
        args = []
    elif what == "two-same":
        lit, args = bare + bare, []
    elif what == "two-sep":
        lit, args = bare + rng.choice((" ", ",", "/", "{{")) + bare, []
    elif what == "two-index":
        lit, args = ph("0", "", L) + ph("0", "", L), [f[0]]
    elif what == "two-implicit":
        lit, args = ph("", "", L) + ph("", "", L), [f[0], f[0]]
    elif what == "two-mixed":
        lit, args = bare + ph("n", "", ""), ["n = 7"]
    elif what == "dotstar":
        lit, args = ph("", ".*", L), ["2", f[0]]
    elif what == "widtharg":
        lit, args = ph(f[0], "w$", L), ["w = 8"]
    elif what == "width-index":
        lit, args = ph("", "1$", L), [f[0], "8"]
    elif what == "prec-arg":
        lit, args = ph(f[0], ".p$", L), ["p = 1"]
    else:
        raise AssertionError(what)
    u.lit = lit
    u.attr = ", ".join([rs_str(lit)] + args)
    u.mode, u.form = "in", what
    return u


def gen_obs_outer_binding(rng, D):
    """`{CONST}`: a name that is neither an argument nor a field - the property text does not class it;
    the behaviour is recorded, not judged."""
    u = Unit()
    e = rng.choice([c for c in CONSTS if re.match(r"^[A-Z][A-Z_0-9]*$", c[0])])
    c, traits = e[0], usable(e[1], len(e) > 2)
    u.kind = "unit"
    P = rng.choice(traits)
    u.lit = ph(c, "", LET[P])
    u.attr = rs_str(u.lit)
    u.P, u.ref, u.mode, u.form = P, c, "obs", "outer-binding"
    return u


def gen_mustfail(rng, D, what):
    u = Unit()
    tykey = rng.choice(list(FT))
    pick_container(rng, u, tykey)
    f = u.fields[u.target]
    P = rng.choice(FT[tykey].traits)
    L = LET[P]
    if what == "index1-of-1":
        lit, args = ph("1", "", L), [f[0]]
    elif what == "index1-of-1-named":
        lit, args = ph("1", "", L), ["n = " + f[0]]
    elif what == "index2-of-1":
        lit, args = ph("2", "", L), [f[0]]
    elif what == "index0-of-0":
        lit, args = ph("0", "", L), []
    elif what == "implicit-of-0":
        lit, args = ph("", "", L, colon=not L), []
    elif what == "index1-of-0":
        lit, args = ph("1", "", L), []
    elif what == "index1-of-1-expr":
        lit, args = ph("1", "", L), ["*" + f[0]]
    elif what == "index1-of-1-ws":
        lit, args = ph("1", "", L, ws=True), [f[0]]
    else:
        raise AssertionError(what)
    u.lit = lit
    u.attr = ", ".join([rs_str(lit)] + args)
    u.mode, u.form = "mustfail", what
    return u


MUSTFAIL = ["index1-of-1", "index1-of-1-named", "index2-of-1", "index0-of-0", "implicit-of-0", "index1-of-0", "index1-of-1-expr", "index1-of-1-ws"]


def gen_optional(rng, D, what):
    """Literals `write!` rejects for another reason (unused / unknown argument).  The property only says
    they are not pass-through: a rejection is counted, and if one compiles it must be inert."""
    u = Unit()
    tykey = rng.choice(list(FT))
    pick_container(rng, u, tykey)
    f = u.fields[u.target]
    P = rng.choice(FT[tykey].traits)
    L = LET[P]
    if what == "alias-mismatch":
        lit, args = ph("n", "", L), ["m = " + f[0]]
    elif what == "field-plus-unused-arg":
        lit, args = ph(f[0], "", L), [f[0]]
    elif what == "field-plus-unused-named":
        lit, args = ph(f[0], "", L), ["n = " + f[0]]
    elif what == "implicit-two-args":
        lit, args = ph("", "", L), [f[0], f[0]]
    elif what == "index0-two-args":
        lit, args = ph("0", "", L), [f[0], "n = " + f[0]]
    else:
        raise AssertionError(what)
    u.lit = lit
    u.attr = ", ".join([rs_str(lit)] + args)
    u.mode, u.form = "optional", what
    return u


OPTIONAL = ["alias-mismatch", "field-plus-unused-arg", "field-plus-unused-named", "implicit-two-args", "index0-two-args"]
INERT_MISC = ["notext", "two-same", "two-sep", "two-index", "two-implicit", "two-mixed", "dotstar", "widtharg", "width-index", "prec-arg"]
WRAPS = [("lead", ("a", "")), ("lead", (" ", "")), ("trail", ("", "b")), ("trail", ("", " ")), ("both", ("<", ">")),
         ("esc-lead", ("{{", "")), ("esc-trail", ("", "}}")), ("esc-both", ("{{", "}}")), ("lead", ("é", "")), ("trail", ("", "\n"))]


def unit_plan(rng, D):
    """One pass over every literal form for derive D -> list of Units (types/values/traits random)."""
    us = []
    if D != "Debug":
        us.append(gen_attrfree(rng, D))
        us.append(gen_attrfree(rng, D))
    # pass-through
    for ws in (False, True):
        us.append(gen_placeholder_unit(rng, D, "name", None, ws=ws))
    for ref in ("implicit", "index0", "alias"):
        for af in ARG_FORMS:
            us.append(gen_placeholder_unit(rng, D, ref, af, ws=(rng.random() < 0.15)))
    for ref in ("implicit", "index0"):
        us.append(gen_placeholder_unit(rng, D, ref, rng.choice(ARG_FORMS), alias_extra=True))
    # inert: one modifier
    for label, m in MODS:
        ref = rng.choice(PASS_REFS)
        af = None if ref == "name" else rng.choice(ARG_FORMS)
        u = gen_placeholder_unit(rng, D, ref, af, spec=m, mode="in", ws=(rng.random() < 0.1))
        u.form = "mod-%s/%s" % (label, u.form)
        us.append(u)
    for lo in ("x?", "X?"):
        ref = rng.choice(PASS_REFS)
        af = None if ref == "name" else rng.choice(ARG_FORMS)
        u = gen_placeholder_unit(rng, D, ref, af, letter_override=lo, mode="in")
        u.form = "mod-hexdebug/%s" % u.form
        us.append(u)
    # inert: text / escapes around a bare placeholder
    for label, w in WRAPS:
        ref = rng.choice(PASS_REFS)
        af = None if ref == "name" else rng.choice(ARG_FORMS)
        u = gen_placeholder_unit(rng, D, ref, af, wrap=w, mode="in")
        u.form = "text-%s/%s" % (label, u.form)
        us.append(u)
    for what in INERT_MISC:
        us.append(gen_inert_misc(rng, D, what))
    us.append(gen_obs_outer_binding(rng, D))
    return us


# ---------------------------------------------------------------------------------------------
# Rust source of a type and its probes

def unit_fields_decl(u, tparam=None):
    def ty(i, f):
        if u.generic and i == u.target:
            return tparam or "T"
        return FT[f[2]].ty
    if u.kind == "unit":
        return ""
    if u.kind == "tuple":
        return "(%s)" % ", ".join(ty(i, f) for i, f in enumerate(u.fields))
    return " { %s }" % ", ".join("%s: %s" % (f[0], ty(i, f)) for i, f in enumerate(u.fields))


def unit_ctor(u, path, vals):
    if u.kind == "unit":
        return path
    if u.kind == "tuple":
        return "%s(%s)" % (path, ", ".join(vals))
    return "%s { %s }" % (path, ", ".join("%s: %s" % (f[0], v) for f, v in zip(u.fields, vals)))


def filler_val(rng, tykey):
    return rng.choice(FT[tykey].vals)


def probe_code(rng, D, u, j, path, nspecs, is_struct):
    """Rust statements probing unit j; returns (code, number of cmp events)."""
    out = []
    nev = 0
    outer = LET[D]
    if D == "Debug":
        outer = rng.choice(("?", "?", "?", "x?", "X?"))
    rD = RFN[outer]
    nvals = 1 if u.kind == "unit" else rng.choice((1, 2))
    tk = u.fields[u.target][2] if u.target is not None else None
    tvals = rng.sample(FT[tk].vals, min(nvals, len(FT[tk].vals))) if tk else [None]
    for tv in tvals:
        vals = [tv if i == u.target else filler_val(rng, f[2]) for i, f in enumerate(u.fields)]
        idx = sorted(set(rng.sample(range(len(SPECS)), nspecs) + [rng.choice(FIXED_SPECS)]))
        out.append("{")
        if tk:
            out.append("    let f0: %s = %s; let fr = &f0;" % (FT[tk].ty, tv))
        out.append("    let v = %s;" % unit_ctor(u, path, vals))
        arr = "[%s]" % ", ".join("%dusize" % i for i in idx)
        if u.mode in ("pt", "obs", "ptrident"):
            ref = u.ref
            if u.mode == "ptrident":
                m = u.fields[u.target][1]
                ref = "&v.%s" % m
            if outer in ("x?", "X?") and u.P != "Debug":
                want = "%s(&ViaDbg(&|f| sfmt::%s::fmt(&(%s), f)), i)" % (rD, u.P, ref)
            elif outer in ("x?", "X?"):
                want = "%s(&(%s), i)" % (rD, ref)
            else:
                want = "%s(&(%s), i)" % (RFN[LET[u.P]], ref)
            if u.mode in ("pt", "ptrident"):
                out.append("    for &i in %s.iter() { cmp(&format!(\"u%d|pt|{}\", spec(i)), &%s(&v, i), &%s); }" % (arr, j, rD, want))
                nev += len(idx)
            else:
                out.append("    let plain = %s(&v, 0);" % RFN[LET[D]])
                out.append("    for &i in %s.iter() { let g = %s(&v, i); cmp(&format!(\"u%d|o1|{}\", spec(i)), &g, &%s); cmp(&format!(\"u%d|o2|{}\", spec(i)), &g, &plain); }" % (
                    arr, rD, j, want, j))
                nev += 2 * len(idx)
        else:   # inert, optional
            out.append("    let plain = %s(&v, 0);" % RFN[LET[D]])
            out.append("    for &i in %s.iter() { cmp(&format!(\"u%d|in|{}\", spec(i)), &%s(&v, i), &plain); }" % (arr, j, rD))
            nev += len(idx)
        out.append("}")
    return "\n".join(out), nev


def unit_desc(D, u):
    return {"derive": D, "mode": u.mode, "form": u.form, "attr": ("#[%s(%s)]" % (ATTR[D], u.attr)) if u.attr is not None else None,
            "fields": unit_fields_decl(u).strip(), "placeholder_trait": u.P, "argument": u.ref}


def build_case(rng, cid, D, units, nspecs):
    """A struct (one unit) or an enum (one variant per unit), deriving D."""
    is_struct = len(units) == 1 and (units[0].needs_struct or rng.random() < 0.7)
    attrn = ATTR[D]
    items = []
    tparams = []
    body = []
    nev = 0
    if is_struct:
        u = units[0]
        g = "<T>" if u.generic else ""
        a = "#[%s(%s)]\n" % (attrn, u.attr) if u.attr is not None else ""
        items.append("#[derive(derive_more::%s)]\n%spub struct S%s%s%s" % (D, a, g, unit_fields_decl(u), "" if u.kind == "named" else ";"))
        code, n = probe_code(rng, D, u, 0, "S", nspecs, True)
        body.append(code)
        nev += n
    else:
        vs = []
        for j, u in enumerate(units):
            tp = None
            if u.generic:
                tp = "T%d" % j
                tparams.append(tp)
            a = "    #[%s(%s)]\n" % (attrn, u.attr) if u.attr is not None else ""
            vs.append("%s    V%d%s," % (a, j, unit_fields_decl(u, tp)))
        g = "<%s>" % ", ".join(tparams) if tparams else ""
        items.append("#[derive(derive_more::%s)]\npub enum E%s {\n%s\n}" % (D, g, "\n".join(vs)))
        # generic parameters not fixed by the probed variant are instantiated with a type implementing every trait
        for j, u in enumerate(units):
            path = "E::V%d" % j
            if tparams:
                targs = []
                for k, uu in enumerate(units):
                    if uu.generic:
                        targs.append("_" if k == j else "Spy")
                path = "E::<%s>::V%d" % (", ".join(targs), j)
            code, n = probe_code(rng, D, u, j, path, nspecs, False)
            body.append(code)
            nev += n
    forms = tuple(sorted(set((u.mode, u.form) for u in units)))
    meta = {"what": "%s %s" % (D, "; ".join("%s[%s]" % (u.form, u.lit if u.lit is not None else "-") for u in units)),
            "derive": D, "units": [unit_desc(D, u) for u in units], "decl": "\n".join(items)}
    c = XCase(cid, (D,) + forms, "\n".join(items), "\n".join(body), expect=nev, meta=meta)
    c.units = units
    return c


def pack(rng, D, units, prefix, start, nspecs, single=False):
    """Distribute units over structs and enums."""
    cases = []
    pool = list(units)
    rng.shuffle(pool)
    k = start
    while pool:
        u = pool.pop()
        group = [u]
        if not single and not u.needs_struct and rng.random() < 0.6:
            want = rng.choice((2, 3, 4))
            rest = []
            while pool and len(group) < want:
                c = pool.pop()
                (rest if c.needs_struct else group).append(c)
            pool.extend(rest)
        cases.append(build_case(rng, "%s%d" % (prefix, k), D, group, nspecs))
        k += 1
    return cases, k



# ---------------------------------------------------------------------------------------------
# L1 sweep: selects additional literals for the L2 run (never a verdict by itself)

L1_ALIGN = ["", "<", "^", ">", "*<", "é^", "0>", " <"]
L1_ARGNAMES = ["", "0", "1", "_0", "n"]
L1_ARGS = [("none", []), ("ident", ["_0"]), ("aliased", ["n = _0"]), ("deref", ["*_0"])]
L1_WRAPS = [None, ("a", ""), ("", " "), ("{{", ""), ("", "}}")]
L1_BODY = re.compile(r"\{ let _0 = & self \. 0 ; (.*) \} \}$", re.S)
L1_DELEG = re.compile(r"^derive_more :: core :: fmt :: (\w+) :: fmt \((.*) , __derive_more_f\)$", re.S)


def l1_expected(argname, nargs_form, spec, letter, wrap):
    """Class of `#[d("<wrap>{argname:spec letter}<wrap>", args)] struct S(Spy);` by construction."""
    nargs = 0 if nargs_form == "none" else 1
    if argname in ("", "0"):
        valid = "ok" if nargs == 1 else "mustfail"
    elif argname == "1":
        valid = "mustfail"
    elif argname == "_0":
        valid = "ok" if nargs == 0 else "optional"
    else:   # "n"
        valid = "ok" if nargs_form == "aliased" else "optional"
    if valid != "ok":
        return valid
    bare = not spec and letter not in ("x?", "X?") and wrap is None
    return "pt" if bare else "in"


def l1_universe():
    for argname in L1_ARGNAMES:
        for af, args in L1_ARGS:
            for al in L1_ALIGN:
                for sign in ("", "+", "-"):
                    for alt in ("", "#"):
                        for zero in ("", "0"):
                            for width in ("", "8"):
                                for prec in ("", ".3"):
                                    for letter in RFN:
                                        for ws in (False, True):
                                            yield (argname, af, al + sign + alt + zero + width + prec, letter, ws, None)
    # text / escapes around every bare and singly-modified placeholder
    for argname in L1_ARGNAMES:
        for af, args in L1_ARGS:
            for spec in ("", ">", "+", "#", "0", "8", ".3"):
                for letter in RFN:
                    for wrap in L1_WRAPS[1:]:
                        yield (argname, af, spec, letter, False, wrap)


def l1_unit(D, argname, af, spec, letter, ws, wrap, mode):
    """The L2 unit for an L1 tuple: `struct S(Spy)` with the same attribute."""
    u = Unit()
    u.kind, u.fields, u.target = "tuple", [("_0", "0", "spy")], 0
    lit = (wrap[0] if wrap else "") + ph(argname, spec, letter, ws=ws) + (wrap[1] if wrap else "")
    u.lit = lit
    u.attr = ", ".join([rs_str(lit)] + dict(L1_ARGS)[af])
    u.P = RTRAIT[letter]
    u.ref = {"none": "*fr", "ident": "fr", "aliased": "fr", "deref": "*fr"}[af]
    u.mode = mode
    u.form = "l1/%s/%s" % ({"": "implicit", "0": "index0", "1": "index1", "_0": "name", "n": "alias"}[argname], af)
    if mode == "pt" and u.P == "Pointer" and af in ("ident", "aliased"):
        u.mode = "ptrident"
    u.needs_struct = True
    return u


def l1_sweep(ctx):
    """Expands a large set of single-placeholder literals in-process and returns the tuples whose expansion
    shape (`Trait::fmt(..)` vs `write!`) is not the one their class leads to expect."""
    from . import inproc
    rng = ctx.rng
    # `{n}` without arguments names an outer binding (not classed by the property, see gen_obs_outer_binding)
    uni = [t for t in dict.fromkeys(l1_universe()) if not (t[0] == "n" and t[1] == "none")]
    ctx.extra["l1_universe"] = len(uni)
    n = ctx.pick(40000, len(uni))
    if n < len(uni):
        # the pass-through class is tiny: keep all of it, sample the rest
        pt = [t for t in uni if l1_expected(t[0], t[1], t[2], t[3], t[5]) == "pt"]
        rest = [t for t in uni if l1_expected(t[0], t[1], t[2], t[3], t[5]) != "pt"]
        uni = pt + rng.sample(rest, n - len(pt))
    jobs = []
    for i, (argname, af, spec, letter, ws, wrap) in enumerate(uni):
        D = ALL9[i % 9]
        lit = (wrap[0] if wrap else "") + ph(argname, spec, letter, ws=ws) + (wrap[1] if wrap else "")
        item = "#[%s(%s)] struct S(Spy);" % (ATTR[D], ", ".join([rs_str(lit)] + dict(L1_ARGS)[af]))
        jobs.append((str(i), D, item))
    out = inproc.expand_many(jobs)
    odd = []
    for i, t in enumerate(uni):
        o = out.get(str(i))
        if o is None:
            raise Inconclusive("in-process harness returned no result for an L1 item")
        ctx.bump("l1_expansions")
        exp = l1_expected(t[0], t[1], t[2], t[3], t[5])
        shape = "other"
        if o.get("kind") == "ok":
            m = L1_BODY.search(o.get("tokens", ""))
            body = m.group(1).strip() if m else ""
            d = L1_DELEG.match(body)
            if d:
                shape = "delegate:" + d.group(1)
            elif body.startswith("derive_more :: core :: write !"):
                shape = "write"
        else:
            shape = o.get("kind", "?")
        if exp == "pt":
            agree = shape == "delegate:" + RTRAIT[t[3]]
        elif exp == "in":
            agree = shape == "write"
        else:       # must not compile / rejected by write!: anything but a delegation is left to rustc
            agree = not shape.startswith("delegate")
        ctx.bump("l1_%s" % exp)
        if not agree:
            ctx.bump("l1_shape_disagreements")
            odd.append((ALL9[i % 9], t, exp, shape))
    return odd


# ---------------------------------------------------------------------------------------------

def classify_mismatch(c, u, ev):
    """Stable violation key for a mismatch of unit u."""
    D = c.meta["derive"]
    form = re.sub(r"/aliased|\+ws", "", u.form)
    if u.mode in ("pt", "ptrident"):
        return "passthrough:%s:%s" % ("Debug" if D == "Debug" else "DisplayLike", form)
    return "not-inert:%s:%s" % ("Debug" if D == "Debug" else "DisplayLike", form.split("/")[0])


def run(ctx):
    rng = ctx.rng
    nspecs = ctx.pick(24, 40)
    rounds = ctx.pick(4, 40)
    cases, mf_cases, opt_cases = [], [], []
    k = 0
    for r in range(rounds):
        for D in ALL9:
            cs, k = pack(rng, D, unit_plan(rng, D), "k", k, nspecs)
            cases += cs
    km = 0
    for r in range(ctx.pick(1, 4)):
        for D in ALL9:
            cs, km = pack(rng, D, [gen_mustfail(rng, D, w) for w in MUSTFAIL], "m", km, 0, single=True)
            mf_cases += cs
    ko = 0
    for r in range(ctx.pick(1, 3)):
        for D in ALL9:
            cs, ko = pack(rng, D, [gen_optional(rng, D, w) for w in OPTIONAL], "o", ko, ctx.pick(8, 16), single=True)
            opt_cases += cs
    # L1 sweep: literals whose expansion does not have the expected shape are added to the L2 workloads
    odd = l1_sweep(ctx)
    if odd:
        byk = {}
        for o in odd:
            byk.setdefault((o[2], o[3], o[1][0], o[1][1]), []).append(o)
        chosen = []
        for key in sorted(byk):
            chosen += rng.sample(byk[key], min(3, len(byk[key])))
        chosen = chosen[:ctx.pick(90, 300)]
        ctx.extra["l1_promoted"] = len(chosen)
        for D, t, exp, shape in chosen:
            u = l1_unit(D, t[0], t[1], t[2], t[3], t[4], t[5], exp)
            if exp == "mustfail":
                cs, km = pack(rng, D, [u], "m", km, 0, single=True)
                mf_cases += cs
            elif exp == "optional":
                cs, ko = pack(rng, D, [u], "o", ko, ctx.pick(8, 16), single=True)
                opt_cases += cs
            else:
                cs, k = pack(rng, D, [u], "k", k, nspecs, single=True)
                cases += cs
    for c in mf_cases:
        c.must_fail = True
        c.body = ""

    ctx.rule = ("every round builds, for each of the 9 derives (8 Display-likes + Debug with struct/variant attribute), one unit (struct or enum variant) per "
                "literal form: attribute-free single field; bare `{f}` / `{}` / `{0}` / `{n}` x argument {field ident, `*f`, `self.f`, expression over the field, "
                "constant/literal, `format_args!`} x {positional, `n = `}, optional whitespace before `}`; each single modifier (fill+align, align, sign, `#`, `0`, "
                "width, precision, `x?`, `X?`, combinations); text/escapes before/after; two placeholders; no placeholder; `.*`, `w$`, `1$`; `{CONST}` (observed only); "
                "out-of-range indices (must not compile); literals `write!` rejects for unused/unknown arguments (counted; inert if they compile). Placeholder trait "
                "drawn from the traits the argument's type implements (9 traits), field types Spy/i32/u8/f64/&str/String/char/bool/&i32, 1-3 fields, tuple/named/unit, "
                "structs and enum variants, raw-identifier field names, generic parameter where bounds are inferable; per value %d of the %d outer specs "
                "(fill x align x sign x # x 0 x width x precision; Debug additionally under `x?`/`X?`). distinct = distinct (derive, set of (mode, literal form)) per type; "
                "every probe uses non-empty outer specs and a placeholder trait under which the argument's type shows flags (std's Debug for str/char ignores them and is "
                "not chosen), except the documented `format_args!` argument, which ignores flags by design. In addition an in-process sweep expands the grid "
                "{``,0,1,_0,n} x {no arg, `_0`, `n = _0`, `*_0`} x align/fill x sign x # x 0 x width x precision x 11 types x trailing space (+ text/escapes) on `struct S(Spy)` "
                "and adds every literal whose expansion shape is unexpected to the compiled workload (none on a conforming tree)" % (nspecs + 1, len(SPECS)))
    ctx.assumptions += [
        "rt::Spy renders every Formatter flag it receives; i32/f64/&str/char/bool/String/&i32 render with std's own implementations",
        "expected strings are std's format! applied in the same process to the argument expression re-evaluated outside the derive, with the caller's spec and the placeholder's trait letter; for `{:x?}`/`{:X?}` callers of a Debug derive delegating to a non-Debug trait the reference is a hand-written Debug impl passing its Formatter on",
        "`&dyn Trait` forwards the Formatter unchanged (std's `impl Trait for &T`); for Pointer a forwarding wrapper is used because `&T: Pointer` prints the reference's address",
        "a placeholder naming a constant/static of the enclosing scope (`{CONST}`) is neither 'its only argument' nor 'a field by name': observed, not judged",
        "unions (always `write!`; the documentation only shows a text-only literal) and the enum-level shared attribute (property C07) are not part of this workload",
        "the in-process sweep reads the expansion shape only to select literals for compilation; literals it does not select are not judged by it",
    ]

    # enum-level format attributes (added after seeded-defect misses; see c05_enum.py)
    from . import c05_enum
    c05_enum.run_enum_level(ctx)

    pre = prelude()
    nsh = ctx.pick(8, 16)
    res = l2.build_and_run(ctx, "flags", cases, nshards=nsh, prelude=pre)
    ctx.extra["build_rounds"] = res.rounds
    ctx.extra["types"] = len(cases)
    resm = l2.build_and_run(ctx, "badindex", mf_cases, nshards=1, prelude=pre, run=False)
    reso = l2.build_and_run(ctx, "rejected", opt_cases, nshards=1, prelude=pre)

    # --- must-not-compile ---------------------------------------------------------------------
    for c in mf_cases:
        for j, u in enumerate(c.units):
            ctx.count()
            ctx.cls((c.meta["derive"], "mustfail", u.form))
        if c.id in resm.compile_errors:
            txt = l2.err_text(resm.compile_errors[c.id], 8)
            ctx.bump("rejected_out_of_range_types")
            if ctx.extra["rejected_out_of_range_types"] <= 3:
                ctx.sample({"case": c.meta["what"], "type": c.meta["decl"], "expected": "does not compile", "observed": txt[:300]})
        else:
            ctx.violate("compiles:out-of-range-index", "a placeholder whose index denotes no argument compiles (%s)\n%s" % (c.meta["what"], c.meta["decl"]),
                        case=c.meta, items=c.items)

    # --- run-time probes ----------------------------------------------------------------------
    short = 0
    seen_samples = set()
    for c, r, optional in [(c, res, False) for c in cases] + [(c, reso, True) for c in opt_cases]:
        units = c.units
        if c.id in r.compile_errors:
            if optional:
                ctx.count(len(units))
                ctx.bump("obs_rejected_by_write:" + units[0].form)
                continue
            ctx.count(len(units))
            ctx.cls(c.cls)
            forms = ",".join(sorted(set(re.sub(r"/aliased|\+ws", "", u.form) for u in units)))
            ctx.violate("compile:%s:%s" % ("Debug" if c.meta["derive"] == "Debug" else "DisplayLike", forms if len(units) == 1 else "enum"),
                        "supported input does not compile (%s): %s\n%s" % (c.meta["what"], l2.err_text(r.compile_errors[c.id], 1)[:700], c.meta["decl"]),
                        case=c.meta, items=c.items, errors=l2.err_text(r.compile_errors[c.id]))
            continue
        if optional:
            ctx.bump("obs_compiled_although_write_rejects:" + units[0].form)
        ctx.count(len(units))
        for u in units:
            ctx.cls((c.meta["derive"], u.mode, re.sub(r"/aliased|\+ws", "", u.form), u.P or "-"))
        if c.id in r.not_run:
            ctx.bump("cases_not_run")
            continue
        evs = r.events.get(c.id, [])
        n = 0
        dead = False
        obs = {}
        mism = []
        for e in evs:
            kind = e.get("kind", "")
            if "got" in e and "want" in e:
                n += 1
                ctx.bump("events_compared")
                try:
                    uj, mode, spec = kind.split("|", 2)
                    j = int(uj[1:])
                    u = units[j]
                except (ValueError, IndexError):
                    raise Inconclusive("unexpected event kind %r in case %s" % (kind, c.id))
                same = e["got"] == e["want"]
                if mode in ("o1", "o2"):
                    obs.setdefault(j, {}).setdefault(mode, []).append(same)
                elif not same:
                    mism.append((j, u, spec, e))
            elif kind in ("panic", "crash"):
                dead = True
                ctx.violate("panic:%s" % c.meta["derive"], "%s: generated program %s: %s\n%s" % (c.meta["what"], kind, e.get("val", "")[:300], c.meta["decl"]),
                            case=c.meta, items=c.items, body=c.body, event=e)
        for j, u, spec, e in mism:
            key = classify_mismatch(c, u, e)
            d = unit_desc(c.meta["derive"], u)
            if u.mode in ("pt", "ptrident"):
                what = ("%s with outer spec `{:%s}`: through the derive %r, the argument formatted directly %r  (expected pass-through: %s)" % (
                    d["attr"] or "attribute-free", spec, e["got"][:200], e["want"][:200], u.form))
            else:
                what = ("%s with outer spec `{:%s}`: %r differs from the flag-free output %r  (expected inert: %s)" % (
                    d["attr"], spec, e["got"][:200], e["want"][:200], u.form))
            ctx.violate(key, what + "\n" + c.meta["decl"], case=c.meta, unit=d, items=c.items, body=c.body, event=e)
        for j, o in obs.items():
            a, b = all(o.get("o1", [False])), all(o.get("o2", [False]))
            ctx.bump("obs_outer_binding_" + ("passthrough" if a and not b else "inert" if b and not a else "both" if a and b else "neither"))
        if n < c.expect and not dead:
            short += 1
        elif len(ctx.samples) < 12 and (units[0].mode, c.meta["derive"] == "Debug", units[0].form.split("/")[0]) not in seen_samples:
            seen_samples.add((units[0].mode, c.meta["derive"] == "Debug", units[0].form.split("/")[0]))
            cmpv = [e for e in evs if "got" in e and e["kind"].split("|")[1] in ("pt", "in") and e["kind"].split("|")[2]]
            ctx.sample({"case": c.meta["what"], "type": c.meta["decl"], "units": c.meta["units"],
                        "events": [{"kind": e["kind"], "through_derive": e["got"], "reference": e["want"]} for e in cmpv[:3]]})
    if not ctx.samples and cases:
        c = cases[0]
        ctx.sample({"case": c.meta["what"], "type": c.meta["decl"], "units": c.meta["units"]})
    if ctx.extra.get("cases_not_run", 0) or short:
        raise Inconclusive("some cases did not run to completion: not_run=%s short_of_events=%s" % (ctx.extra.get("cases_not_run", 0), short))
