"""C15 - expansions depend on no name from the caller's scope.

L0 monitor: every item of the supported corpus is compiled three times through the real proc-macro:
in an ordinary module (control), inside `#[no_implicit_prelude] mod` (user tokens fully qualified),
and inside a module that defines its own `Result Ok Err Option Some None String Vec Box Default
Debug Display From Into Error ...` items and `panic!/write!/format_args!/matches!/stringify!...`
macros.  An error located in a hostile copy of an item whose control copy compiles is a name the
expansion took from the caller's scope.
"""
import re

from . import common, items, l2
from .l2 import Case

IMPORTS = "use ::derive_more; use ::rt::{Tag, Scalar, Leaf}; use ::core::marker::PhantomData; use super::{LtTag, Tr, Two};"

TRAITS = ("Debug Display Binary Octal LowerHex UpperHex LowerExp UpperExp Pointer From Into TryFrom TryInto FromStr AsRef AsMut Deref DerefMut Index IndexMut "
          "IntoIterator Iterator Error Add Sub Mul Div Rem Shl Shr BitAnd BitOr BitXor Not Neg AddAssign SubAssign MulAssign DivAssign RemAssign ShlAssign ShrAssign "
          "BitAndAssign BitOrAssign BitXorAssign Sum Product Clone Copy Default ToString ToOwned Extend PartialEq Eq Fn FnMut FnOnce Drop Send Sync Unpin").split()
TYPES = "Result Option String Vec Box Formatter Arguments Backtrace PhantomData2 Ordering".split()
VALUES = "Ok Err Some None".split()
MACROS = "panic write writeln format_args format matches stringify unreachable unimplemented todo assert assert_eq debug_assert vec concat line file compile_error".split()

SHADOW = ("#![allow(dead_code, non_camel_case_types, non_upper_case_globals, unused_macros, unused_imports)]\n"
          + "".join("pub trait %s { fn shadowed_%s(&self) {} }\n" % (t, t.lower()) for t in TRAITS if t not in ("Clone", "Copy", "Send", "Sync", "Unpin", "Drop", "Fn", "FnMut", "FnOnce"))
          + "".join("pub struct %s;\n" % t for t in TYPES)
          + "".join("pub struct %s;\n" % v for v in VALUES)
          + "".join("macro_rules! %s { ($($t:tt)*) => { ::core::compile_error!(\"shadowed macro `%s` was picked up from the caller's scope\") }; }\n" % (m, m) for m in MACROS))


# A fourth scope: an ordinary module (prelude present) that brings a blanket-implemented trait into scope whose methods are
# named like the std methods an expansion could be tempted to call with method syntax (`x.into()`, `x.as_ref()`,
# `iter.sum()`, `x.clone()` ...).  A path-qualified call (`<T as Trait>::m(x)`) is unaffected; `x.m()` becomes ambiguous
# (E0034) or silently calls the local method.
# Only methods of PRELUDE traits (the property speaks of prelude names shadowed by local items): Into, TryInto, AsRef,
# AsMut, Clone, ToString, ToOwned, IntoIterator, Iterator, DoubleEndedIterator, ExactSizeIterator, Extend, PartialEq,
# PartialOrd, Ord, Drop.  (Operator traits and derive_more's own helper traits are not prelude names.)
HOSTILE_BY_VALUE = "into try_into into_iter sum product fold map rev count last min max collect filter zip chain enumerate".split()
HOSTILE_BY_REF = "as_ref to_string to_owned clone eq ne cmp partial_cmp lt le gt ge len".split()
HOSTILE_BY_MUT = "as_mut next next_back extend clone_from".split()
MSHADOW = ("#![allow(dead_code, unused_imports, unused_variables)]\npub struct Hostile;\npub trait HostileMethods {\n"
           + "".join("    fn %s(self) -> Hostile where Self: ::core::marker::Sized { Hostile }\n" % m for m in HOSTILE_BY_VALUE)
           + "".join("    fn %s(&self) -> Hostile { Hostile }\n" % m for m in HOSTILE_BY_REF)
           + "".join("    fn %s(&mut self) -> Hostile { Hostile }\n" % m for m in HOSTILE_BY_MUT)
           + "}\nimpl<T: ?::core::marker::Sized> HostileMethods for T {}\n")
HOSTILE_CALL_RE = re.compile(r"\.\s*(%s)\s*(::<[^>]*>)?\s*\(" % "|".join(HOSTILE_BY_VALUE + HOSTILE_BY_REF + HOSTILE_BY_MUT))


def qualify(text):
    """User tokens of the corpus are already written with full paths except for the std derive names."""
    return text


def run(ctx):
    corpus = items.all_items()
    rng = ctx.rng
    if ctx.quick():
        seen, chosen = set(), []
        order = list(corpus)
        rng.shuffle(order)
        for it in order:
            k = (it.dims[0], it.dims[1], it.dims[4])
            if k not in seen or rng.random() < 0.25:
                seen.add(k)
                chosen.append(it)
    else:
        chosen = corpus
    chosen = list(chosen) + list(items.macro_items())
    cases = []
    for i, it in enumerate(chosen):
        # std derives by path: their names live in the prelude
        it2 = items.Item(it.derives, it.src, it.dims, ["::core::fmt::Debug" if d == "Debug" else d for d in it.std_derives])
        txt = it2.text("T%d" % i)
        meta = {"what": "derive(%s) on %s" % (",".join(it.derives), it.dims)}
        cases.append((Case("i%dc" % i, it.dims, txt, "", expect=0, meta=meta), it, "control"))
        cases.append((Case("i%dn" % i, it.dims, "#[no_implicit_prelude] pub mod noprelude { %s\n%s\n}" % (IMPORTS, txt), "", expect=0, meta=meta), it, "no_implicit_prelude"))
        cases.append((Case("i%ds" % i, it.dims, "pub mod shadow { %s\n%s\n%s\n}" % (SHADOW, IMPORTS, txt), "", expect=0, meta=meta), it, "shadowed"))
        # (items whose own attribute expressions call one of these methods are left out: that call is the user's)
        if not HOSTILE_CALL_RE.search(it.src):
            cases.append((Case("i%dm" % i, it.dims, "pub mod methods { %s\n%s\n%s\n}" % (MSHADOW, IMPORTS, txt), "", expect=0, meta=meta), it, "method-shadowing"))
    only = [c for c, _, _ in cases]
    header = "#![allow(warnings)]\n#![recursion_limit = \"512\"]\n"
    res = l2.build_and_run(ctx, "scopes", only, prelude=items.PRELUDE, run=False, header=header, max_rounds=10,
                           nshards=min(common.NCPU, max(1, len(only) // 90)))
    ctx.extra["build_rounds"] = res.rounds
    ctx.extra["items"] = len(chosen)
    ctx.extra["scope_copies_compiled"] = len(only)
    n_ctrl_fail = 0
    ctrl_failed = set(c.id[:-1] for c, it, scope in cases if scope == "control" and c.id in res.compile_errors)
    for c, it, scope in cases:
        if scope == "control":
            ctx.count()
            ctx.cls(it.dims)
            if c.id in res.compile_errors:
                n_ctrl_fail += 1
                ctx.bump("control_copy_does_not_compile")
            continue
        if c.id[:-1] in ctrl_failed or c.id not in res.compile_errors:
            continue
        ds = res.compile_errors[c.id]
        msgs = [d.get("message", "") for d in ds]
        derives = sorted(set(sum((common.diag_derives(d) for d in ds), [])))
        msg = re.sub(r"T\d+", "T", msgs[0])[:100]
        ctx.violate("scope:%s:%s:%s" % (scope, ",".join(derives) or it.dims[0], msg),
                    "in a %s module the expansion of %s picks up a name from the caller's scope: %s\n%s" % (scope, c.meta["what"], msgs[0], it.text("T")),
                    item=it.text("T"), scope=scope, derives=derives, dims=it.dims, errors=l2.err_text(ds, 4))
    for c, it, body in cases[:1]:
        ctx.sample({"dims": it.dims, "item": it.text("T"), "scopes": ["ordinary module", "#[no_implicit_prelude]", "module shadowing %d traits, %d types, Ok/Err/Some/None and %d macros" % (len(TRAITS), len(TYPES), len(MACROS))]})
    ctx.rule = ("every item of the supported-items corpus (one per (family, shape, generics, naming, attribute) class; quick: a class-covering sample) compiled in three scopes; "
                "distinct = distinct item classes")
    ctx.assumptions += ["user tokens of the corpus are fully qualified, so an error in a hostile copy (with a compiling control copy) stems from the expansion",
                       "behavioural equality between scopes is not separately executed: identical path-qualified tokens are assumed to behave identically once they resolve"]
    if n_ctrl_fail > len(only) // 20:
        raise common.Inconclusive("%d control copies failed to compile: the corpus is broken (see C01)" % n_ctrl_fail)
