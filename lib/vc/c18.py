"""C18 - derive expansion is total: a result or a diagnostic, never an internal failure.

Panic monitor + crash monitor + watchdog around the real expanders (in-process harness):
 (a) format literals: exhaustive short strings over an alphabet with 1-4 byte characters and random
     long ones, through the literal parser and through every literal-consuming attribute position;
 (b) attribute bodies: documented attributes of the supported-items corpus mutated at token level;
 (c) all item shapes (incl. unsupported ones: unions, empty enums, 0-field structs, 12 fields)
     x all derives x attribute placements on item / variant / field.
Outcomes Ok, Err(syn::Error) and deliberate panics with a descriptive message raised by
derive_more-impl's own code are fine; a panic raised through a std failure path (bounds check,
unwrap/expect, unreachable/unimplemented, overflow, str slicing), inside a dependency on behalf of
the derive, or the death of the child process is an internal failure.
"""
import re
from concurrent.futures import ThreadPoolExecutor

from . import common, inproc, items
from .common import Inconclusive

ALPHABET = "{}:.*$01#+-<^>?xX _\"\\" + "é" + "ß" + "字" + "🦀" + "\u0301" + "\n" + "\u2003" + "\u0085"  # incl. 3- and 2-byte Unicode whitespace (std skips it before `}`)

BODIES = ["", "()", "(skip)", "(ignore)", "(forward)", "(owned)", "(ref)", "(ref_mut)", "(owned, ref, ref_mut)", "(owned(u8), ref(i8))", "(types(u8))", "(types(1))", "(types(\"u8\"))",
          "(\"lit\")", "(\"{}\", _0)", "(\"{x} {}\", x)", "(\"{_variant}\")", "(\"{_variant:?}\")", "(\"{}\", _variant)", "(bound(T: Copy))", "(bounds(T: Copy))", "(where(T: Copy))",
          "(bound = \"T: Copy\")", "(fmt = \"{}\", _0)", "(u8)", "(u8, i8, (u8, u8))", "([u8])", "(str)", "(repr)", "(repr(u8))", "(source)", "(backtrace)", "(not(source))", "(not(backtrace))",
          "(source, backtrace)", "(not)", "(not())", "(not(not(source)))", "(rename_all = \"snake_case\")", "(rename_all = \"nope\")", "(rename_all = 1)", "= \"x\"", "(1)", "(-1)", "(a::b)",
          "(a = )", "(,)", "(skip, skip)", "(ignore, forward)", "(forward, forward)", "(skip(x))", "(forward = true)", "(\"{\")", "(\"}\")", "(\"{0}\")", "(\"{9}\", _0)", "(\"{:.*}\", _0, _1)",
          "(\"{:1$}\", _0)", "(\"\\u{301}{}\")", "(\"{é}\")", "(r#\"{r#x}\"#)", "(b\"x\")", "('c')", "(1.5)", "(true)", "(self)", "(Self)", "(crate)", "(super::x)", "(r#type)", "(_)",
          "(..)", "(|a| a)", "(<T as Tr>::X)", "(&'static str)", "(fn(u8) -> u8)", "(dyn Tr)", "(impl Tr)", "(!)", "([u8; 4])", "(*const u8)", "(_0, _1)", "(display)", "(debug)",
          "(x, \"lit\")", "(\"a\", \"b\")", "(\"{}\", )", "(\"{}\" _0)", "(\"{}\", _0 _1)", "(\"{}\", a = )", "(\"{a}\", a = 1, a = 2)", "(\"{}\", {)", ]
BODIES = [b for b in BODIES if b.count("(") == b.count(")") and b.count("{") - b.count("{\")") == b.count("}") - b.count("}\")") or True]

SHAPES = [
    "struct S;", "struct S();", "struct S {}", "struct S(@F u8);", "struct S(@F u8, u16);", "struct S(@F u8, u16, @F u32);", "struct S { @F a: u8 }", "struct S { @F a: u8, b: u16 }",
    "struct S { a: u8, @F b: u16, @F c: u32 }", "struct S<T>(@F T);", "struct S<'a, T: 'a, const N: usize>(@F &'a [T; N]);", "struct S<T> { @F a: T, b: Vec<T> }",
    "struct S(@F u8, u8, u8, u8, u8, u8, u8, u8, u8, u8, u8, @F u8);", "struct S { source: u8, @F backtrace: u8 }", "struct S(@F Backtrace, u8);", "struct S(u8, @F Backtrace);",
    "struct S { r#type: u8, @F r#fn: u8 }", "enum E {}", "enum E { @V A }", "enum E { @V A, @V B }", "enum E { @V A(@F u8), B { @F x: u16 }, @V C }", "enum E { @V A(), @V B {} }",
    "enum E<T> { @V A(@F T), @V B(T, @F u8), C }", "enum E { A = 1, @V B, C = 5, @V D(u8) }", "#[repr(u8)] enum E { @V A = 1, B }", "#[repr(C, i16)] enum E { @V A, B(u8) }",
    "enum E { @V r#type, r#Loop(@F u8) }", "enum E { @V A(@F u8, u8, @F u8), @V B(u8, u8, u8) }", "enum E { @V A { source: u8, @F backtrace: u8 }, B(@F Backtrace, u8) }",
    "union U { @F a: u8, b: u16 }", "union U<T: Copy> { @F a: T }", "struct S<T: ?Sized>(@F Box<T>);", "struct S<const N: usize = 3>(@F [u8; N]);",
    "struct S<'a>(@F &'a str, @F &'a mut u8);", "struct S<const N: usize> where [(); N]: Sized;", "struct S<T>() where T: Copy;", "struct S<T> where T: Copy {}",
    "struct S<T>(@F T) where T: Copy, Vec<T>: Clone;", "struct S<T, const N: usize> where T: Copy { @F a: [T; N] }", "enum E<T> where T: Copy { @V A(@F T), @V B }",
    "enum E<const N: usize> where [(); N]: Sized {}", "struct S<'a, 'b: 'a, T: 'b + ?Sized>(@F &'a &'b T);", "struct S(@F fn(u8) -> u8, Box<dyn Fn(u8)>);", "struct S(@F (u8, (u16, u32)), [u8; 2]);", "enum E { A(@F <i32 as core::ops::Add>::Output) }",
    # raw identifiers everywhere a derive builds a new identifier or a string from a name (unit-only enums for TryFrom/FromStr)
    "enum E { @V r#type, @V r#match = 5, r#loop }", "#[repr(i8)] enum r#enum { @V r#type = -1, r#fn }", "struct r#struct { @F r#type: u8 }", "struct r#fn(@F u8, @F u16);",
    "enum r#mod { @V r#type(@F u8), @V r#match { @F r#ref: u16 }, r#Self_ }",
]


def normalise(msg):
    msg = re.sub(r"\d+", "N", msg or "")
    msg = re.sub(r"`[^`]*`|\"[^\"]*\"", "_", msg)
    return msg[:80]


def tokens(s):
    return re.findall(r'r#*"(?:[^"\\]|\\.)*"#*|b?"(?:[^"\\]|\\.)*"|b?\'(?:[^\'\\]|\\.)\'|\'\w+|r#\w+|\w+|::|->|=>|[^\s\w]', s)


def mutate_body(rng, body):
    """Token-level mutation of an attribute body keeping delimiters balanced."""
    toks = tokens(body)
    if not toks:
        return rng.choice(BODIES)
    inner = [i for i, t in enumerate(toks) if t not in "()[]{}"]
    op = rng.randrange(9)
    pool = ["skip", "ignore", "forward", "ref", "ref_mut", "owned", "bound", "bounds", "types", "source", "backtrace", "not", "rename_all", "repr", "fmt", "=", ",", "1", "-", "\"x\"",
            "\"{}\"", "\"{0} {x}\"", "_0", "_1", "x", "self", "T", "u8", "::", "<", ">", "|", "'a", "?", "!", "&", "*", "..", "r#type", "_variant", "\"{_variant}\"", "1.5", "'c'", "true", ";", ":"]
    if op == 0 and inner:
        del toks[rng.choice(inner)]
    elif op == 1 and inner:
        i = rng.choice(inner)
        toks.insert(i, toks[i])
    elif op == 2 and len(inner) > 1:
        i, j = rng.sample(inner, 2)
        toks[i], toks[j] = toks[j], toks[i]
    elif op == 3 and inner:
        toks[rng.choice(inner)] = rng.choice(pool)
    elif op == 4:
        toks.insert(rng.randrange(len(toks) + 1) if not inner else rng.choice(inner), rng.choice(pool))
    elif op == 5 and inner:
        i = rng.choice(inner)
        o, c = rng.choice(["()", "[]", "{}"])
        toks[i] = o + " " + toks[i] + " " + c
    elif op == 6 and inner:
        i = rng.choice(inner)
        d = rng.choice([2, 8, 32, 128])
        toks[i] = "(" * d + toks[i] + ")" * d
    elif op == 7:
        return rng.choice(BODIES)
    else:
        toks = toks + [","] + toks
    return " ".join(toks)


ATTR_RE = re.compile(r"#\[(\w+)((?:\([^\]]*\))?)\]")


def mutated_items(rng, corpus, n):
    out = []
    have = [it for it in corpus if ATTR_RE.search(it.src)]
    for _ in range(n):
        it = rng.choice(have)
        src = it.src.replace("@N@", "M")
        ms = [m for m in ATTR_RE.finditer(src) if m.group(1) not in ("repr", "allow", "deprecated")]
        if not ms:
            continue
        m = rng.choice(ms)
        body = mutate_body(rng, m.group(2))
        new = src[:m.start()] + "#[%s%s]" % (m.group(1), body if body.startswith(("(", "=")) or not body else "(" + body + ")") + src[m.end():]
        for d in it.derives:
            out.append((d, new, "mutated"))
    return out


def placement_items(rng, table, n):
    out = []
    for _ in range(n):
        feat, mod_, tr, attrs = rng.choice(table)
        shape = rng.choice(SHAPES)
        names = attrs or [rng.choice(["display", "from", "into", "error", "as_ref", "deref"])]
        item_attr = "#[%s%s] " % (rng.choice(names), rng.choice(BODIES)) if rng.random() < 0.6 else ""
        if rng.random() < 0.15:
            item_attr += "#[%s%s] " % (rng.choice(names), rng.choice(BODIES))

        def fill(m):
            if rng.random() < 0.5:
                return ""
            return "#[%s%s] " % (rng.choice(names), rng.choice(BODIES))
        src = item_attr + re.sub(r"@[FV] ", fill, shape)
        out.append((tr, src, "placement"))
    return out


LIT_TEMPLATES = [
    ("Display", "#[display(@LIT@)] struct S;"), ("Display", "#[display(@LIT@, _0, _1)] struct S<T, U>(T, U);"),
    ("Display", "#[display(@LIT@, a = x, b = y)] struct S<T, U> { x: T, y: U }"), ("LowerHex", "#[lower_hex(@LIT@)] struct S<T>(T);"),
    ("Debug", "#[debug(@LIT@)] struct S<T>(T, u8);"), ("Debug", "struct S<T> { #[debug(@LIT@)] x: T, y: u8 }"),
    ("Debug", "enum E<T> { #[debug(@LIT@)] A(T), B { #[debug(@LIT@, x)] x: T } }"), ("Display", "#[display(@LIT@)] enum E<T> { A(T), #[display(@LIT@)] B { x: T }, C }"),
    ("Display", "enum E { #[display(@LIT@)] A, B(u8) }"), ("Display", "#[display(@LIT@, _variant)] enum E { A, B(u8) }"),
    ("Pointer", "#[pointer(@LIT@)] struct S<'a>(&'a u8);"), ("Display", "#[display(@LIT@)] union U { a: u8 }"),
]


def confirm_hang(derive, item, tries=3, limit=20):
    """A watchdog expiry is a verdict only if the single case reproducibly exceeds `limit` seconds in isolation."""
    n = 0
    for _ in range(tries):
        rc, outs, err, _ = inproc.run_mode("expand", ["0\t%s\t%s" % (derive, inproc.hexs(item))], timeout=limit)
        if rc == -998:
            n += 1
    return n == tries


# bodies each helper attribute documents (or nearly documents): used for the systematic sweep, where every
# (derive, shape, body, position) and every pair of positions is tried, not sampled
RELEVANT = {
    "error": ["(source)", "(backtrace)", "(not(source))", "(not(backtrace))", "(ignore)", "(source, backtrace)", ""],
    "from": ["", "(skip)", "(ignore)", "(forward)", "(u8)", "(u8, u16)", "((u8, u16))", "(())", "((u8,))", "((u8, u16, u32))", "(u8 u16)", "(forward skip)",
             # redundant parentheses / nesting around listed types
             "(((u8, u16)))", "((((u8, u16))))", "((u8))", "(((u8), (u16)))", "((u8, (u16)))", "([u8; 2])", "(&'static u8)", "((&'static u8, u16))", "(types::X)",
             "(u8, u16,)", "((u8, u16,),)", "((u8, u16,), (u16, u8,),)", "(forward,)", "(skip,)"],
    "into": ["", "(skip)", "(ignore)", "(owned)", "(ref)", "(ref_mut)", "(owned, ref, ref_mut)", "(u8)", "(ref(u8))", "((u8, u16))", "(())", "((u8,))", "(owned(u8) u16)",
             "(owned(u8) ref(u8))", "(u8 u16)", "(owned(u8), u16)", "(ref ref_mut)",
             "(((u8, u16)))", "((u8))", "(owned((u8)))", "(ref(((u8, u16))))", "(u8, ref)", "(ref, u8)",
             # trailing commas at every level
             "(owned(u8, u16,), ref(u8))", "(owned(u8,), ref(u8,), ref_mut(u8,),)", "(owned(u8,),)", "(u8, u16,)", "(owned, ref,)", "((u8, u16,),)", "(ref((u8, u16,),), owned)"],
    "as_ref": ["", "(skip)", "(ignore)", "(forward)", "(u8)", "(str, [u8])", "(())", "(u8 u16)", "(forward u8)", "((u8))", "(((u8, u16)))", "(u8, u16,)", "(forward,)"],
    "as_mut": ["", "(skip)", "(ignore)", "(forward)", "(u8)"],
    "deref": ["", "(ignore)", "(forward)"], "deref_mut": ["", "(ignore)", "(forward)"],
    "index": ["", "(ignore)"], "index_mut": ["", "(ignore)"],
    "into_iterator": ["", "(ignore)", "(owned)", "(ref)", "(ref_mut)", "(owned, ref, ref_mut)", "(owned, ref, ref_mut,)", "(ignore,)"],
    "is_variant": ["", "(ignore)"], "unwrap": ["", "(ignore)", "(ref)", "(ref_mut)", "(owned)", "(ref, ref_mut)"],
    "try_unwrap": ["", "(ignore)", "(ref)", "(ref_mut)", "(owned)", "(ref, ref_mut)"],
    "try_into": ["", "(ignore)", "(ref)", "(ref_mut)", "(owned)", "(owned, ref, ref_mut)", "(owned, ref, ref_mut,)"],
    "try_from": ["(repr)", "(repr(u8))"],
    "display": ["(\"lit\")", "(\"{}\", _0)", "(\"{_0} {x}\")", "(bound(T: Copy))", "(rename_all = \"snake_case\")", "(\"{_variant}\")"],
    "debug": ["(skip)", "(ignore)", "(\"lit\")", "(\"{}\", _0)", "(\"{_0:?} {x:?}\")", "(bound(T: Copy))"],
    "mul": ["(forward)"], "mul_assign": ["(forward)"],
}


def sweep_items(rng, table, limit_pairs):
    """Every (derive, shape, relevant body, single slot) and - up to `limit_pairs` per (derive, shape) - every pair of slots."""
    out = []
    for feat, mod_, tr, attrs in table:
        for at in attrs:
            bodies = RELEVANT.get(at) or RELEVANT.get({"binary": "display", "octal": "display", "lower_hex": "display", "upper_hex": "display", "lower_exp": "display",
                                                     "upper_exp": "display", "pointer": "display", "div": "mul", "rem": "mul", "shr": "mul", "shl": "mul",
                                                     "div_assign": "mul_assign", "rem_assign": "mul_assign", "shr_assign": "mul_assign", "shl_assign": "mul_assign"}.get(at, ""), [""])
            for shape in SHAPES:
                slots = [m.start() for m in re.finditer(r"@[FV] ", shape)]
                nslots = len(slots) + 1  # + item level

                # simple explicit construction
                def make(assign):
                    k = [0]

                    def rep(m):
                        k[0] += 1
                        b = assign.get(k[0])
                        return "#[%s%s] " % (at, b) if b is not None else ""
                    body = re.sub(r"@[FV] ", rep, shape)
                    if assign.get(0) is not None:
                        body = "#[%s%s] " % (at, assign[0]) + body
                    return body
                for pos in range(nslots):
                    for b in bodies:
                        out.append((tr, make({pos: b}), "sweep1"))
                pairs = [(i, j) for i in range(nslots) for j in range(i + 1, nslots)]
                combos = [(i, j, b1, b2) for (i, j) in pairs for b1 in bodies for b2 in bodies]
                if len(combos) > limit_pairs:
                    combos = rng.sample(combos, limit_pairs)
                for i, j, b1, b2 in combos:
                    out.append((tr, make({i: b1, j: b2}), "sweep2"))
    return out


def run(ctx):
    rng = ctx.rng
    inproc.build()
    table = inproc.derives()
    corpus = items.all_items()
    # (a) literals, in Rust, sharded
    maxlen = ctx.pick(3, 4)
    nrand = ctx.pick(4000, 60000)
    nsh = common.NCPU

    def bulk(k):
        return inproc.run_mode("bulk18", [], args=[inproc.hexs(ALPHABET), str(maxlen), str(k), str(nsh), str(nrand), str(ctx.seed), "lite"], timeout=ctx.pick(400, 1500))

    # (b)+(c)
    cases = []
    for d, src, kind in mutated_items(rng, corpus, ctx.pick(12000, 300000)) + placement_items(rng, table, ctx.pick(40000, 600000)):
        cases.append((d, src, kind))
    cases += sweep_items(rng, table, ctx.pick(12, 120))
    # every shape x every derive with no attribute at all
    for shape in SHAPES:
        base = re.sub(r"@[FV] ", "", shape)
        for feat, mod_, tr, attrs in table:
            cases.append((tr, base, "bare"))
    parts = common.chunks(cases, nsh)

    def expand(part_idx):
        part = parts[part_idx]
        lines = ["%d\t%s\t%s" % (i, d, inproc.hexs(src)) for i, (d, src, kind) in enumerate(part)]
        rc, outs, err, last = inproc.run_mode("expand", lines, args=["--digest"], timeout=ctx.pick(400, 1500))
        return part_idx, rc, outs, err, last

    with ThreadPoolExecutor(max_workers=nsh) as ex:
        bulk_res = list(ex.map(bulk, range(nsh)))
        exp_res = list(ex.map(expand, range(len(parts))))

    # literals
    for k, (rc, outs, err, last) in enumerate(bulk_res):
        st = [o for o in outs if o.get("kind") == "stats"]
        if rc == -998:
            hung = None
            if last is not None:
                for d_, tpl in LIT_TEMPLATES:
                    it_ = tpl.replace("@LIT@", common.rs_str(last))
                    if confirm_hang(d_, it_):
                        hung = (d_, it_)
                        break
            if hung:
                ctx.violate("hang:literal:%s" % hung[0], "derive(%s) does not terminate within 20 s (3 isolated attempts) on `%s`" % (hung[0], hung[1][:300]), derive=hung[0], item=hung[1])
                continue
            raise Inconclusive("literal shard %d timed out at %r and no single template reproduces it" % (k, last))
        if rc != 0 or not st:
            # the child died: the journal names the literal
            ctx.violate("crash:literal", "child process died (rc=%s) while handling literal %r: %s" % (rc, last, err[-300:]), literal=last, stderr=err[-2000:])
            continue
        for key in ("literals", "expansions", "accepted", "rejected", "deliberate"):
            ctx.bump("lit_" + key, st[0][key])
        for o in outs:
            if o.get("kind") == "panic":
                ctx.violate("internal:literal:%s:%s" % (o.get("why", "")[:40], normalise(o.get("msg"))),
                            "internal failure on literal %r in %s: %s (%s) at %s:%s" % (o["id"], o.get("where", "")[:200], o.get("msg"), o.get("why"), o.get("file"), o.get("line")),
                            literal=o["id"], where=o.get("where"), panic=o)
    ctx.count(ctx.extra.get("lit_literals", 0))
    ctx.cls(("literals", "exhaustive<=%d" % maxlen))
    # expansions
    kinds = {}
    for part_idx, rc, outs, err, last in exp_res:
        part = parts[part_idx]
        got = {o["id"]: o for o in outs}
        if rc == -998:
            try:
                d, src, kind = part[int(last)]
            except (TypeError, ValueError, IndexError):
                raise Inconclusive("expansion shard %d timed out without a usable journal" % part_idx)
            if confirm_hang(d, src):
                ctx.violate("hang:%s" % d, "derive(%s) does not terminate within 20 s (3 isolated attempts) on `%s`" % (d, src[:400]), derive=d, item=src)
                continue
            raise Inconclusive("expansion shard %d timed out at case %r, which terminates in isolation" % (part_idx, last))
        if rc != 0 or len(got) != len(part):
            # attribute the death
            try:
                d, src, kind = part[int(last)]
            except (TypeError, ValueError, IndexError):
                raise Inconclusive("expansion shard %d died (rc=%s) without a usable journal: %s" % (part_idx, rc, err[-300:]))
            rc1, outs1, err1, _ = inproc.run_mode("expand", ["0\t%s\t%s" % (d, inproc.hexs(src))], timeout=120)
            if rc1 != 0 or not outs1:
                ctx.violate("crash:%s" % d, "child process dies (rc=%s, %s) expanding derive(%s) on `%s`" % (rc1, (err1 or "").strip()[-200:], d, src[:400]), derive=d, item=src, stderr=err1[-2000:])
            else:
                raise Inconclusive("expansion shard %d died (rc=%s) but case %r does not reproduce it" % (part_idx, rc, last))
            continue
        for i, (d, src, kind) in enumerate(part):
            o = got[str(i)]
            ctx.count()
            k = o["kind"]
            kinds[k if k != "panic" else "panic_" + o.get("class", "?")] = kinds.get(k if k != "panic" else "panic_" + o.get("class", "?"), 0) + 1
            if k == "badinput":
                continue
            ctx.cls((d, kind, common.digest(re.sub(r"\w+", "w", src))[:6]))
            if k == "panic" and o.get("class") != "deliberate":
                ctx.violate("internal:%s:%s:%s" % (d, o.get("why", "")[:50], normalise(o.get("msg"))),
                            "internal failure in derive(%s) on `%s`: %s (%s) at %s:%s" % (d, src[:400], o.get("msg"), o.get("why"), o.get("file"), o.get("line")),
                            derive=d, item=src, panic=o)
    for k, v in kinds.items():
        ctx.bump("outcome_" + k, v)
    ctx.sample({"literal_alphabet": ALPHABET, "max_exhaustive_length": maxlen, "random_long_literals_per_shard": nrand})
    for d, src, kind in cases[:2] + cases[len(cases) // 2: len(cases) // 2 + 2] + cases[-2:]:
        ctx.sample({"derive": d, "item": src[:300], "kind": kind})
    ctx.rule = ("(a) all strings up to the length bound over a %d-symbol alphabet with 1-4 byte and combining characters, plus random long ones, through the literal parser and 12 attribute "
                "templates; (b) documented attributes of the supported corpus mutated at token level (delete/duplicate/swap/replace/insert/wrap/nest to depth 128); (c) %d item shapes incl. "
                "unsupported ones x all derives x %d attribute bodies on item/variant/field; distinct = distinct (derive, kind, token-shape) classes; inputs syn cannot parse are not counted" % (
                    len(ALPHABET), len(SHAPES), len(BODIES)))
    ctx.assumptions += ["a panic is deliberate only if raised by derive_more-impl's own frame through panic!/assert! with a message, with no std failure frame beneath it (backtrace-based)",
                       "in-process expansion on an 8 MiB stack thread stands for expansion inside rustc"]
    if ctx.extra.get("outcome_ok", 0) < 100 or ctx.extra.get("outcome_err", 0) < 100:
        raise Inconclusive("workload did not reach both Ok and Err outcomes often enough")
