"""C11 - variant accessors agree with the value's variant and never lose data.

Generated programs derive IsVariant / Unwrap / TryUnwrap / TryInto on random enums whose payload
fields are `rt::Tag`-like values with distinct numbers.  For every accessor the generated `run()`
walks all variant values of the enum (the complete value x accessor table) and logs one cell per
pair: what came back through derive_more's generated code (return value, caught panic, `Err.input`,
addresses of returned references) next to a reference computed in the same process by a plain
`match` on the variant the generator knows.  The verdict is computed offline.

Presence of the inherent methods is observed at run time, not assumed: every case implements a
fallback trait with the same method names returning `Absent` (inherent methods win over trait
methods), so a missing or misnamed method shows up as the cell value `absent` instead of a compile
error that would hide the rest of the table.  `TryFrom` impls are called with fully qualified
syntax; a missing impl is a compile error attributed to the case.
"""
import re

from . import common, l2
from .l2 import Case

NAMES = ["Alpha", "Beta", "Gamma", "Delta", "Unit", "BetaGamma", "EpsilonZetaEta", "Omega", "PhiChi", "Nothing", "Just", "LeftMost", "Loop", "Match"]
RAWABLE = ("Loop", "Match")     # written `r#Loop`: the method names use the unrawed name (`is_loop`)
FNAMES = ["x", "y", "z"]
DERIVE_ATTR = {"IsVariant": "is_variant", "Unwrap": "unwrap", "TryUnwrap": "try_unwrap", "TryInto": "try_into"}
FORMS = ("owned", "ref", "mut")
SEL_OF_FORM = {"owned": "owned", "ref": "ref", "mut": "ref_mut"}
KNOWN_SLUG = {"Unwrap": "known:unwrap-variant-ref", "TryUnwrap": "known:try-unwrap-variant-ref"}


def snake(name):
    """snake_case of a plain PascalCase identifier (the only names the generator uses)."""
    return re.sub(r"(?<!^)([A-Z])", r"_\1", name).lower()


PRELUDE = r"""
pub struct Absent;
pub struct W<T>(pub T);
pub static LT: [Tag; 8] = [Tag(9000), Tag(9001), Tag(9002), Tag(9003), Tag(9004), Tag(9005), Tag(9006), Tag(9007)];

pub trait Id { fn id(&self) -> String; }
pub fn idf<T: Id>(t: &T) -> String { t.id() }
impl Id for Absent { fn id(&self) -> String { "absent".to_string() } }
impl Id for bool { fn id(&self) -> String { format!("{}", self) } }
impl Id for () { fn id(&self) -> String { "()".to_string() } }
impl Id for Tag { fn id(&self) -> String { format!("Tag({})", self.0) } }
impl Id for Scalar { fn id(&self) -> String { format!("Scalar({})", self.0) } }
impl<const K: usize> Id for Src<K> { fn id(&self) -> String { format!("Src{}({})", K, self.0) } }
impl<const K: usize> Id for Dst<K> { fn id(&self) -> String { format!("Dst{}({})", K, self.0) } }
impl<T: Id> Id for W<T> { fn id(&self) -> String { format!("W({})", self.0.id()) } }
impl<T: Id> Id for Vec<T> { fn id(&self) -> String { format!("vec[{}]", self.iter().map(|x| x.id()).collect::<Vec<_>>().join(",")) } }
impl<T: Id, const N: usize> Id for [T; N] { fn id(&self) -> String { format!("arr[{}]", self.iter().map(|x| x.id()).collect::<Vec<_>>().join(",")) } }
impl<'a, T: Id> Id for &'a T { fn id(&self) -> String { format!("&{}@{}", (**self).id(), addr(&**self)) } }
impl<'a, T: Id> Id for &'a mut T { fn id(&self) -> String { format!("&{}@{}", (**self).id(), addr(&**self)) } }
impl<A: Id, B: Id> Id for (A, B) { fn id(&self) -> String { format!("({}, {})", self.0.id(), self.1.id()) } }
impl<A: Id, B: Id, C: Id> Id for (A, B, C) { fn id(&self) -> String { format!("({}, {}, {})", self.0.id(), self.1.id(), self.2.id()) } }

/// Rendering of a whole enum value (implemented per case by a plain match); references add the address.
pub trait D { fn d(&self) -> String; }
pub fn df<S: D>(s: &S) -> String { s.d() }
impl<'a, X: D> D for &'a X { fn d(&self) -> String { format!("&{}@{}", (**self).d(), addr(&**self)) } }
impl<'a, X: D> D for &'a mut X { fn d(&self) -> String { format!("&{}@{}", (**self).d(), addr(&**self)) } }

pub trait TU { fn tu(self) -> (String, String); }
impl TU for Absent { fn tu(self) -> (String, String) { ("absent".to_string(), String::new()) } }
impl<T: Id, S: D> TU for Result<T, derive_more::TryUnwrapError<S>> {
    fn tu(self) -> (String, String) {
        match self {
            Ok(t) => (format!("Ok {}", t.id()), String::new()),
            Err(e) => { let m = e.to_string(); (format!("Err {}", D::d(&e.input)), m) }
        }
    }
}
pub fn ti<T: Id, S: D>(r: Result<T, derive_more::TryIntoError<S>>) -> String {
    match r { Ok(t) => format!("Ok {}", t.id()), Err(e) => format!("Err {}", D::d(&e.input)) }
}
pub fn kn(a: &str, v: &str) -> String { format!("{}/{}", a, v) }
/// value of a panicking accessor; a panic message other than the one the current implementation
/// uses is only an observation (the documentation promises a panic, not its text)
pub fn pc(r: Result<String, String>, kind: &str, msg: &str) -> String {
    match r {
        Ok(s) => s,
        Err(m) => { if m != msg { obs(&format!("{}#panicmsg", kind), &m); } "panic".to_string() }
    }
}
/// mode 0: the method must exist, 1: it must not exist, 2: documentation is silent (observe presence)
pub fn cell(mode: u8, kind: &str, got: String, want: String) {
    match mode {
        0 => cmp(kind, &got, &want),
        1 => cmp(kind, &got, "absent"),
        _ => if got == "absent" { obs(&format!("{}#absent", kind), "absent") } else { obs(&format!("{}#present", kind), "present"); cmp(kind, &got, &want) }
    }
}
/// one-sided cell: `alt` is an outcome that is also acceptable (documentation silent on which)
pub fn cell2(kind: &str, got: String, want: String, alt: Option<String>) {
    if let Some(a) = alt {
        if got == a { obs(&format!("{}#alt", kind), "alt"); return; }
        obs(&format!("{}#main", kind), "main");
    }
    cmp(kind, &got, &want);
}
/// Display text of a TryUnwrapError; strict: whole text documented, otherwise only the variant part
pub fn msgcell(strict: bool, kind: &str, got_cell: &str, msg: &str, want: &str) {
    if !got_cell.starts_with("Err") { return; }
    let k = format!("{}#msg", kind);
    if strict { cmp(&k, msg, want); return; }
    let tail = |s: &str| s.rsplit_once(" on a ").map(|p| p.1.to_string()).unwrap_or_else(|| format!("<no ` on a `> {}", s));
    cmp(&k, &tail(msg), &tail(want));
    if msg != want { obs(&format!("{}#msgfull", kind), msg); }
}
"""


# ---------------------------------------------------------------------------------------------
# enum model

class Field:
    __slots__ = ("decl", "inst", "ti_ignore", "name", "fattr")

    def __init__(self, decl, inst, name=None):
        self.decl, self.inst, self.name, self.ti_ignore = decl, inst, name, False
        self.fattr = ""  # field-level `#[unwrap(ignore)]` / `#[try_unwrap(ignore)]`: accepted, and the field is still returned


class Variant:
    __slots__ = ("name", "ident", "snake", "kind", "fields", "attr")

    def __init__(self, name, kind, fields, raw=False):
        self.name, self.snake, self.kind, self.fields = name, snake(name), kind, fields
        self.ident = ("r#" + name) if raw else name
        self.attr = {}          # attr name -> None | "ignore" | "mark" | frozenset of selections

    def pattern(self, binders):
        if self.kind == "unit":
            return "E::%s" % self.ident
        if self.kind == "tuple":
            return "E::%s(%s)" % (self.ident, ", ".join(binders))
        return "E::%s { %s }" % (self.ident, ", ".join("%s: %s" % (f.name, b) for f, b in zip(self.fields, binders)))

    def ti_types(self):
        return tuple(f.decl for f in self.fields if not f.ti_ignore)


CONCRETE = [("Tag", "Tag"), ("Scalar", "Scalar"), ("Src<1>", "Src<1>"), ("Dst<2>", "Dst<2>")]
CONCRETE_BUILT = [("Vec<Tag>", "Vec<Tag>"), ("[Tag; 2]", "[Tag; 2]"), ("W<Scalar>", "W<Scalar>")]
GEN_T = [("Vec<T>", "Vec<Tag>"), ("[T; 2]", "[Tag; 2]"), ("W<T>", "W<Tag>")]


def literal(inst, n, ltk):
    if inst == "Tag":
        return "Tag(%d)" % n
    if inst == "Scalar":
        return "Scalar(%d)" % n
    if inst == "Src<1>":
        return "Src::<1>(%d)" % n
    if inst == "Dst<2>":
        return "Dst::<2>(%d)" % n
    if inst == "Vec<Tag>":
        return "vec![Tag(%d), Tag(%d)]" % (n, n + 5000)
    if inst == "[Tag; 2]":
        return "[Tag(%d), Tag(%d)]" % (n, n + 5000)
    if inst == "W<Scalar>":
        return "W(Scalar(%d))" % n
    if inst == "W<Tag>":
        return "W(Tag(%d))" % n
    if inst == "&'static Tag":
        return "&LT[%d]" % ltk
    raise AssertionError(inst)


class Enum:
    def __init__(self):
        self.variants = []
        self.derives = []
        self.attr = {}            # enum-level: attr name -> None | frozenset of selections
        self.params = []          # subset of ["'a", "T", "N"] in declaration order
        self.bound = None         # None | "inline" | "where"
        self.mode = {}            # derive -> generation family

    # -- generics ------------------------------------------------------------------------
    def decl_generics(self):
        ps = []
        for p in self.params:
            if p == "T":
                ps.append("T: Copy" if self.bound == "inline" else "T")
            elif p == "N":
                ps.append("const N: usize")
            else:
                ps.append(p)
        return "<%s>" % ", ".join(ps) if ps else ""

    def where(self):
        return " where T: Clone" if self.bound == "where" and "T" in self.params else ""

    def inst(self):
        m = {"'a": "'static", "T": "Tag", "N": "2"}
        return "E<%s>" % ", ".join(m[p] for p in self.params) if self.params else "E"

    # -- text ----------------------------------------------------------------------------
    @staticmethod
    def attr_text(name, val):
        if val is None:
            return None
        if val == "mark":
            return "#[%s]" % name
        if val == "ignore":
            return "#[%s(ignore)]" % name
        order = ["owned", "ref", "ref_mut"]
        return "#[%s(%s)]" % (name, ", ".join(s for s in order if s in val))

    def source(self):
        out = ["#[derive(%s)]" % ", ".join("derive_more::" + d for d in self.derives)]
        for d in self.derives:
            t = self.attr_text(DERIVE_ATTR[d], self.attr.get(DERIVE_ATTR[d]))
            if t:
                out.append(t)
        out.append("pub enum E%s%s {" % (self.decl_generics(), self.where()))
        foreign = ["#[doc(hidden)]", "/// a doc comment", "#[allow(dead_code)]", "#[cfg(all())]", "#[doc = \"x\"] #[allow(unused)]"]
        for vi, v in enumerate(self.variants):
            # attributes of other tools on a variant (docs, lints, cfg) - before, between or after derive_more's own -
            # leave it an ordinary variant; chosen deterministically from the declaration so that reruns agree
            h = int(common.digest("%s|%d|%s" % (v.name, vi, ",".join(self.derives))), 16)
            fa = foreign[h % len(foreign)] if h % 5 < 2 else None
            if fa and h % 2:
                out.append("    " + fa)
            for d in self.derives:
                t = self.attr_text(DERIVE_ATTR[d], v.attr.get(DERIVE_ATTR[d]))
                if t:
                    out.append("    " + t)
            if fa and not h % 2:
                out.append("    " + fa)
            if v.kind == "unit":
                out.append("    %s," % v.ident)
            elif v.kind == "tuple":
                out.append("    %s(%s)," % (v.ident, ", ".join(f.fattr + ("#[try_into(ignore)] " if f.ti_ignore else "") + f.decl for f in v.fields)))
            else:
                out.append("    %s { %s }," % (v.ident, ", ".join(("#[try_into(ignore)] " if f.ti_ignore else "") + "%s: %s" % (f.name, f.decl) for f in v.fields)))
        out.append("}")
        return "\n".join(out)

    # -- documented model ----------------------------------------------------------------
    def ignored(self, v, attr):
        return v.attr.get(attr) == "ignore"

    def has_varsel(self, attr):
        return any(isinstance(v.attr.get(attr), frozenset) for v in self.variants)

    def doc_presence(self, derive, v, form):
        """'P' the docs promise the method, 'A' the docs promise its absence, 'E' docs are silent."""
        attr = DERIVE_ATTR[derive]
        if self.ignored(v, attr):
            return "A"
        if derive == "IsVariant":
            return "P"
        if form == "owned":
            return "P"     # "for each variant `foo` ... `unwrap_foo(self)` is generated"
        sel = SEL_OF_FORM[form]
        esel = self.attr.get(attr) or frozenset()
        vsel = v.attr.get(attr) if isinstance(v.attr.get(attr), frozenset) else frozenset()
        return "P" if (sel in esel or sel in vsel) else "E"

    def defect_presence(self, derive, v, form):
        """Presence predicted by the model of the known defect (variant-level ref/ref_mut handled by
        the generic attribute machinery of impl/src/utils.rs: a variant-level selection never adds a
        reference form, `X && enum-level X` is required; without an enum-level attribute a first
        attributed variant that is not `ignore` switches to opt-in mode for all variants and, if it
        names both `ref` and `ref_mut`, turns the owned form off)."""
        attr = DERIVE_ATTR[derive]
        eat = self.attr.get(attr)
        first = None
        for w in self.variants:
            if w.attr.get(attr) is not None:
                first = w.attr.get(attr)
                break
        if eat is not None:
            default_enabled = True
        elif first is None:
            default_enabled = True
        else:
            default_enabled = (first == "ignore")
        if first is None or first == "ignore":
            default_owned = True
        else:
            # utils.rs: `info.owned.is_none() && info.ref_.is_none() || info.ref_mut.is_none()`
            default_owned = ("owned" not in first and "ref" not in first) or ("ref_mut" not in first)
        esel = eat or frozenset()
        if "owned" in esel:
            default_owned = True
        a = v.attr.get(attr)
        enabled = default_enabled if a is None else (a != "ignore")
        if not enabled:
            return False
        if form == "owned":
            return default_owned
        return SEL_OF_FORM[form] in esel


def gen_enum(rng, fam):
    en = Enum()
    r = rng
    # derives
    if fam == "ti_only":
        en.derives = ["TryInto"] + [d for d in ("IsVariant",) if r.random() < 0.5]
    elif fam == "methods_only":
        en.derives = ["IsVariant", "Unwrap", "TryUnwrap"]
    else:
        en.derives = [d for d in ("IsVariant", "Unwrap", "TryUnwrap", "TryInto") if r.random() < 0.9] or ["IsVariant"]
        if fam == "varsel" and not ({"Unwrap", "TryUnwrap"} & set(en.derives)):
            en.derives.append(r.choice(["Unwrap", "TryUnwrap"]))
        if fam in ("whitelist", "tivarobs") and "TryInto" not in en.derives:
            en.derives.append("TryInto")
    has_ti = "TryInto" in en.derives
    # generics
    g = r.random()
    if g < 0.45:
        params = []
    elif g < 0.70:
        params = ["T"]
    elif g < 0.80:
        params = ["'a"]
    elif g < 0.90:
        params = ["'a", "T"]
    else:
        params = ["N"] if r.random() < 0.6 else ["T", "N"]
    pool = list(CONCRETE)
    if "T" in params:
        pool += GEN_T + GEN_T
        if not has_ti:
            pool.append(("T", "Tag"))
    else:
        pool += CONCRETE_BUILT
    if "'a" in params:
        pool += [("&'a Tag", "&'static Tag")] * 3
    if "N" in params:
        # `[T; 2]` and `[Tag; N]` unify (T = Tag, N = 2): two TryFrom impls would overlap (E0119), whatever the derive does
        pool = [p for p in pool if p[0] not in ("[Tag; 2]", "[T; 2]")] + [("[Tag; N]", "[Tag; 2]")] * 3
    nv = r.choice([1, 2, 2, 3, 3, 3, 4, 4, 4, 5, 5, 6])
    names = r.sample(NAMES, nv)
    shared = [[r.choice(pool) for _ in range(r.choice([1, 1, 2, 2, 3]))] for _ in range(r.choice([1, 2, 2, 3]))]
    for name in names:
        k = r.random()
        if k < 0.18:
            kind, tys = "unit", []
        else:
            kind = "tuple" if k < 0.75 else "named"
            z = r.random()
            if z < 0.07:
                tys = []
            elif z < 0.70:
                tys = list(r.choice(shared))
            else:
                tys = [r.choice(pool) for _ in range(r.choice([1, 2, 3]))]
        fields = [Field(d, i, FNAMES[j] if kind == "named" else None) for j, (d, i) in enumerate(tys)]
        en.variants.append(Variant(name, kind, fields, raw=(name in RAWABLE and r.random() < 0.7)))
    # drop unused generic parameters (rustc rejects them whatever the derive does)
    text = " ".join(f.decl for v in en.variants for f in v.fields)
    used = []
    for p in params:
        if (p == "'a" and "'a" in text) or (p == "T" and re.search(r"\bT\b", text)) or (p == "N" and re.search(r"\bN\b", text)):
            used.append(p)
    en.params = used
    if "T" in used:
        en.bound = r.choice([None, None, "inline", "where"])
    # attributes
    for d in en.derives:
        a = DERIVE_ATTR[d]
        en.mode[d] = "plain"
        if d == "IsVariant":
            for v in en.variants:
                if r.random() < 0.2:
                    v.attr[a] = "ignore"
        elif d in ("Unwrap", "TryUnwrap"):
            for v in en.variants:
                if v.kind == "named":
                    v.attr[a] = "ignore"      # records cannot be unwrapped; `ignore` is the documented way out
                elif r.random() < 0.2:
                    v.attr[a] = "ignore"
            z = r.random()
            if z < 0.55:
                en.attr[a] = frozenset(r.choice([["ref"], ["ref_mut"], ["ref", "ref_mut"], ["ref", "ref_mut"]]))
            if fam == "varsel":
                cands = [v for v in en.variants if v.attr.get(a) is None]
                if cands:
                    en.mode[d] = "varsel"
                    for v in r.sample(cands, r.randint(1, len(cands))):
                        v.attr[a] = frozenset(r.choice([["ref"], ["ref_mut"], ["ref", "ref_mut"]]))
        else:
            for v in en.variants:
                if v.fields and r.random() < 0.25:
                    for f in r.sample(v.fields, r.randint(1, len(v.fields))):
                        f.ti_ignore = True
            z = r.random()
            if z < 0.6:
                en.attr[a] = frozenset(r.choice([["owned"], ["ref"], ["ref_mut"], ["owned", "ref"], ["owned", "ref_mut"], ["ref", "ref_mut"],
                                                 ["owned", "ref", "ref_mut"], ["owned", "ref", "ref_mut"], ["owned", "ref", "ref_mut"]]))
            if fam == "whitelist":
                en.mode[d] = "whitelist"
                for v in r.sample(en.variants, r.randint(1, len(en.variants))):
                    v.attr[a] = "mark"
            elif fam == "tivarobs":
                en.mode[d] = "varobs"
                for v in r.sample(en.variants, r.randint(1, len(en.variants))):
                    v.attr[a] = frozenset(r.choice([["ref"], ["ref_mut"], ["owned"], ["owned", "ref"], ["ref", "ref_mut"]]))
            else:
                for v in en.variants:
                    if r.random() < 0.2:
                        v.attr[a] = "ignore"
    # field-level `ignore` of Unwrap/TryUnwrap on fields of tuple variants: the accessors return "X's fields in declaration
    # order" - all of them (an ignored FIELD is not an ignored variant; dropping it from the tuple loses data)
    uw = [DERIVE_ATTR[d] for d in en.derives if d in ("Unwrap", "TryUnwrap")]
    if uw and fam in ("full", "plain", "basic") or (uw and r.random() < 0.3 and fam not in ("varsel",)):
        for v in en.variants:
            if v.kind == "tuple" and v.fields and r.random() < 0.3 and all(v.attr.get(a) in (None, "ignore") for a in uw):
                for f in r.sample(v.fields, r.randint(1, len(v.fields))):
                    f.fattr = "".join("#[%s(ignore)] " % a for a in uw if r.random() < 0.8)
    return en


# ---------------------------------------------------------------------------------------------
# program text

def tuple_expr(names):
    return "()" if not names else "(%s)" % ", ".join(names)


def tuple_type(tys, ref=""):
    if not tys:
        return "()"
    return "(%s)" % ", ".join(ref + t for t in tys)


def build_case(cid, en, rng, fam):
    nv = len(en.variants)
    EI = en.inst()
    items = [en.source(), "pub type EI = %s;" % EI]
    # constructors: field numbers are distinct within the enum so that order and origin are visible
    base = rng.randrange(1, 40) * 100
    arms = []
    values = []
    for vi, v in enumerate(en.variants):
        lits = []
        for fi, f in enumerate(v.fields):
            lits.append(literal(f.inst, base + 10 * vi + fi + 1, (2 * vi + fi) % 8))
        if v.kind == "unit":
            e = "E::%s" % v.ident
        elif v.kind == "tuple":
            e = "E::%s(%s)" % (v.ident, ", ".join(lits))
        else:
            e = "E::%s { %s }" % (v.ident, ", ".join("%s: %s" % (f.name, l) for f, l in zip(v.fields, lits)))
        values.append(e)
        arms.append("%s => %s," % (vi if vi < nv - 1 else "_", e))
    items.append("pub fn mk(i: usize) -> EI { match i { %s } }" % " ".join(arms))
    items.append("pub const NV: usize = %d;" % nv)
    items.append("pub const VN: [&str; %d] = [%s];" % (nv, ", ".join('"%s"' % v.name for v in en.variants)))
    # how a raw-identifier variant is spelt in TryUnwrapError's text is not documented: observed only
    items.append("pub const RAWV: [bool; %d] = [%s];" % (nv, ", ".join("true" if v.ident != v.name else "false" for v in en.variants)))
    darms = []
    for v in en.variants:
        bs = ["f%d" % i for i in range(len(v.fields))]
        darms.append("%s => format!(\"%s[{}]\", (vec![%s] as Vec<String>).join(\",\"))," % (v.pattern(bs), v.name, ", ".join("idf(%s)" % b for b in bs)))
    items.append("impl D for EI { fn d(&self) -> String { match self { %s } } }" % " ".join(darms))
    # fallback methods: what a call resolves to when the derive generated no inherent method
    fb = []
    for v in en.variants:
        s = v.snake
        fb.append("fn is_%s(&self) -> Absent { Absent }" % s)
        for p in ("unwrap", "try_unwrap"):
            fb.append("fn %s_%s(self) -> Absent { Absent }" % (p, s))
            fb.append("fn %s_%s_ref(&self) -> Absent { Absent }" % (p, s))
            fb.append("fn %s_%s_mut(&mut self) -> Absent { Absent }" % (p, s))
    items.append("pub trait Fb: Sized { %s }" % " ".join(fb))
    items.append("impl Fb for EI {}")

    body = []
    acc = {}          # accessor label -> description used by the offline oracle
    ncells = 0

    def block(lines):
        body.append("for i in 0..NV {")
        body.extend("    " + l for l in lines)
        body.append("}")

    mode_no = {"P": 0, "A": 1, "E": 2}
    for d in en.derives:
        a = DERIVE_ATTR[d]
        if d == "IsVariant":
            for xi, v in enumerate(en.variants):
                m = en.doc_presence(d, v, "owned")
                lab = "is_%s" % v.snake
                acc[lab] = {"derive": d, "form": "ref", "x": [v.name], "mode": m, "method": lab}
                block(["let e = mk(i);",
                       "cell(%d, &kn(\"%s\", VN[i]), idf(&e.%s()), idf(&(i == %d)));" % (mode_no[m], lab, lab, xi)])
                ncells += nv
        elif d in ("Unwrap", "TryUnwrap"):
            pre = "unwrap" if d == "Unwrap" else "try_unwrap"
            for xi, v in enumerate(en.variants):
                if v.kind == "named":
                    # no documented shape for records; only the documented absence under `ignore`
                    pat, tup = None, None
                else:
                    bs = ["f%d" % i for i in range(len(v.fields))]
                    pat, tup = v.pattern(bs), tuple_expr(bs)
                for form in FORMS:
                    m = en.doc_presence(d, v, form)
                    lab = "%s_%s%s" % (pre, v.snake, {"owned": "", "ref": "_ref", "mut": "_mut"}[form])
                    acc[lab] = {"derive": d, "form": form, "x": [v.name], "mode": m, "method": lab,
                                "defect_present": en.defect_presence(d, v, form), "varsel": en.has_varsel(a)}
                    mn = mode_no[m]
                    kind = "&kn(\"%s\", VN[i])" % lab
                    if d == "Unwrap":
                        msg = "&format!(\"called `E::%s()` on a `E::{}` value\", VN[i])" % lab
                        if pat is None:
                            want_o = want_r = "String::from(\"panic\")"
                        else:
                            want_o = "match mk(i) { %s => idf(&%s), _ => \"panic\".to_string() }" % (pat, tup)
                            want_r = "match &e { %s => idf(&%s), _ => \"panic\".to_string() }" % (pat, tup)
                        if form == "owned":
                            block(["let want = %s;" % want_o,
                                   "let got = pc(catch(move || idf(&mk(i).%s())), %s, %s);" % (lab, kind, msg),
                                   "cell(%d, %s, got, want);" % (mn, kind)])
                        else:
                            block(["let %se = mk(i);" % ("mut " if form == "mut" else ""),
                                   "let want = %s;" % want_r,
                                   "let got = pc(catch(|| idf(&e.%s())), %s, %s);" % (lab, kind, msg),
                                   "cell(%d, %s, got, want);" % (mn, kind)])
                    else:
                        wmsg = "&format!(\"Attempt to call `E::%s()` on a `E::{}` value\", VN[i])" % lab
                        if pat is None:
                            want_o = "match mk(i) { o => format!(\"Err {}\", df(&o)) }"
                            want_r = "match &e { o => format!(\"Err {}\", df(&o)) }"
                        else:
                            want_o = "match mk(i) { %s => format!(\"Ok {}\", idf(&%s)), o => format!(\"Err {}\", df(&o)) }" % (pat, tup)
                            want_r = "match &e { %s => format!(\"Ok {}\", idf(&%s)), o => format!(\"Err {}\", df(&o)) }" % (pat, tup)
                        strict = "true" if form == "owned" else "false"
                        if form == "owned":
                            block(["let want = %s;" % want_o,
                                   "let (got, msg) = mk(i).%s().tu();" % lab,
                                   "if RAWV[i] { if got.starts_with(\"Err\") { obs(&format!(\"{}#rawmsg\", %s), &msg); } } else { msgcell(%s, %s, &got, &msg, %s); }" % (kind[1:], strict, kind, wmsg),
                                   "cell(%d, %s, got, want);" % (mn, kind)])
                        else:
                            block(["let %se = mk(i);" % ("mut " if form == "mut" else ""),
                                   "let want = %s;" % want_r,
                                   "let (got, msg) = e.%s().tu();" % lab,
                                   "if RAWV[i] { if got.starts_with(\"Err\") { obs(&format!(\"{}#rawmsg\", %s), &msg); } } else { msgcell(%s, %s, &got, &msg, %s); }" % (kind[1:], strict, kind, wmsg),
                                   "cell(%d, %s, got, want);" % (mn, kind)])
                    ncells += nv
        else:
            mode = en.mode[d]
            esel = en.attr.get(a)
            kinds_sel = [k for k in ("owned", "ref", "ref_mut") if (esel is None and k == "owned") or (esel is not None and k in esel)]
            kinds_other = [k for k in ("owned", "ref", "ref_mut") if k not in kinds_sel]
            # target tuples: (decl types) -> variants; certain = documented to have the impl
            if mode == "whitelist":
                certain = [v for v in en.variants if v.attr.get(a) == "mark"]
                maybe = [v for v in en.variants if v.attr.get(a) != "mark"]
            elif mode == "varobs":
                certain, maybe = [], list(en.variants)
            else:
                certain = [v for v in en.variants if v.attr.get(a) != "ignore"]
                maybe = []
            groups = {}
            for v in certain:
                groups.setdefault(v.ti_types(), []).append(v)
            inst_of = {}
            for v in en.variants:
                for f in v.fields:
                    inst_of[f.decl] = f.inst

            def target(tt, k):
                ref = {"owned": "", "ref": "&", "ref_mut": "&mut "}[k]
                return tuple_type([inst_of[t] for t in tt], ref), ref + "EI"

            gi = 0
            for tt, vs in groups.items():
                gi += 1
                for k in kinds_sel:
                    tgt, src = target(tt, k)
                    lab = "try_into_%s_g%d" % (k, gi)
                    form = {"owned": "owned", "ref": "ref", "ref_mut": "mut"}[k]
                    arms_main, arms_alt = [], []
                    for v in vs:
                        bs, keep = [], []
                        for i, f in enumerate(v.fields):
                            if f.ti_ignore:
                                bs.append("_")
                            else:
                                bs.append("f%d" % i)
                                keep.append("f%d" % i)
                        arms_main.append("%s => (format!(\"Ok {}\", idf(&%s)), None)," % (v.pattern(bs), tuple_expr(keep)))
                    for v in maybe:
                        if v.ti_types() != tt:
                            continue
                        bs, keep = [], []
                        for i, f in enumerate(v.fields):
                            if f.ti_ignore:
                                bs.append("_")
                            else:
                                bs.append("f%d" % i)
                                keep.append("f%d" % i)
                        arms_alt.append("%s => (String::new(), Some(format!(\"Ok {}\", idf(&%s))))," % (v.pattern(bs), tuple_expr(keep)))
                    acc[lab] = {"derive": d, "form": form, "x": [v.name for v in vs], "mode": "P", "target": tgt,
                                "maybe": [v.name for v in maybe if v.ti_types() == tt]}
                    kind = "&kn(\"%s\", VN[i])" % lab
                    scrut = "mk(i)" if k == "owned" else "&e"
                    lines = []
                    if k != "owned":
                        lines.append("let %se = mk(i);" % ("mut " if k == "ref_mut" else ""))
                    lines.append("let (w, alt): (String, Option<String>) = match %s { %s %s _ => (String::new(), None) };" % (scrut, " ".join(arms_main), " ".join(arms_alt)))
                    lines.append("let want = if w.is_empty() { format!(\"Err {}\", df(&%s)) } else { w };" % ("mk(i)" if k == "owned" else "&e"))
                    arg = {"owned": "mk(i)", "ref": "&e", "ref_mut": "&mut e"}[k]
                    lines.append("let got = ti(<%s as TryFrom<%s>>::try_from(%s));" % (tgt, src, arg))
                    lines.append("cell2(%s, got, want, alt);" % kind)
                    block(lines)
                    ncells += nv
            # observations only: reference kinds the enum-level attribute did not name, variant-level selections
            obs_tuples = list(groups.keys()) or []
            if mode == "varobs" or not obs_tuples:
                seen = []
                for v in en.variants:
                    if v.ti_types() not in seen:
                        seen.append(v.ti_types())
                obs_tuples = seen
            for tt in obs_tuples[:3]:
                for k in (("owned", "ref", "ref_mut") if mode == "varobs" else kinds_other):
                    tgt, src = target(tt, k)
                    # `impls!` needs 'static types: EI and the payload types are
                    tgt_s = re.sub(r"&(?!')", "&'static ", tgt)
                    src_s = re.sub(r"&(?!')", "&'static ", src)
                    body.append("obs(\"impl_%s/%s\", &format!(\"{}\", impls!(%s: TryFrom<%s>)));" % (k, mode, tgt_s, src_s))
                    ncells += 1
    sel_desc = {DERIVE_ATTR[d]: sorted(en.attr[DERIVE_ATTR[d]]) for d in en.derives if en.attr.get(DERIVE_ATTR[d]) is not None}
    kinds = tuple(sorted(set(v.kind for v in en.variants)))
    arity = max([len(v.fields) for v in en.variants] or [0])
    shared_groups = 0
    if "TryInto" in en.derives:
        cnt = {}
        for v in en.variants:
            if v.attr.get("try_into") != "ignore":
                cnt[v.ti_types()] = cnt.get(v.ti_types(), 0) + 1
        shared_groups = sum(1 for n in cnt.values() if n > 1)
    cls = (fam, tuple(en.derives), min(nv, 4), kinds, arity, tuple(en.params), tuple(sorted((k, tuple(v)) for k, v in sel_desc.items())), shared_groups > 0,
           any(f.ti_ignore for v in en.variants for f in v.fields),
           tuple(sorted(set(a for v in en.variants for a, x in v.attr.items() if x == "ignore"))))
    meta = {"what": "%s enum #%s: %s" % (fam, cid, " ".join(en.source().split())), "acc": acc, "family": fam, "values": values,
            "variants": [v.name for v in en.variants]}
    return Case(cid, cls, "\n".join(items), "\n".join(body), expect=ncells, meta=meta, trivial=(nv == 1 and not en.variants[0].fields))


# ---------------------------------------------------------------------------------------------
# offline oracle

def keyfn(c, e):
    kind = e.get("kind", "")
    base = kind.split("#")[0]
    lab, _, val = base.partition("/")
    a = c.meta["acc"].get(lab)
    if a is None:
        return "cell:unknown:%s" % lab
    d, form = a["derive"], a["form"]
    if kind.endswith("#msg"):
        return "errmsg:%s:%s" % (d, form)
    hit = "hit" if val in a["x"] else "miss"
    if e.get("want") == "absent":
        return "present-though-ignored:%s:%s" % (d, form)
    if e.get("got") == "absent":
        # a documented method is missing.  Known defect: variant-level `ref`/`ref_mut` of Unwrap/TryUnwrap
        # (see Enum.defect_presence); only when the enum uses such an attribute and the defect model predicts
        # exactly this absence.
        if d in KNOWN_SLUG and a.get("varsel") and a.get("defect_present") is False:
            return KNOWN_SLUG[d]
        return "absent:%s:%s" % (d, form)
    return "cell:%s:%s:%s" % (d, form, hit)


def run(ctx):
    rng = ctx.rng
    n = ctx.pick(300, 3000)
    cases = []
    fams = []
    for i in range(n):
        z = i % 20
        if z < 11:
            fam = "full"
        elif z < 14:
            fam = "varsel"
        elif z < 17:
            fam = "whitelist"
        elif z < 18:
            fam = "tivarobs"
        elif z < 19:
            fam = "ti_only"
        else:
            fam = "methods_only"
        fams.append(fam)
    for i, fam in enumerate(fams):
        en = gen_enum(rng, fam)
        cases.append(build_case("e%d" % i, en, rng, fam))
    ctx.rule = ("enums with 1-6 variants named by plain PascalCase words (unit, tuple with 0-3 fields, records with 0-3 fields), payload types drawn from a small "
                "per-enum pool so that several variants share one field-type tuple, optional lifetime/type/const parameters (with inline or where bounds), "
                "deriving IsVariant/Unwrap/TryUnwrap/TryInto with `ignore` on variants, `#[try_into(ignore)]` on fields, enum-level ref/ref_mut/owned selections, "
                "variant-level ref/ref_mut selections (Unwrap/TryUnwrap), `#[try_into]` opt-in markers; for every accessor the program visits every variant value "
                "(one cell each). distinct = distinct (family, derives, #variants capped at 4, variant-kind set, max arity, generic parameters, enum-level selections, "
                "shared-tuple group present, ignored fields present, set of derives with an ignored variant) tuples; an enum with a single unit variant is trivial")
    ctx.assumptions += [
        "inherent methods take precedence over methods of a trait implemented for the same type (used to observe absent methods as a value instead of a compile error)",
        "the reference for every cell is a plain `match` on the variant in the generated program; payload identity of reference forms is judged by field addresses (rt::addr)",
        "panic messages of unwrap_* and Display text of TryIntoError are not documented and only observed; TryUnwrapError's text is checked as shown in impl/doc/try_unwrap.md",
        "where the documentation is silent (presence of *_ref/*_mut without a selection, unmarked variants next to `#[try_into]` markers, reference kinds not named at enum level, "
        "variant-level try_into selections) only the one-sided statement is checked and the rest is counted",
    ]
    res = l2.build_and_run(ctx, "acc", cases, prelude=PRELUDE)
    ctx.extra["build_rounds"] = res.rounds
    l2.check_cmp_events(ctx, cases, res, keyfn=keyfn)
    # observations
    for c in cases:
        for e in res.events.get(c.id, []):
            k = e.get("kind", "")
            if "val" not in e or "#" not in k and not k.startswith("impl_"):
                continue
            if k.startswith("impl_"):
                ctx.bump("obs_%s_%s" % (k.replace("/", "_"), e["val"]))
            else:
                tag = k.rsplit("#", 1)[1]
                lab = k.split("/")[0]
                a = c.meta["acc"].get(lab, {})
                ctx.bump("obs_%s_%s_%s" % (tag, a.get("derive", "?"), a.get("form", "?")))
    shown = set()
    for c in cases:
        if c.meta["family"] in shown or c.id in res.compile_errors:
            continue
        shown.add(c.meta["family"])
        evs = [e for e in res.events.get(c.id, []) if "got" in e]
        pick = evs[:2] + [e for e in evs if e["got"].startswith("Ok")][:2] + [e for e in evs if e["got"].startswith("Err")][:1] + [e for e in evs if e["got"] == "panic"][:1]
        ctx.sample({"case": c.id, "family": c.meta["family"], "type": c.items.split("pub type EI")[0].strip().split("\n"),
                    "values": c.meta["values"], "cells": [{"accessor/value": e["kind"], "observed": e["got"], "reference": e["want"]} for e in pick]})
