"""C12 - derived `TryFrom<repr>` (`#[try_from(repr)]`) is the exact inverse of the enum-to-integer cast.

Generated programs declare enums over discriminant layouts / repr hints / generics, derive
`derive_more::TryFrom` on them and, per enum (and per instantiation of a generic enum), run
`try_from` over the whole integer domain (8/16-bit reprs) or over a probe set (wider reprs).  The
reference is rustc itself, evaluated in the same program:

* the discriminant of every variant is `Variant as repr` on the enum itself when rustc allows the
  cast (field-less enum whose explicit discriminants sit on unit variants only), otherwise on a
  unit-only *twin* enum with the same repr and the same discriminant expressions;
* for enums with a primitive repr the tag of a constructed value of EVERY variant is additionally read
  through the documented pointer cast (`*(&v as *const E as *const repr)`);
* the variant returned by `Ok(v)` is identified with `core::mem::discriminant` against constructed
  values, and its discriminant is taken from `v` itself (`v as repr` / pointer read).

The generator's own evaluation ("explicit, else previous + 1") is compared with both rustc tables; a
disagreement there is a harness defect (inconclusive), never a violation.  One aggregated `cmp` event
per (enum, instantiation) carries the list of all `n` with `Ok`, the number of `Err(e)` with
`e.input == n` and the first `Err` with a different input.
"""
from . import common, l2
from .common import Inconclusive
from .l2 import Case

INTS = {
    "u8": (8, False), "u16": (16, False), "u32": (32, False), "u64": (64, False), "u128": (128, False), "usize": (64, False),
    "i8": (8, True), "i16": (16, True), "i32": (32, True), "i64": (64, True), "i128": (128, True), "isize": (64, True),
}
REPRS = [None] + sorted(INTS)

KNOWN_I8 = "known:i8-run-offset-overflow"


def bounds(r):
    bits, signed = INTS[r]
    return (-(1 << (bits - 1)), (1 << (bits - 1)) - 1) if signed else (0, (1 << bits) - 1)


PRELUDE = r"""
pub trait Rep: Copy + Eq + core::fmt::Debug + core::fmt::Display + 'static {
    const BITS: u32;
    fn from_bits(x: u128) -> Self;
    fn to_bits(self) -> u128;
}
macro_rules! rep_impl { ($($t:ident : $u:ident),*) => {$(
    impl Rep for $t {
        const BITS: u32 = <$t>::BITS;
        fn from_bits(x: u128) -> Self { x as $t }
        fn to_bits(self) -> u128 { (self as $u) as u128 }
    }
)*} }
rep_impl!(u8:u8, u16:u16, u32:u32, u64:u64, u128:u128, usize:usize, i8:u8, i16:u16, i32:u32, i64:u64, i128:u128, isize:usize);

pub fn fmt_table<R: Rep>(t: &[(&'static str, R, bool)]) -> String {
    t.iter().map(|x| format!("{}={}", x.0, x.1)).collect::<Vec<_>>().join(",")
}

/// Integers to try: the whole domain for <= 16 bits, otherwise every discriminant (of variants with
/// fields too), neighbours, values congruent to a discriminant modulo 2^8/16/32/64, extremes and
/// `nrand` seeded values (half of them close to a discriminant).
pub fn domain<R: Rep>(table: &[(&'static str, R, bool)], seed: u64, nrand: usize) -> Vec<R> {
    if R::BITS <= 16 {
        return (0..(1u128 << R::BITS)).map(R::from_bits).collect();
    }
    let mask: u128 = if R::BITS == 128 { u128::MAX } else { (1u128 << R::BITS) - 1 };
    let mut bits: Vec<u128> = Vec::new();
    let ds: Vec<u128> = table.iter().map(|t| t.1.to_bits()).collect();
    for &d in &ds {
        for k in [0u128, 1, 2, 3, 255, 256, 257, 65535, 65536] {
            bits.push(d.wrapping_add(k) & mask);
            bits.push(d.wrapping_sub(k) & mask);
        }
        for sh in [8u32, 16, 32, 64, 127] {
            if sh < R::BITS {
                bits.push(d.wrapping_add(1u128 << sh) & mask);
                bits.push(d.wrapping_sub(1u128 << sh) & mask);
                bits.push((d ^ (1u128 << sh)) & mask);
                bits.push(d & ((1u128 << sh) - 1));
            }
        }
        bits.push(!d & mask);
        bits.push(d.wrapping_neg() & mask);
    }
    let half = 1u128 << (R::BITS - 1);
    for e in [0u128, 1, 2, mask, mask - 1, half, half - 1, half + 1, 127, 128, 255, 256, 32767, 32768, 65535, 65536] {
        bits.push(e & mask);
    }
    let mut s = seed | 1;
    let mut next = move || { s ^= s << 13; s ^= s >> 7; s ^= s << 17; s };
    for i in 0..nrand {
        let r = ((next() as u128) << 64) | next() as u128;
        if i % 2 == 0 || ds.is_empty() {
            bits.push(r & mask);
        } else {
            let d = ds[(next() % ds.len() as u64) as usize];
            let delta = (next() % 4096) as u128;
            bits.push(if next() % 2 == 0 { d.wrapping_add(delta) } else { d.wrapping_sub(delta) } & mask);
        }
    }
    bits.sort();
    bits.dedup();
    bits.into_iter().map(R::from_bits).collect()
}

/// got: what `try_from` did over the domain; want: what the table of rustc discriminants demands.
pub fn scan<R: Rep, E>(vals: &[E], table: &[(&'static str, R, bool)], disc: &dyn Fn(E) -> R, seed: u64, nrand: usize) -> (String, String)
where
    E: core::convert::TryFrom<R, Error = derive_more::TryFromReprError<R>>,
{
    let mut want_map: std::collections::BTreeMap<u128, usize> = std::collections::BTreeMap::new();
    for (i, t) in table.iter().enumerate() {
        if t.2 { want_map.insert(t.1.to_bits(), i); }
    }
    let dom = domain(table, seed, nrand);
    let (mut got_ok, mut want_ok) = (Vec::new(), Vec::new());
    let (mut n_ok, mut err_good, mut want_err) = (0u64, 0u64, 0u64);
    let mut bad: Option<String> = None;
    for &n in &dom {
        match want_map.get(&n.to_bits()) {
            Some(&i) => want_ok.push(format!("{}:{}:{}", n, table[i].0, n)),
            None => want_err += 1,
        }
        match <E as core::convert::TryFrom<R>>::try_from(n) {
            Ok(v) => {
                let md = core::mem::discriminant(&v);
                let name = match vals.iter().position(|x| core::mem::discriminant(x) == md) {
                    Some(i) if i < table.len() => table[i].0,
                    _ => "?",
                };
                let d = disc(v);
                n_ok += 1;
                if got_ok.len() < 600 { got_ok.push(format!("{}:{}:{}", n, name, d)); }
            }
            Err(e) => {
                let e: derive_more::TryFromReprError<R> = e;
                if e.input == n { err_good += 1; } else if bad.is_none() { bad = Some(format!("{}:{}", n, e.input)); }
            }
        }
    }
    (
        format!("ok=[{}] nok={} err={} bad={} dom={}", got_ok.join(","), n_ok, err_good, bad.unwrap_or("-".to_string()), dom.len()),
        format!("ok=[{}] nok={} err={} bad=- dom={}", want_ok.join(","), want_ok.len(), want_err, dom.len()),
    )
}
"""


# ---------------------------------------------------------------------------
# discriminant expressions: given the value, render a constant expression of type `r` that
# evaluates to it without intermediate overflow

class Helpers:
    """Module-level items referenced by discriminant expressions (shared by enum and twin)."""

    def __init__(self):
        self.items = []
        self.n = 0

    def fresh(self, prefix):
        self.n += 1
        return "%s%d" % (prefix, self.n)


def lit(v, r, rng, plain=False):
    """Integer literal (possibly negated) for v in type r."""
    lo, hi = bounds(r)
    a = abs(v)
    styles = ["dec"]
    if not plain:
        styles += ["dec", "suffix", "under"]
        if v >= 0 or a <= hi:
            styles += ["hex", "bin", "oct", "hexsuffix"]
    st = rng.choice(styles)
    if st == "dec":
        s = str(a)
    elif st == "suffix":
        s = "%d%s" % (a, r)
    elif st == "under":
        s = "{:_}".format(a)
    elif st == "hex":
        s = "0x%x" % a
    elif st == "hexsuffix":
        s = "0x%X_%s" % (a, r)
    elif st == "bin":
        s = "0b{:b}".format(a) if a < (1 << 40) else "0x%x" % a
    else:
        s = "0o%o" % a
    return ("-" + s) if v < 0 else s


def expr_for(v, r, rng, hp, depth=0):
    """Returns (expression text, form name)."""
    lo, hi = bounds(r)
    bits, signed = INTS[r]
    forms = ["lit", "lit", "add", "const", "constop", "paren", "block", "if", "constfn", "not", "cast"]
    if v < 0 and -v <= hi:
        forms += ["negparen", "negparen"]
    if v > 0 and v % 2 == 0:
        forms += ["shl", "shl", "shl"]
    if v > 0 and bin(v).count("1") >= 2:
        forms += ["or", "or", "or"]
    if v >= 0:
        forms += ["xor", "and", "rem"]
        if v <= (hi >> 3):
            forms += ["shr", "div"]
    if v != 0 and any(v % d == 0 for d in (2, 3, 5, 7)):
        forms += ["mul"]
    if 32 <= v < 127:
        forms += ["byte", "byte", "char"]
    if hi - v <= 40:
        forms += ["max", "max"]
    if v - lo <= 40:
        forms += ["min", "min"]
    if 0 <= v <= 100:
        forms += ["otherenum", "len"]
    if v in (1, 2, 4, 8, 16):
        forms += ["sizeof"]
    if v in (0, 1):
        forms += ["bool"]
    if depth >= 1:
        forms = [f for f in forms if f not in ("paren", "block", "if")] or ["lit"]
    f = rng.choice(forms)
    L = lambda x, plain=False: lit(x, r, rng, plain)
    if f == "lit":
        return L(v), f
    if f == "negparen":
        return "-(%s)" % L(-v), f
    if f == "add":
        a = rng.randrange(max(lo, v - 60), min(hi, v + 60) + 1)
        b = v - a
        if b >= 0:
            return "%s + %s" % (L(a), L(b)), f
        return "%s - %s" % (L(a), L(-b)), "sub"
    if f == "shl":
        tz = (v & -v).bit_length() - 1
        k = rng.randrange(1, tz + 1)
        return "%s << %d" % (L(v >> k), k), f
    if f == "or":
        ones = [i for i in range(v.bit_length()) if v >> i & 1]
        a = 0
        for i in ones:
            if rng.random() < 0.5:
                a |= 1 << i
        if a == 0 or a == v:
            a = 1 << ones[0]
        return "%s | %s" % (L(a), L(v ^ a)), f
    if f == "xor":
        a = rng.randrange(0, 128)
        return "%s ^ %s" % (L(v ^ a), L(a)), f
    if f == "and":
        r1 = rng.randrange(0, 128)
        r2 = rng.randrange(0, 128) & ~r1
        return "%s & %s" % (L(v | r1), L(v | r2)), f
    if f == "rem":
        m = rng.randrange(v + 1, v + 9) if v + 9 <= hi else None
        if m is None:
            return L(v), "lit"
        q = rng.randrange(0, 4)
        x = v + m * q
        if x > hi:
            x = v
        return "%s %% %s" % (L(x), L(m)), f
    if f == "shr":
        k = rng.randrange(1, 4)
        return "%s >> %d" % (L(v << k), k), f
    if f == "div":
        d = rng.choice((2, 3, 5, 7))
        return "%s / %s" % (L(v * d + rng.randrange(0, d)), L(d)), f
    if f == "mul":
        d = rng.choice([d for d in (2, 3, 5, 7) if v % d == 0])
        return "%s * %s" % (L(v // d), L(d)), f
    if f == "not":
        x = (hi - v) if not signed else (-v - 1)
        return "!%s" % (L(x) if x >= 0 else "(%s)" % L(x)), f
    if f == "byte":
        return "b'%s' as %s" % (_chr(v), r), f
    if f == "char":
        return "'%s' as %s" % (_chr(v), r), f
    if f == "max":
        k = hi - v
        return ("%s::MAX" % r if k == 0 else "%s::MAX - %s" % (r, L(k))), f
    if f == "min":
        k = v - lo
        return ("%s::MIN" % r if k == 0 else "%s::MIN + %s" % (r, L(k))), f
    if f == "const":
        n = hp.fresh("K")
        hp.items.append("pub const %s: %s = %s;" % (n, r, L(v, True)))
        return n, f
    if f == "constop":
        n = hp.fresh("K")
        a = rng.randrange(max(lo, v - 9), min(hi, v + 9) + 1)
        hp.items.append("pub const %s: %s = %s;" % (n, r, L(a, True)))
        b = v - a
        if b == 0 and a >= 0:
            z = rng.randrange(0, 128) & ~a
            return "%s | %s & %s" % (n, L(a & 0x55, True), L(a | z, True)), "constor"
        return ("%s + %s" % (n, L(b)) if b >= 0 else "%s - %s" % (n, L(-b))), f
    if f == "constfn":
        n = hp.fresh("cf")
        a = rng.randrange(max(lo, v - 9), min(hi, v + 9) + 1)
        hp.items.append("pub const fn %s(x: %s, y: %s) -> %s { x - y }" % (n, r, r, r))
        # a - (a - v) == v ; both operands in range because |a - v| <= 9 ... unless unsigned and a < v
        if a < v:
            a = v
        return "%s(%s, %s)" % (n, L(a, True), L(a - v, True)), f
    if f == "paren":
        e, g = expr_for(v, r, rng, hp, depth + 1)
        return "(%s)" % e, "paren+" + g
    if f == "block":
        e, g = expr_for(v, r, rng, hp, depth + 1)
        return "{ %s }" % e, "block+" + g
    if f == "if":
        e, g = expr_for(v, r, rng, hp, depth + 1)
        return "if true { %s } else { %s }" % (e, L(0 if lo == 0 else -1, True)), "if+" + g
    if f == "otherenum":
        n = hp.fresh("Oe")
        hp.items.append("pub enum %s { P = %d, Q }" % (n, v))
        return rng.choice(["%s::P as %s" % (n, r), "%s::Q as %s - 1" % (n, r)]), f
    if f == "len":
        if v <= 12 and rng.random() < 0.5:
            return "\"%s\".len() as %s" % ("x" * v, r), f
        return "[0u8; %d].len() as %s" % (v, r), f
    if f == "sizeof":
        ty = {1: "u8", 2: "u16", 4: "u32", 8: "u64", 16: "u128"}[v]
        return "core::mem::size_of::<%s>() as %s" % (ty, r), f
    if f == "bool":
        return "%s as %s" % ("true" if v else "false", r), f
    if f == "cast":
        if -(1 << 127) <= v < (1 << 127):
            return "%di128 as %s" % (v, r) if v >= 0 else "(%di128) as %s" % (v, r), f
        return "%du128 as %s" % (v, r), f
    return L(v), "lit"


def _chr(v):
    c = chr(v)
    return "\\" + c if c in "'\\" else c


# ---------------------------------------------------------------------------
# enum model

NAMES = ["A", "B", "C", "D", "F", "G", "H", "J", "L", "M", "P", "Q", "S", "U", "W", "X", "Y", "Z",
         "Error", "Ok", "Err", "None", "Some", "Result", "TryFrom", "Self_", "val", "Enum", "Default", "Into",
         # names that differ only in letter case or by underscores (any name mangling of helper items must stay injective)
         "Kb", "KB", "kb", "K_b", "Ab", "AB", "ab", "DISCRIMINANT", "Discriminant", "A_", "_A", "Output", "Value"]
RAW_NAMES = ["r#type", "r#match", "r#fn"]

# (type text, value for instantiation with a local lifetime, value for 'static), by what they need
FT_PLAIN = [("u8", "7", "7"), ("i64", "-3", "-3"), ("String", "String::new()", "String::new()"), ("(u8, bool)", "(1, true)", "(1, true)"),
            ("Vec<u32>", "Vec::new()", "Vec::new()"), ("Option<Box<u8>>", "None", "None"), ("f32", "1.5", "1.5"), ("usize", "0", "0")]
FT_LT = [("&'a str", "loc.as_str()", "\"q\""), ("core::marker::PhantomData<&'a ()>", "core::marker::PhantomData", "core::marker::PhantomData"),
         ("&'a [u8]", "loc.as_bytes()", "&[1, 2]")]
FT_TY = [("T", "Default::default()", "Default::default()"), ("Vec<T>", "Vec::new()", "Vec::new()"), ("Option<T>", "None", "None"),
         ("core::marker::PhantomData<T>", "core::marker::PhantomData", "core::marker::PhantomData")]
FT_LT_TY = [("&'a [T]", "&[]", "&[]")]
FT_CONST = [("[u8; N]", "[0u8; %(N)s]", "[0u8; %(N)s]")]
T_INST = ["u16", "String", "()", "Vec<u8>"]
FNAMES = ["x", "y", "z"]


class Variant:
    __slots__ = ("name", "kind", "fields", "explicit", "expr", "form", "value", "cfg_off")

    def __init__(self, name, kind, fields):
        self.name = name
        self.kind = kind            # unit | tuple0 | brace0 | tuple | named
        self.fields = fields        # list of (type, local value, static value)
        self.explicit = False
        self.expr = None
        self.form = None
        self.value = None
        self.cfg_off = False

    @property
    def fieldless(self):
        return not self.fields

    def decl(self, twin=False):
        d = self.name
        if not twin:
            if self.kind == "tuple0":
                d += "()"
            elif self.kind == "brace0":
                d += " {}"
            elif self.kind == "tuple":
                d += "(%s)" % ", ".join(t for t, _, _ in self.fields)
            elif self.kind == "named":
                d += " { %s }" % ", ".join("%s: %s" % (FNAMES[i], t) for i, (t, _, _) in enumerate(self.fields))
        if self.explicit:
            d += " = " + self.expr
        return d

    def make(self, static, subst):
        k = 2 if static else 1
        p = "E::" + self.name
        if self.kind == "unit":
            return p
        if self.kind == "tuple0":
            return p + "()"
        if self.kind == "brace0":
            return p + " {}"
        vals = [f[k] % subst if "%(" in f[k] else f[k] for f in self.fields]
        if self.kind == "tuple":
            return "%s(%s)" % (p, ", ".join(vals))
        return "%s { %s }" % (p, ", ".join("%s: %s" % (FNAMES[i], v) for i, v in enumerate(vals)))


class EnumSpec:
    def __init__(self):
        self.repr = None          # integer type named in #[repr], or None
        self.rty = "isize"
        self.attrs = []           # attribute lines in order (including the derive)
        self.hint = "none"
        self.lt = self.ty = self.cn = False
        self.generics_decl = ""
        self.where = ""
        self.variants = []
        self.pattern = "implicit"
        self.helpers = Helpers()
        self.special = None

    @property
    def generic(self):
        return self.lt or self.ty or self.cn

    def gkey(self):
        return "".join(k for k, on in (("L", self.lt), ("T", self.ty), ("C", self.cn)) if on) or "-"

    def unit_only(self):
        return all(v.kind == "unit" for v in self.variants)

    def castable(self):
        return all(v.fieldless for v in self.variants) and not any(v.explicit and v.kind != "unit" for v in self.variants)

    def inst_type(self, static, tinst, n):
        if not self.generic:
            return "E"
        a = []
        if self.lt:
            a.append("'static" if static else "'_")
        if self.ty:
            a.append(tinst)
        if self.cn:
            a.append(str(n))
        return "E<%s>" % ", ".join(a)


def assign_values(spec):
    """explicit, else previous + 1 (counting variants with fields); returns False when illegal."""
    lo, hi = bounds(spec.rty)
    cur = -1
    seen = set()
    for v in spec.variants:
        cur = v.value if v.explicit else cur + 1
        if cur < lo or cur > hi or cur in seen:
            return False
        seen.add(cur)
        v.value = cur
    return True


def pick_value(rng, r, used):
    lo, hi = bounds(r)
    bits, signed = INTS[r]
    for _ in range(40):
        m = rng.random()
        if m < 0.35:
            v = rng.randrange(max(lo, -40), 60)
        elif m < 0.5:
            v = rng.choice([hi - rng.randrange(0, 12), lo + rng.randrange(0, 12)])
        elif m < 0.62:
            v = 1 << rng.randrange(0, bits - (1 if signed else 0))
            if rng.random() < 0.3 and signed:
                v = -v
        elif m < 0.75 and used:
            v = rng.choice(sorted(used)) + rng.choice([2, 2, 3, -1, -2, -3, -5, 10])
        elif m < 0.87:
            v = rng.randrange(max(lo, -300), min(hi, 300) + 1)
        else:
            v = rng.randrange(lo, hi + 1)
        if lo <= v <= hi and v not in used:
            return v
    return None


PATTERNS = ["implicit", "first", "middle", "last", "all", "mix", "mix", "negative", "descending", "extreme"]


def choose_discriminants(rng, spec, explicit_ok):
    vs = spec.variants
    n = len(vs)
    for attempt in range(60):
        pat = rng.choice(PATTERNS) if explicit_ok else "implicit"
        _, signed = INTS[spec.rty]
        if pat == "negative" and not signed:
            pat = "mix"
        for v in vs:
            v.explicit, v.value, v.expr, v.form = False, None, None, None
        if pat == "implicit":
            idx = []
        elif pat == "first":
            idx = [0]
        elif pat == "last":
            idx = [n - 1]
        elif pat == "middle":
            idx = [rng.randrange(1, n - 1)] if n >= 3 else [n - 1]
        elif pat == "all":
            idx = list(range(n))
        else:
            idx = [i for i in range(n) if rng.random() < 0.45] or [rng.randrange(n)]
        used = set()
        ok = True
        lo, hi = bounds(spec.rty)
        prev = None
        for i in idx:
            if pat == "negative":
                val = None
                for _ in range(30):
                    c = -rng.randrange(1, min(-lo, 200) + 1) if rng.random() < 0.8 else rng.randrange(lo, 0)
                    if c not in used:
                        val = c
                        break
            elif pat == "descending" and prev is not None:
                val = prev - rng.randrange(1, 30)
                if val < lo or val in used:
                    val = None
            elif pat == "extreme":
                val = rng.choice([hi - (n - 1 - i), lo, lo + 1, hi - n, hi])
                if val in used or val < lo:
                    val = None
            else:
                val = pick_value(rng, spec.rty, used)
            if val is None:
                ok = False
                break
            vs[i].explicit = True
            vs[i].value = val
            used.add(val)
            prev = val
        if not ok:
            continue
        if not assign_values(spec):
            continue
        spec.pattern = pat if idx else "implicit"
        for i in idx:
            vs[i].expr, vs[i].form = expr_for(vs[i].value, spec.rty, rng, spec.helpers)
        return
    for v in vs:
        v.explicit = False
    spec.pattern = "implicit"
    if not assign_values(spec):
        raise Inconclusive("generator could not lay out an enum")


def gen_spec(rng, k, nvar=None):
    spec = EnumSpec()
    spec.repr = REPRS[k % len(REPRS)]
    spec.rty = spec.repr or "isize"
    g = rng.random()
    if g < 0.55:
        pass
    elif g < 0.65:
        spec.lt = True
    elif g < 0.75:
        spec.ty = True
    elif g < 0.85:
        spec.cn = True
    else:
        spec.lt, spec.ty, spec.cn = rng.random() < 0.6, rng.random() < 0.6, rng.random() < 0.6
    n = nvar or rng.choice([1, 2, 2, 3, 3, 4, 4, 5, 5, 6, 7, 8, 10, 12, 16])
    shape = rng.choice(["unit", "unit", "fieldless", "mixed", "mixed", "mixed"])
    names = rng.sample(NAMES, min(n, len(NAMES)))
    while len(names) < n:
        names.append("V%d" % len(names))
    if rng.random() < 0.12:
        names[rng.randrange(n)] = rng.choice(RAW_NAMES)
    pools = list(FT_PLAIN)
    if spec.lt:
        pools += FT_LT
    if spec.ty:
        pools += FT_TY
    if spec.lt and spec.ty:
        pools += FT_LT_TY
    if spec.cn:
        pools += FT_CONST
    for nm in names:
        if shape == "unit":
            kind = "unit"
        elif shape == "fieldless":
            kind = rng.choice(["unit", "unit", "tuple0", "brace0"])
        else:
            kind = rng.choice(["unit", "unit", "unit", "tuple0", "brace0", "tuple", "tuple", "named"])
        fields = []
        if kind in ("tuple", "named"):
            fields = [rng.choice(pools) for _ in range(rng.choice([1, 1, 2, 3]))]
        spec.variants.append(Variant(nm, kind, fields))
    # lifetime and type parameters must be used by some field
    need = []
    if spec.lt and spec.ty and rng.random() < 0.5:
        need.append(FT_LT_TY[0])
    else:
        if spec.lt:
            need.append(rng.choice(FT_LT))
        if spec.ty:
            need.append(rng.choice(FT_TY))
    if spec.cn and rng.random() < 0.7:
        need.append(FT_CONST[0])
    if need:
        used_types = set(t for v in spec.variants for t, _, _ in v.fields)
        missing = [f for f in need if not _uses(used_types, f[0], spec)]
        if missing or (spec.lt and not any("'a" in t for t in used_types)) or (spec.ty and not any(_has_T(t) for t in used_types)):
            nm = "Carrier"
            kind = rng.choice(["tuple", "named"])
            spec.variants.insert(rng.randrange(0, len(spec.variants) + 1), Variant(nm, kind, need[:3]))
    # generics declaration
    params = []
    if spec.lt:
        params.append("'a")
    wh = []
    if spec.ty:
        b = rng.choice(["", "", ": Clone", ": Clone + Default", ": 'static"])
        if b == ": 'static" and spec.lt:
            b = ""
        d = " = u8" if (not spec.cn and rng.random() < 0.2) else ""
        params.append("T" + b + d)
        if rng.random() < 0.35:
            wh.append(rng.choice(["T: Default", "T: Clone", "Vec<T>: Clone"]))
        if spec.lt and rng.random() < 0.3:
            wh.append("T: 'a")
    if spec.cn:
        params.append("const N: usize" + (" = 2" if rng.random() < 0.2 else ""))
    spec.generics_decl = "<%s>" % ", ".join(params) if params else ""
    spec.where = (" where " + ", ".join(wh)) if wh else ""
    # repr hints
    has_nonunit = any(v.kind != "unit" for v in spec.variants)
    derive = "#[derive(derive_more::TryFrom)]"
    tf = "#[try_from(repr)]"
    al = "align(%d)" % rng.choice([1, 2, 4, 8, 16, 64])
    R = spec.repr
    if R is None:
        hint, reprs = rng.choice([("none", []), ("none", []), ("C", ["#[repr(C)]"]), ("align", ["#[repr(%s)]" % al]), ("C+align", ["#[repr(C, %s)]" % al])])
    else:
        opts = [("int", ["#[repr(%s)]" % R])] * 4 + [
            ("int,align", ["#[repr(%s, %s)]" % (R, al)]), ("align,int", ["#[repr(%s, %s)]" % (al, R)]),
            ("align;int", ["#[repr(%s)]" % al, "#[repr(%s)]" % R]), ("int;align", ["#[repr(%s)]" % R, "#[repr(%s)]" % al])]
        if has_nonunit:   # repr(C, int) on a C-like enum is rustc's E0566, not the derive's business
            opts += [("C,int", ["#[repr(C, %s)]" % R]), ("int,C", ["#[repr(%s, C)]" % R]), ("C;int", ["#[repr(C)]", "#[repr(%s)]" % R]),
                     ("C,align,int", ["#[repr(C, %s, %s)]" % (al, R)])]
        hint, reprs = rng.choice(opts)
    spec.hint = hint
    order = rng.choice(["drt", "dtr", "rdt", "trd"]) if reprs else "dt"
    # helper attributes must follow the derive that declares them; #[repr] may sit anywhere
    if order == "drt":
        spec.attrs = [derive] + reprs + [tf]
    elif order == "dtr":
        spec.attrs = [derive, tf] + reprs
    elif order == "rdt":
        spec.attrs = reprs + [derive, tf]
    elif order == "trd":
        spec.attrs = reprs[:1] + [derive] + reprs[1:] + [tf]
    else:
        spec.attrs = [derive, tf]
    explicit_ok = (R is not None) or not has_nonunit
    choose_discriminants(rng, spec, explicit_ok)
    # a variant removed by cfg before the derive sees it (rustc strips it before numbering too)
    if rng.random() < 0.06:
        gone = Variant("Gone", "tuple", [FT_PLAIN[0]])
        gone.cfg_off = True
        spec.variants.insert(rng.randrange(0, len(spec.variants) + 1), gone)
    return spec


def _has_T(t):
    return t == "T" or "<T>" in t or "[T]" in t


def _uses(used, t, spec):
    return t in used


def dense_spec(kind, rng):
    """Deterministic special layouts: saturated domains and long implicit runs."""
    spec = EnumSpec()
    spec.special = kind
    derive, tf = "#[derive(derive_more::TryFrom)]", "#[try_from(repr)]"
    if kind == "u8-full":
        spec.repr = "u8"
        spec.variants = [Variant("V%d" % i, "unit", []) for i in range(256)]
    elif kind == "i8-full":
        spec.repr = "i8"
        spec.variants = [Variant("V%d" % i, "unit", []) for i in range(256)]
        spec.variants[0].explicit, spec.variants[0].value, spec.variants[0].expr, spec.variants[0].form = True, -128, "-128", "lit"
    elif kind == "i8-run128":     # largest offset 127: still representable as an i8 literal
        spec.repr = "i8"
        spec.variants = [Variant("V%d" % i, rng.choice(["unit", "unit", "tuple0", "brace0"]), []) for i in range(128)]
        spec.variants[0].kind = "unit"
        s = rng.randrange(-128, 1)
        spec.variants[0].explicit, spec.variants[0].value, spec.variants[0].expr, spec.variants[0].form = True, s, "%d" % s, "lit"
    elif kind == "i8-run129+":    # offsets beyond 127
        spec.repr = "i8"
        s = rng.randrange(-128, -1)
        n = rng.randrange(129, 127 - s + 2)
        spec.variants = [Variant("V%d" % i, "unit", []) for i in range(n)]
        spec.variants[0].explicit, spec.variants[0].value, spec.variants[0].expr, spec.variants[0].form = True, s, "-(%d)" % -s, "negparen"
    elif kind == "i8-two-runs":   # offsets restart at every explicit discriminant: 2 runs of <= 128
        spec.repr = "i8"
        spec.variants = [Variant("V%d" % i, "unit", []) for i in range(250)]
        spec.variants[0].explicit, spec.variants[0].value, spec.variants[0].expr, spec.variants[0].form = True, 0, "0", "lit"
        spec.variants[125].explicit, spec.variants[125].value, spec.variants[125].expr, spec.variants[125].form = True, -128, "i8::MIN", "min"
    elif kind == "u16-long":
        spec.repr = "u16"
        n = 300
        spec.variants = []
        for i in range(n):
            k = rng.choice(["unit", "unit", "unit", "tuple0", "brace0", "tuple"])
            spec.variants.append(Variant("V%d" % i, k, [FT_PLAIN[0]] if k == "tuple" else []))
        for i in (0, 100, 200):
            v = spec.variants[i]
            val = {0: 65535 - 99, 100: 0, 200: 1 << 9}[i]
            v.explicit, v.value = True, val
            v.expr, v.form = expr_for(val, "u16", rng, spec.helpers)
    elif kind == "i16-long-neg":
        spec.repr = "i16"
        spec.variants = [Variant("V%d" % i, "unit", []) for i in range(400)]
        spec.variants[0].explicit, spec.variants[0].value, spec.variants[0].expr, spec.variants[0].form = True, -32768, "i16::MIN", "min"
    elif kind == "lowprec-generic":   # operators binding looser than `+`, each followed by implicit variants; all generic kinds
        spec.repr = rng.choice(["u8", "i16", "u32", "i64", "u128", "usize"])
        spec.lt = spec.ty = spec.cn = True
        spec.generics_decl = "<'a, T: Clone, const N: usize>"
        spec.where = " where T: Default"
        plan = [("A", "1 << 3", 8, "shl"), ("D", "0x30 | 0x40", 112, "or"), ("F", "0xF0 & 0x3C", 48, "and"), ("H", "3 ^ 1", 2, "xor"),
                ("J", "64 >> 1", 32, "shr"), ("L", "b'a' as %s" % spec.repr, 97, "byte"), ("P", "KP | 1 << 2", 20, "constor"), ("S", "if true { 40 } else { 0 }", 40, "if")]
        spec.helpers.items.append("pub const KP: %s = 16;" % spec.repr)
        rng.shuffle(plan)
        for nm, ex, val, form in plan:
            v = Variant(nm, "unit", [])
            v.explicit, v.value, v.expr, v.form = True, val, ex, form
            spec.variants.append(v)
            spec.variants.append(Variant(nm + "1", rng.choice(["unit", "tuple0", "brace0"]), []))
            if rng.random() < 0.5:
                spec.variants.append(Variant(nm + "f", "tuple", [rng.choice(FT_PLAIN)]))
            spec.variants.append(Variant(nm + "2", "unit", []))
        spec.variants.insert(rng.randrange(1, len(spec.variants)), Variant("Carrier", "named", [FT_LT_TY[0], FT_CONST[0]]))
    elif kind == "raw-ident":
        spec.repr = rng.choice(["u8", "i32", None])
        spec.variants = [Variant("A", "unit", []), Variant(rng.choice(RAW_NAMES), "unit", []), Variant("B", "unit", [])]
    elif kind == "case-twins":   # names equal up to letter case / underscores: helper items named after variants must not collide
        spec.repr = rng.choice(["u16", "i8", None])
        spec.variants = [Variant(n, "unit", []) for n in ("Kb", "KB", "kb", "K_b", "Mb", "MB", "A_", "_A", "A")]
    elif kind == "raw-ident-fields-only":   # raw identifier only on a variant with fields: no constant is generated for it
        spec.repr = "u8"
        spec.variants = [Variant("A", "unit", []), Variant("r#type", "tuple", [FT_PLAIN[0]]), Variant("B", "unit", [])]
    else:
        raise Inconclusive("unknown dense kind " + kind)
    spec.rty = spec.repr or "isize"
    spec.hint = "int" if spec.repr else "none"
    spec.attrs = [derive, tf] + (["#[repr(%s)]" % spec.repr] if spec.repr else [])
    spec.pattern = "dense:" + kind
    if not assign_values(spec):
        raise Inconclusive("dense layout %s is illegal" % kind)
    return spec


# ---------------------------------------------------------------------------
# case emission

def emit_case(cid, spec, rng, nrand):
    R = spec.rty
    live = [v for v in spec.variants if not v.cfg_off]
    items = list(spec.helpers.items)
    body_vs = []
    for v in spec.variants:
        body_vs.append(("#[cfg(any())] " if v.cfg_off else "") + v.decl())
    items += spec.attrs
    items.append("pub enum E%s%s { %s }" % (spec.generics_decl, spec.where, ", ".join(body_vs)))
    castable = spec.castable()
    if not castable:
        items.append(("#[repr(%s)]\n" % spec.repr if spec.repr else "") + "pub enum Tw { %s }" % ", ".join(v.decl(twin=True) for v in live))
    body = ["type R = %s;" % R, "let loc = String::from(\"q\");"]
    insts = [(False, "u16", 3)]
    if spec.generic:
        insts.append((True, rng.choice(T_INST[1:]), rng.choice([0, 1, 5])))
    n_events = 0
    for (static, tinst, n) in insts:
        ety = spec.inst_type(static, tinst, n)
        body.append("{")
        body.append("  let vals: Vec<%s> = vec![%s];" % (ety, ", ".join(v.make(static, {"N": n}) for v in live)))
        def cast_src(v):
            if not castable:
                return "Tw::%s" % v.name
            e = v.make(static, {"N": n})
            return e.replace("E::", "E::<%d>::" % n, 1) if spec.generic else e
        body.append("  let table: Vec<(&'static str, R, bool)> = vec![%s];" % ", ".join(
            "(%s, core::hint::black_box(%s) as R, %s)" % (common.rs_str(v.name), cast_src(v), "true" if v.fieldless else "false") for v in live))
        body.append("  obs(\"table\", &fmt_table(&table));")
        n_events += 1
        if spec.repr:
            body.append("  obs(\"ptr\", &vals.iter().zip(table.iter()).map(|(v, t)| format!(\"{}={}\", t.0, unsafe { *(v as *const %s as *const R) })).collect::<Vec<_>>().join(\",\"));" % ety)
            n_events += 1
        if castable:
            disc = "&|v| core::hint::black_box(v) as R"
        elif spec.repr:
            disc = "&|v| unsafe { *(&v as *const %s as *const R) }" % ety
        else:
            disc = ("&|v| { let md = core::mem::discriminant(&v); match vals.iter().position(|x| core::mem::discriminant(x) == md) "
                    "{ Some(i) => table[i].1, None => R::MAX } }")
        body.append("  let (g, w) = scan::<R, %s>(&vals, &table, %s, %du64, %d);" % (ety, disc, rng.randrange(1, 1 << 62), nrand))
        body.append("  cmp(\"scan\", &g, &w);")
        n_events += 1
        body.append("}")
    kinds = tuple(sorted(set(v.kind for v in live)))
    forms = sorted(set(v.form.split("+")[-1] for v in live if v.form))
    impl_after = any((not v.explicit) and v.fieldless and i > 0 and any(w.explicit for w in live[:i]) for i, v in enumerate(live))
    cls = (R, spec.hint, spec.gkey(), spec.pattern, kinds)
    meta = {
        "what": "enum repr=%s hints=%s generics=%s pattern=%s" % (spec.repr, spec.hint, spec.gkey(), spec.pattern),
        "repr": spec.repr, "rty": R, "hint": spec.hint, "generics": spec.gkey(), "pattern": spec.pattern, "forms": forms,
        "variants": [(v.name, v.kind, v.explicit, v.value) for v in live], "castable": castable, "n_inst": len(insts),
        "implicit_after_explicit": impl_after, "special": spec.special,
        "decl": "\n".join(spec.attrs) + "\n" + items[-1 if castable else -2].split("\n")[-1][:1500],
    }
    c = Case(cid, cls, "\n".join(items), "\n".join(body), expect=n_events, meta=meta)
    c.meta["_spec"] = spec
    return c


# ---------------------------------------------------------------------------
# offline oracle

def fieldless_offsets(spec):
    """name -> offset from the last explicit discriminant, for field-less variants."""
    off, m = 0, {}
    for v in spec.variants:
        if v.cfg_off:
            continue
        if v.explicit:
            off = 0
        if v.fieldless:
            m[v.name] = off
        off += 1
    return m


def classify_compile_error(spec, diags):
    """Known defects of the unchanged tree, decided by a precise predicate on input and diagnostics."""
    texts = [common.diag_text(d) for d in diags]
    codes = [(d.get("code") or {}).get("code") for d in diags]
    offs = fieldless_offsets(spec)
    if spec.repr == "i8" and offs and max(offs.values()) > 127:
        # `(<explicit>) + 128` typed i8: the offset literal does not fit the repr type, so exactly the
        # constants of the variants more than 127 places after the last explicit discriminant fail
        big = set("__DISCRIMINANT_%s`" % n for n, o in offs.items() if o > 127)

        def expected(c, t):
            if c == "E0080" and "overflow" in t:
                return any(b in t for b in big)
            return c in ("arithmetic_overflow", "overflowing_literals")
        if any(c == "E0080" for c in codes) and all(expected(c, t) for c, t in zip(codes, texts)):
            return KNOWN_I8
    return None


def parse_summary(s):
    """ok=[n:name:d,...] nok=K err=K bad=X dom=K"""
    try:
        head, rest = s.split("] ", 1)
        oks = head[len("ok=["):]
        entries = []
        for part in (oks.split(",") if oks else []):
            n, name, d = part.split(":")
            entries.append((int(n), name, int(d)))
        kv = dict(p.split("=", 1) for p in rest.split(" "))
        return entries, int(kv["nok"]), int(kv["err"]), kv["bad"], int(kv["dom"])
    except (ValueError, KeyError) as ex:
        raise Inconclusive("unparsable scan summary %r" % s[:200]) from ex


def check_case(ctx, c, res):
    spec = c.meta["_spec"]
    meta = {k: v for k, v in c.meta.items() if k != "_spec"}
    ctx.count()
    ctx.cls(c.cls)
    for f in meta["forms"]:
        ctx.cls(("expr", f, spec.rty in ("i8", "i16", "i32", "i64", "i128", "isize")))
    if c.id in res.compile_errors:
        diags = res.compile_errors[c.id]
        key = classify_compile_error(spec, diags)
        if key is None:
            # name the class after the diagnostics raised inside the derive's expansion when there are any
            # (the rest is usually fallout, e.g. the unsatisfied `TryFrom` bound of the scanning function)
            own = [d for d in diags if any("TryFrom" in n for n in common.diag_derives(d)) or "proc-macro derive panicked" in common.diag_text(d)]
            codes = sorted(set((d.get("code") or {}).get("code") or ("derive-panicked" if "panicked" in d.get("message", "") else "nocode") for d in (own or diags)))
            key = "compile:%s:%s" % ("generic" if spec.generic else "plain", "+".join(codes)[:40])
        ctx.violate(key, "enum with #[try_from(repr)] does not compile (%s): %s" % (meta["what"], l2.err_text(diags, 1)[:600]),
                    case=meta, items=c.items, errors=l2.err_text(diags, 4))
        return
    if c.id in res.not_run:
        ctx.bump("cases_not_run")
        return
    evs = res.events.get(c.id, [])
    live = [v for v in spec.variants if not v.cfg_off]
    model_table = ",".join("%s=%d" % (v.name, v.value) for v in live)
    model_ok = sorted((v.value, v.name) for v in live if v.fieldless)
    lo, hi = bounds(spec.rty)
    bits = INTS[spec.rty][0]
    seen = 0
    for e in evs:
        k = e.get("kind")
        if k in ("panic", "crash"):
            ctx.violate("panic:try_from", "%s: generated program %s: %s" % (meta["what"], k, e.get("val", "")[:300]), case=meta, items=c.items, event=e)
            seen += c.expect
            continue
        if k in ("table", "ptr"):
            seen += 1
            if e.get("val") != model_table:
                raise Inconclusive("reference models disagree (%s): generator computed %s, rustc %s\n%s" % (k, model_table[:400], e.get("val", "")[:400], c.items[-1500:]))
            ctx.bump("reference_tables_cross_checked")
            continue
        if k != "scan":
            continue
        seen += 1
        ctx.bump("events_compared")
        g_ok, g_nok, g_err, g_bad, g_dom = parse_summary(e["got"])
        w_ok, w_nok, w_err, w_bad, w_dom = parse_summary(e["want"])
        # the in-program reference must be what the generator planned, over the planned domain
        if sorted((n, nm) for n, nm, _ in w_ok) != model_ok or any(n != d for n, _, d in w_ok):
            raise Inconclusive("reference Ok-list differs from the generator's model: %s vs %s" % (w_ok[:8], model_ok[:8]))
        if bits <= 16 and w_dom != (1 << bits):
            raise Inconclusive("domain of %s not fully traversed: %d" % (spec.rty, w_dom))
        if w_nok + w_err != w_dom or w_dom < len(live):
            raise Inconclusive("inconsistent reference summary %s" % e["want"][-80:])
        ctx.bump("integers_tried", w_dom)
        ctx.bump("ok_results_checked", w_nok)
        if e["got"] == e["want"]:
            continue
        gm = {n: (nm, d) for n, nm, d in g_ok}
        wm = {n: (nm, d) for n, nm, d in w_ok}
        problems = []
        for n, (nm, d) in sorted(wm.items()):
            if n not in gm:
                problems.append(("disc-rejected", "try_from(%d) is Err although it is the discriminant of field-less variant %s" % (n, nm)))
            elif gm[n][0] != nm:
                problems.append(("wrong-variant", "try_from(%d) is Ok(%s) (discriminant %d), the variant with discriminant %d is %s" % (n, gm[n][0], gm[n][1], n, nm)))
        for n, (nm, d) in sorted(gm.items()):
            if n not in wm:
                fieldy = [v.name for v in live if v.value == n and not v.fieldless]
                problems.append(("nondisc-accepted", "try_from(%d) is Ok(%s) with `%s as %s` = %d%s" % (
                    n, nm, nm, spec.rty, d, " (that value is the discriminant of %s, which has fields)" % fieldy[0] if fieldy else "")))
            elif d != n:
                problems.append(("cast-differs", "try_from(%d) is Ok(%s) but `%s as %s` = %d" % (n, nm, nm, spec.rty, d)))
        if g_bad != "-":
            problems.append(("err-input", "try_from(n) = Err(e) with (n:e.input) = %s" % g_bad))
        if not problems:
            problems.append(("summary", "got %s want %s" % (e["got"][-120:], e["want"][-120:])))
        first = {}
        for kind, text in problems:
            first.setdefault(kind, []).append(text)
        for kind, texts in sorted(first.items()):
            ctx.violate("scan:" + kind, "%s: %s%s" % (meta["what"], "; ".join(texts[:3]), " (+%d more)" % (len(texts) - 3) if len(texts) > 3 else ""),
                        case=meta, items=c.items, body=c.body, event={"got": e["got"][:3000], "want": e["want"][:3000]})
    if seen < c.expect:
        ctx.bump("cases_short_of_events")


def run(ctx):
    rng = ctx.rng
    n_enums = ctx.pick(156, 3003)
    nrand = ctx.pick(2000, 4000)
    cases = []
    for k in range(n_enums):
        spec = gen_spec(rng, k)
        cases.append(emit_case("e%d" % k, spec, rng, nrand))
    dense_kinds = ["lowprec-generic", "u8-full", "i8-full", "i8-run128", "i8-run129+", "i8-two-runs", "u16-long", "i16-long-neg", "raw-ident", "raw-ident-fields-only", "case-twins"]
    dense = []
    for rep in range(ctx.pick(1, 3)):
        for dk in dense_kinds:
            if rep and dk in ("u8-full", "i8-full", "i8-two-runs", "i16-long-neg", "raw-ident-fields-only"):
                continue
            dense.append(emit_case("d%d_%s" % (rep, dk.replace("-", "_").replace("+", "p")), dense_spec(dk, rng), rng, nrand))
    ctx.rule = ("enums are drawn over: representation (no #[repr] = isize, each of the 12 integer types, cycled so every run covers all 13), repr hint spelling "
                "(int alone, with align(..) / C in either order or in separate #[repr] attributes, C / align alone without an integer; `C` next to an integer only "
                "when a non-unit variant exists since rustc rejects it on C-like enums), attribute order, 1-16 variants of kind unit / `V()` / `V {}` / tuple / named "
                "(field types all constructible), optional lifetime / type / const generic parameters with bounds, defaults and where clauses (type and lifetime "
                "parameters always used by a field), a cfg-removed variant, discriminant pattern (all implicit, explicit first / middle / last / all / random mix / "
                "negative / descending / at the extremes; explicit discriminants only where rustc allows them: primitive repr or unit-only enum) and, per explicit "
                "discriminant, one of ~30 constant-expression forms (literal styles, + - * / % << >> | & ^ !, -(n), consts, const fn, casts of bytes / chars / bools / "
                "other enums, MIN/MAX, blocks, if). Plus fixed dense layouts (u8 and i8 saturated, long implicit runs, raw-identifier variant names). Every enum is "
                "scanned over the whole domain (8/16-bit) or over discriminants +-{0..3,255..257,65535,65536}, +-2^k, complements, extremes and seeded values; "
                "generic enums in two instantiations. distinct = (repr type, hint spelling, generic kinds, pattern, set of variant kinds) plus (expression form, signedness); "
                "every case evaluates at least one full scan, none is trivial")
    ctx.assumptions += [
        "rustc's `as` cast on the enum / on a unit-only twin with identical discriminant expressions, and the tag read through the documented pointer cast of "
        "primitive-repr enums, are the reference discriminants; the generator's own evaluation must agree with both or the run is inconclusive",
        "isize/usize are 64-bit on the machine running the check",
        "variants named by raw identifiers and enums with more than 128 variants are ordinary supported input for this derive",
    ]
    res = l2.build_and_run(ctx, "enums", cases, prelude=PRELUDE)
    resd = l2.build_and_run(ctx, "dense", dense, prelude=PRELUDE, nshards=min(4, len(dense)))
    ctx.extra["build_rounds"] = res.rounds + resd.rounds
    for c in cases:
        check_case(ctx, c, res)
    for c in dense:
        check_case(ctx, c, resd)
    if ctx.extra.get("cases_not_run", 0) or ctx.extra.get("cases_short_of_events", 0):
        raise Inconclusive("some cases did not run to completion: not_run=%s short=%s" % (
            ctx.extra.get("cases_not_run", 0), ctx.extra.get("cases_short_of_events", 0)))
    for c in cases + dense:
        sp = c.meta["_spec"]
        ctx.bump("enums_generic" if sp.generic else "enums_plain")
        if c.meta["implicit_after_explicit"]:
            ctx.bump("enums_with_implicit_after_explicit")
        if any(v.fields for v in sp.variants):
            ctx.bump("enums_with_field_variants")
        if any(v.kind in ("tuple0", "brace0") for v in sp.variants):
            ctx.bump("enums_with_empty_tuple_or_brace_variants")
    picks, seen_ids = [], set()
    for c in ([c for c in cases if c.meta["implicit_after_explicit"]][:3] + [c for c in cases if c.meta["_spec"].generic][:3]
              + [c for c in dense if c.meta["special"] == "lowprec-generic"][:1] + cases[:3]):
        if c.id not in seen_ids:
            seen_ids.add(c.id)
            picks.append(c)

    def clip(t):
        return t if len(t) <= 460 else t[:330] + " ... " + t[-110:]
    for c in picks:
        r = res if c.id.startswith("e") else resd
        ev = [e for e in r.events.get(c.id, []) if e.get("kind") == "scan"][:1]
        ctx.sample({"case": c.meta["what"], "type": c.meta["decl"][:700],
                    "operation": "try_from(n) for every n of the domain (dom=..); entries are n:variant:`variant as %s`; err = number of Err(e) with e.input == n" % c.meta["rty"],
                    "observed": clip(ev[0]["got"]) if ev else None, "expected": clip(ev[0]["want"]) if ev else None})
    for c in cases + dense:
        c.meta.pop("_spec", None)
