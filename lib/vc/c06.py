"""C06 - `derive_more::Debug` without attributes is indistinguishable from std `Debug`; skipped
fields close like `finish_non_exhaustive`; a field-level format replaces only that field's value.

Differential L2 monitor (DESIGN.md section 4, C06).  Every generated type is written three times
with textually identical definitions and value constructors:

  mod dm   #[derive(derive_more::Debug)]                      (the observed side, real proc-macro)
  mod sd   std's #[derive(Debug)], or - when a field carries `#[debug(skip|ignore)]` or
           `#[debug("lit", args)]` - a hand-written impl made only of std's builders
           (`debug_tuple`/`debug_struct`, `.field(..)`, `.field(.., &format_args!("lit", args))`,
           `finish()`/`finish_non_exhaustive()`)              (the reference)
  mod md   like sd, but positional fields of tuple structs/variants are passed to std's builder as
           `&format_args!("{:#?}", field)` when the formatter is in alternate mode: a predictive
           model of the one recorded defect (src/fmt.rs formats pretty positional fields with a
           bare `{value:#?}` and so drops the caller's other flags)

Equal values are built in all three modules and formatted under a grid of `{:...?}` specs (each a
literal call site in the generated prelude, reached through `&dyn Debug`), alone and wrapped in
`Some(..)`, `vec![..]`, tuples, `Box` and in other generated types of the same module.  The programs
only record (derive_more text, std text) pairs plus the model text where it differs from std's;
the verdict is computed here.
"""
import itertools
import re

from . import common, l2
from .common import Inconclusive, rs_str
from .l2 import Case

# ---------------------------------------------------------------------------------------------
# formatter configurations

SPEC_RE = re.compile(r'^\{:(?:(.)([<^>])|([<^>]))?([+-])?(#)?(0)?(\d+)?(?:\.(\d+))?([xX])?\?\}$', re.S)

MANDATORY = ["{:?}", "{:#?}", "{:x?}", "{:X?}", "{:#x?}", "{:10?}", "{:<#12.3?}", "{:+?}", "{:+#?}", "{:08?}",
             "{:#08.2?}", "{:é^9?}", "{:#X?}", "{:>#7?}", "{:.1?}", "{:-#6?}", "{:é^#30?}", "{:#<5?}", "{:#030x?}", "{:>40?}"]


def spec_flags(s):
    m = SPEC_RE.match(s)
    if not m:
        raise Inconclusive("internal: spec %r not understood" % s)
    fill, al1, al2, sign, alt, zero, width, prec, hx = m.groups()
    other = any(x is not None for x in (fill, al1, al2, sign, zero, width, prec, hx))
    return {"alt": alt is not None, "other": other}


def spec_grid():
    fa = ["", "<", "^", ">"] + [f + a for f in ("*", "é", "0", "#") for a in "<^>"]
    out = []
    for f, s, al, z, w, p, h in itertools.product(fa, ["", "+", "-"], ["", "#"], ["", "0"], ["", "3", "9", "24"],
                                                  ["", ".0", ".3"], ["", "x", "X"]):
        out.append("{:" + f + s + al + z + w + p + h + "?}")
    return out


def spec_class(s):
    f = spec_flags(s)
    return ("pretty" if f["alt"] else "plain") + ("+flags" if f["other"] else "")


def prelude(specs):
    arms = "\n".join("        %d => format!(%s, v)," % (i, rs_str(s)) for i, s in enumerate(specs))
    return """
pub const SL1: &[u8] = &[1, 2, 171];
pub const SL0: &[u8] = &[];
pub static SPECS: [&str; %d] = [%s];
pub fn fspec(i: usize, v: &dyn core::fmt::Debug) -> String {
    match i {
%s
        _ => unreachable!(),
    }
}
/// got: derive_more, want: std, model: std with the recorded defect modelled (logged only if it differs)
pub fn grid(tag: &str, sel: &[usize], a: &dyn core::fmt::Debug, b: &dyn core::fmt::Debug, c: &dyn core::fmt::Debug) {
    for &i in sel {
        let k = format!("{}|{}", tag, SPECS[i]);
        let got = fspec(i, a);
        let want = fspec(i, b);
        let model = fspec(i, c);
        cmp(&k, &got, &want);
        if model != want {
            obs(&format!("{}|model", k), &model);
        }
    }
}
""" % (len(specs), ", ".join(rs_str(s) for s in specs), arms)


# ---------------------------------------------------------------------------------------------
# field types and values

STRS = ["hi", "", "multi\nline\n", "q\"uote'", "tab\there", "ünï cödé", "back\\slash", "a\n\nb", "{braces}", "  pad  "]
CHARS = ["'x'", "'\\n'", "'é'", "'\\''", "'\"'"]

# caps: d = Display, x = LowerHex/UpperHex/Octal/Binary, e = LowerExp
LEAVES = [
    ("i32", ["255", "-7", "0", "i32::MIN", "1234567"], "dxe"),
    ("u8", ["171", "0", "255", "10"], "dxe"),
    ("i64", ["-1", "4095", "i64::MAX"], "dxe"),
    ("u64", ["18446744073709551615", "48879"], "dxe"),
    ("usize", ["0", "65535"], "dxe"),
    ("i8", ["-128", "127", "-1"], "dxe"),
    ("f64", ["1.5", "-0.0", "1e21", "f64::NAN", "3.14159", "f64::INFINITY", "0.1"], "de"),
    ("f32", ["2.5", "-1e-7"], "de"),
    ("bool", ["true", "false"], "d"),
    ("char", CHARS, "d"),
    ("&'static str", [rs_str(s) for s in STRS], "d"),
    ("String", ["String::from(%s)" % rs_str(s) for s in STRS], "d"),
    ("()", ["()"], ""),
    ("Spy", ["Spy(1)", "Spy(22)", "Spy(333)"], "dxe"),
    ("&'static i32", ["&5", "&-300"], "dxe"),
    ("&'static [u8]", ["SL1", "SL0"], ""),
]
LIFE_LEAVES = [
    ("&'a str", [rs_str(s) for s in STRS], "d"),
    ("&'a i32", ["&5", "&-300"], "dxe"),
    ("&'a [u8]", ["SL1", "SL0"], ""),
]
DISP_LEAVES = [l for l in LEAVES if "d" in l[2]]


class Leaf:
    def __init__(self, ty, vals, caps):
        self.tyname, self.vals, self.caps = ty, vals, caps

    def ty(self):
        return self.tyname

    def val(self, rng, env):
        return rng.choice(self.vals), False

    def params(self):
        return set()

    def depth(self):
        return 0


class NoFmtT(Leaf):
    def __init__(self):
        Leaf.__init__(self, "NoFmt", ["NoFmt"], "")


class ConstArr:
    """`[u8; N]` for the type's const parameter N."""
    caps = ""

    def __init__(self, n):
        self.n = n

    def ty(self):
        return "[u8; N]"

    def val(self, rng, env):
        return "[%s]" % ", ".join(str(rng.choice((0, 9, 171, 255))) for _ in range(self.n)), False

    def params(self):
        return set()

    def depth(self):
        return 0


class Param:
    caps = ""

    def __init__(self, name):
        self.name = name

    def ty(self):
        return self.name

    def val(self, rng, env):
        return env[self.name].val(rng, None)

    def params(self):
        return {self.name}

    def depth(self):
        return 0


class Wrap:
    caps = ""

    def __init__(self, kind, inner, extra=None):
        self.kind, self.inner, self.extra = kind, inner, extra

    def ty(self):
        i = self.inner.ty()
        return {"opt": "Option<%s>", "vec": "Vec<%s>", "box": "Box<%s>", "arr": "[%s; 2]", "res": "Result<%s, String>",
                "map": "std::collections::BTreeMap<u8, %s>", "tup": "(%s, " + (self.extra.ty() if self.extra else "") + ")",
                "tup1": "(%s,)"}[self.kind] % i

    def val(self, rng, env):
        k = self.kind
        if k == "opt":
            if rng.random() < 0.3:
                return "None", False
            e, a = self.inner.val(rng, env)
            return "Some(%s)" % e, a
        if k == "vec":
            items = [self.inner.val(rng, env) for _ in range(rng.choice((0, 1, 2, 3)))]
            return "vec![%s]" % ", ".join(e for e, _ in items), any(a for _, a in items)
        if k == "box":
            e, a = self.inner.val(rng, env)
            return "Box::new(%s)" % e, a
        if k == "arr":
            items = [self.inner.val(rng, env) for _ in range(2)]
            return "[%s]" % ", ".join(e for e, _ in items), any(a for _, a in items)
        if k == "res":
            if rng.random() < 0.3:
                return "Err(String::from(%s))" % rs_str(rng.choice(STRS)), False
            e, a = self.inner.val(rng, env)
            return "Ok(%s)" % e, a
        if k == "map":
            items = [self.inner.val(rng, env) for _ in range(rng.choice((0, 1, 2)))]
            return "std::collections::BTreeMap::from([%s])" % ", ".join("(%du8, %s)" % (7 * (i + 1), e) for i, (e, _) in enumerate(items)), any(a for _, a in items)
        if k == "tup":
            e, a = self.inner.val(rng, env)
            e2, a2 = self.extra.val(rng, env)
            return "(%s, %s)" % (e, e2), a or a2
        if k == "tup1":
            e, a = self.inner.val(rng, env)
            return "(%s,)" % e, a
        raise AssertionError(k)

    def params(self):
        return self.inner.params() | (self.extra.params() if self.extra else set())

    def depth(self):
        return 1 + self.inner.depth()


class User:
    """A generated type of the same case (at its single instantiation)."""
    caps = ""

    def __init__(self, td):
        self.td = td

    def ty(self):
        return self.td.name + self.td.inst()

    def val(self, rng, env):
        if not self.td.variants:
            raise AssertionError("uninhabited")
        return self.td.value(rng, rng.randrange(len(self.td.variants)))

    def params(self):
        return set()

    def depth(self):
        return 1 + self.td.depth


def leaf(rng, pool=LEAVES):
    return Leaf(*rng.choice(pool))


# ---------------------------------------------------------------------------------------------
# type definitions

def unraw(n):
    return n[2:] if n.startswith("r#") else n


class Field:
    def __init__(self, name, ft, attr=None):
        self.name, self.ft, self.attr = name, ft, attr   # attr: None | "skip" | "ignore" | ("fmt", lit_text, [args])

    def skipped(self):
        return self.attr in ("skip", "ignore")

    def plain(self):
        return self.attr is None

    def fmt(self):
        return isinstance(self.attr, tuple)

    def attr_src(self):
        if self.attr is None:
            return ""
        if self.skipped():
            return "#[debug(%s)] " % self.attr
        return "#[debug(%s)] " % ", ".join([rs_str(self.attr[1])] + self.attr[2])


class Fields:
    def __init__(self, kind, fields):
        self.kind, self.fields = kind, fields

    def binders(self):
        if self.kind == "tuple":
            return ["_%d" % i for i in range(len(self.fields))]
        return [f.name for f in self.fields]


class TypeDef:
    def __init__(self, kw, name):
        self.kw, self.name = kw, name
        self.life, self.params, self.const = False, [], None
        self.variants = []      # [(variant name or None, Fields)]
        self.bind = {}
        self.depth = 0

    # generics ---------------------------------------------------------------
    def _gen(self, life, ty, const):
        parts = ([life] if self.life else []) + [ty(p) for p in self.params] + ([const] if self.const is not None else [])
        return "<%s>" % ", ".join(parts) if parts else ""

    def decl_generics(self):
        return self._gen("'a", lambda p: p, "const N: usize")

    def use_generics(self):
        return self._gen("'a", lambda p: p, "N")

    def inst(self):
        return self._gen("'static", lambda p: self.bind[p].ty(), str(self.const))

    def all_fields(self):
        for _, fs in self.variants:
            for f in fs.fields:
                yield f

    def has_attrs(self):
        return any(f.attr is not None for f in self.all_fields())

    def tuple_plain(self):
        return any(fs.kind == "tuple" and any(f.plain() for f in fs.fields) for _, fs in self.variants)

    def raw_names(self):
        out = set()
        if self.name.startswith("r#"):
            out.add(unraw(self.name))
        for vn, _ in self.variants:
            if vn and vn.startswith("r#"):
                out.add(unraw(vn))
        return out

    def param_uses(self):
        uses = {p: set() for p in self.params}
        for f in self.all_fields():
            for p in f.ft.params():
                uses[p].add("skip" if f.skipped() else "fmt" if f.fmt() else "plain")
        return uses

    # source -----------------------------------------------------------------
    def decl(self, attrs, derive):
        def fsrc(fs):
            if fs.kind == "unit":
                return ""
            parts = []
            for f in fs.fields:
                a = f.attr_src() if attrs else ""
                parts.append(a + (f.ft.ty() if fs.kind == "tuple" else "%s: %s" % (f.name, f.ft.ty())))
            return "(%s)" % ", ".join(parts) if fs.kind == "tuple" else " { %s }" % ", ".join(parts)

        head = "#[derive(%s)]\n" % derive if derive else ""
        if self.kw == "struct":
            fs = self.variants[0][1]
            return "%spub struct %s%s%s%s" % (head, self.name, self.decl_generics(), fsrc(fs), "" if fs.kind == "named" else ";")
        return "%spub enum %s%s { %s }" % (head, self.name, self.decl_generics(), ", ".join(vn + fsrc(fs) for vn, fs in self.variants))

    def hand_impl(self, model):
        """Reference impl out of std's builders; `model` additionally models the recorded defect."""
        uses = self.param_uses()
        bounds = {}
        for p in self.params:
            b = []
            if uses[p] & {"plain", "fmt"}:
                b.append("core::fmt::Debug")
            if "fmt" in uses[p]:
                b.append("core::fmt::Display")
            bounds[p] = b
        ig = self._gen("'a", lambda p: p + (": " + " + ".join(bounds[p]) if bounds[p] else ""), "const N: usize")
        arms = []
        for vn, fs in self.variants:
            shown = unraw(vn if vn else self.name)
            path = "Self::" + vn if vn else "Self"
            if fs.kind == "unit":
                arms.append("%s => __f.write_str(%s)," % (path, rs_str(shown)))
                continue
            b = fs.binders()
            pat = "%s(%s)" % (path, ", ".join(b)) if fs.kind == "tuple" else "%s { %s }" % (path, ", ".join(b))
            st = ["let mut __b = __f.debug_%s(%s);" % ("tuple" if fs.kind == "tuple" else "struct", rs_str(shown))]
            for var, fld in zip(b, fs.fields):
                nm = "" if fs.kind == "tuple" else rs_str(unraw(fld.name)) + ", "
                if fld.skipped():
                    continue
                if fld.fmt():
                    st.append("__b.field(%s&format_args!(%s));" % (nm, ", ".join([rs_str(fld.attr[1])] + fld.attr[2])))
                elif model and fs.kind == "tuple":
                    st.append("if __alt { __b.field(&format_args!(\"{:#?}\", %s)); } else { __b.field(%s); }" % (var, var))
                else:
                    st.append("__b.field(%s%s);" % (nm, var))
            st.append("__b.finish_non_exhaustive()" if any(f.skipped() for f in fs.fields) else "__b.finish()")
            arms.append("%s => { %s }" % (pat, " ".join(st)))
        body = "match self { %s }" % " ".join(arms) if arms else "match *self {}"
        return ("impl%s core::fmt::Debug for %s%s {\n    fn fmt(&self, __f: &mut core::fmt::Formatter<'_>) -> core::fmt::Result {\n"
                "        let __alt = __f.alternate();\n        %s\n    }\n}" % (ig, self.name, self.use_generics(), body))

    def source(self, mode):
        if mode == "dm":
            return self.decl(True, "derive_more::Debug")
        if mode == "md" and self.tuple_plain():
            return self.decl(False, None) + "\n" + self.hand_impl(True)
        if self.has_attrs():
            return self.decl(False, None) + "\n" + self.hand_impl(False)
        return self.decl(False, "Debug")

    # values -----------------------------------------------------------------
    def value(self, rng, vi):
        vn, fs = self.variants[vi]
        path = self.name + ("::" + vn if vn else "")
        if fs.kind == "unit":
            return path, False
        vals = [f.ft.val(rng, self.bind) for f in fs.fields]
        aff = any(a for (e, a), f in zip(vals, fs.fields) if f.plain())
        if fs.kind == "tuple":
            aff = aff or any(f.plain() for f in fs.fields)
            return "%s(%s)" % (path, ", ".join(e for e, _ in vals)), aff
        return "%s { %s }" % (path, ", ".join("%s: %s" % (f.name, e) for f, (e, _) in zip(fs.fields, vals))), aff

    def features(self):
        kinds = sorted(set(fs.kind + str(min(len(fs.fields), 3)) for _, fs in self.variants))
        fl = list(self.all_fields())
        return (self.kw, tuple(kinds),
                "skip" if any(f.skipped() for f in fl) else "",
                "fmt" if any(f.fmt() for f in fl) else "",
                "generic" if (self.params or self.life or self.const is not None) else "",
                "raw" if self.raw_names() else "",
                "rawfield" if any(f.name and f.name.startswith("r#") for f in fl) else "",
                "nested" if self.depth else "")

    def short(self):
        return " ".join(self.source("dm").split())[:400]


# ---------------------------------------------------------------------------------------------
# generator

TYPE_NAMES = ["S", "Point", "Wrapper2", "X_y", "Ünï", "Abc", "T", "Outer", "Mid", "LongerTypeName"]
RAW_KW_NAMES = ["r#fn", "r#loop", "r#dyn", "r#move"]
VAR_NAMES = ["A", "B", "Var", "Xé", "Unit", "Tup", "Named", "V_1"]
RAW_VAR_NAMES = ["r#Rawv", "r#fn", "r#loop", "r#move"]
FIELD_NAMES = ["a", "b", "x", "y", "field", "long_name", "_p", "r#type", "r#struct", "r#match", "é"]

# (needed caps, literal, args) - ME is the field itself (`_0` / `name`), OT another Leaf-typed field
FMT_TEMPLATES = [
    ("", "fixed text", []),
    ("d", "{ME}", []),
    ("d", "{}", ["ME"]),
    ("", "{ME:?}", []),
    ("d", "<{ME:>6}>", []),
    ("d", "{ME:*^9}", []),
    ("x", "{ME:x}", []),
    ("x", "{:#06b}", ["ME"]),
    ("x", "{ME:#X}/{ME:o}", []),
    ("d", "{0}-{0:?}", ["ME"]),
    ("d", "{{{ME}}}", []),
    ("d", "{zz}|{}", ["ME", "zz = 1 + 2"]),
    ("d", "{}", ["ME.to_string().len()"]),
    ("O", "{OT:?}+{ME:?}", []),
    ("d", "line1\n{ME}\nline3", []),
    ("d", "{ME}\n", []),
    ("", "{ME:#?}", []),
    ("S", "{}", ["self.SELF"]),
    ("e", "{ME:e}", []),
    ("d", "é{ME}ü", []),
    ("", "{:?}", ["ME"]),
    ("", "blank\n\nline", []),
    ("d", "{ME}\n\n{ME}", []),
    ("d", "{ME }", []),
    ("d", "{:>8 }", ["ME"]),
    ("d", "{:.*}", ["3", "ME"]),
]
# for fields whose type is a type parameter: forms whose trait bound the documentation says is inferred
# (incl. std::fmt grammar corners the literal parser must follow: whitespace before `}`, `.*`)
PARAM_TEMPLATES = [("d", "{ME}", []), ("d", "{}", ["ME"]), ("", "{ME:?}", []), ("d", "é{ME}ü", []),
                   ("d", "{ME }", []), ("d", "{:>8 }", ["ME"]), ("d", "{:.*}", ["3", "ME"]), ("", "{ME:?  }", [])]
RAWFIELD_TEMPLATES = [("d", "{}", ["ME"]), ("", "{:?}", ["ME"]), ("", "fixed text", [])]


def pick_fmt(rng, fs_kind, idx, fields_so_far, name, ft, is_struct):
    """A field-level `#[debug("lit", args)]` for a field of type `ft`, or None."""
    me = "_%d" % idx if fs_kind == "tuple" else name
    if isinstance(ft, Param):
        if me.startswith("r#"):
            # `#[debug("{:?}", r#type)] r#type: T` gets no `T: Debug` bound (bound inference compares the
            # raw spelling with the unraw field name, fmt/mod.rs bounded_types): C04's subject, not C06's
            return None
        pool = PARAM_TEMPLATES
        caps = "d"   # the parameter will be bound to a Display leaf
    elif isinstance(ft, Leaf) and not isinstance(ft, NoFmtT):
        pool = RAWFIELD_TEMPLATES if me.startswith("r#") else FMT_TEMPLATES
        caps = ft.caps
    else:
        return None
    others = [("_%d" % i if fs_kind == "tuple" else f.name) for i, f in enumerate(fields_so_far)
              if isinstance(f.ft, Leaf) and not isinstance(f.ft, NoFmtT) and not (f.name or "").startswith("r#")]
    ok = []
    for need, lit, args in pool:
        if need == "O":
            if not others:
                continue
        elif need == "S":
            if not is_struct or "d" not in caps:
                continue
        elif need and need not in caps:
            continue
        ok.append((need, lit, args))
    need, lit, args = rng.choice(ok)
    ot = rng.choice(others) if others else ""
    selfacc = str(idx) if fs_kind == "tuple" else name
    sub = lambda s: s.replace("ME", me).replace("OT", ot).replace("SELF", selfacc)
    return ("fmt", sub(lit), [sub(a) for a in args])


def gen_field_type(rng, td, earlier):
    r = rng.random()
    if td.params and r < 0.35:
        p = Param(rng.choice(td.params))
        k = rng.random()
        if k < 0.55:
            return p
        return Wrap(rng.choice(("opt", "vec", "box", "tup1")), p) if k < 0.9 else Wrap("tup", p, leaf(rng))
    if td.life and r < 0.5:
        return leaf(rng, LIFE_LEAVES)
    if td.const is not None and r < 0.5:
        return ConstArr(td.const)
    if earlier and r < 0.62:
        u = User(rng.choice(earlier))
        k = rng.random()
        if k < 0.5:
            return u
        if k < 0.9:
            return Wrap(rng.choice(("opt", "vec", "box", "arr", "res", "map", "tup1")), u)
        return Wrap("tup", u, leaf(rng))
    k = rng.random()
    if k < 0.72:
        return leaf(rng)
    if k < 0.95:
        return Wrap(rng.choice(("opt", "vec", "box", "arr", "res", "map", "tup1")), leaf(rng))
    return Wrap("opt", Wrap("vec", leaf(rng)))


def gen_fields(rng, td, kind, n, earlier, attr_rate, names_taken=None):
    fields = []
    fnames = rng.sample(FIELD_NAMES, n) if kind == "named" else [None] * n
    for i in range(n):
        ft = gen_field_type(rng, td, earlier)
        attr = None
        r = rng.random()
        if r < attr_rate * 0.4:
            attr = rng.choice(("skip", "skip", "ignore"))
            if rng.random() < 0.15 and not ft.params():
                ft = NoFmtT()
        elif r < attr_rate:
            attr = pick_fmt(rng, kind, i, fields, fnames[i], ft, td.kw == "struct")
        fields.append(Field(fnames[i], ft, attr))
    return Fields(kind, fields)


def finish_generics(rng, td, earlier):
    """Make every type parameter used, then bind each one to a concrete type."""
    uses = td.param_uses()
    for p in td.params:
        if not uses[p]:
            # add a field (struct) or a variant (enum) that uses the parameter
            f_t = Param(p) if rng.random() < 0.6 else Wrap(rng.choice(("opt", "vec")), Param(p))
            if td.kw == "struct":
                fs = td.variants[0][1]
                if fs.kind == "unit":
                    fs.kind = rng.choice(("tuple", "named"))
                name = None if fs.kind == "tuple" else "g_" + p.lower()
                fs.fields.append(Field(name, f_t, None))
            else:
                td.variants.append(("G" + p, Fields("tuple", [Field(None, f_t, None)])))
    if td.life and not any("'a" in f.ft.ty() for f in td.all_fields()):
        f_t = leaf(rng, LIFE_LEAVES)
        if td.kw == "struct":
            fs = td.variants[0][1]
            if fs.kind == "unit":
                fs.kind = "tuple"
            fs.fields.append(Field(None if fs.kind == "tuple" else "lt", f_t, None))
        else:
            td.variants.append(("Lt", Fields("named", [Field("lt", f_t, None)])))
    if td.const is not None and not any(isinstance(f.ft, ConstArr) for f in td.all_fields()):
        f_t = ConstArr(td.const)
        if td.kw == "struct":
            fs = td.variants[0][1]
            if fs.kind == "unit":
                fs.kind = "tuple"
            fs.fields.append(Field(None if fs.kind == "tuple" else "arr", f_t, None))
        else:
            td.variants.append(("Arr", Fields("tuple", [Field(None, f_t, None)])))
    uses = td.param_uses()
    for p in td.params:
        u = uses[p]
        if "fmt" in u:
            td.bind[p] = leaf(rng, DISP_LEAVES)
        elif u == {"skip"} and rng.random() < 0.6:
            td.bind[p] = NoFmtT()
        else:
            inh = [t for t in earlier if t.variants]
            r = rng.random()
            if inh and r < 0.3:
                td.bind[p] = User(rng.choice(inh))
            elif r < 0.45:
                td.bind[p] = Wrap(rng.choice(("opt", "vec")), leaf(rng))
            else:
                td.bind[p] = leaf(rng)
    td.depth = max([0] + [f.ft.depth() for f in td.all_fields()] + [b.depth() for b in td.bind.values()])


def gen_typedef(rng, k, earlier, attr_rate, raw_rate, force=None):
    kw = rng.choice(("struct", "struct", "enum")) if force is None else force
    if rng.random() < raw_rate:
        name = rng.choice(RAW_KW_NAMES) if rng.random() < 0.5 and not any(t.name in RAW_KW_NAMES for t in earlier) else "r#Rawq%d" % k
        if any(t.name == name for t in earlier):
            name = "r#Rawq%d" % k
    else:
        name = "%s%d" % (rng.choice(TYPE_NAMES), k)
    td = TypeDef(kw, name)
    g = rng.random()
    if g < 0.22:
        td.params = ["T"]
    elif g < 0.30:
        td.params = ["T", "U"]
    td.life = rng.random() < 0.10
    td.const = rng.choice((0, 1, 3)) if rng.random() < 0.07 else None
    inh = [t for t in earlier if t.variants and t.depth < 2]

    def one_fields():
        kind = rng.choice(("tuple", "tuple", "tuple", "named", "named", "unit"))
        n = 0 if kind == "unit" else rng.choice((0, 1, 1, 2, 2, 3, 3, 4, 5))
        return gen_fields(rng, td, kind, n, inh, attr_rate)

    if kw == "struct":
        td.variants = [(None, one_fields())]
    else:
        nv = rng.choice((0, 1, 2, 3, 3, 4, 5)) if not (td.params or td.life or td.const is not None) else rng.choice((1, 2, 3, 4))
        names = rng.sample(VAR_NAMES, nv)
        for i in range(nv):
            vn = names[i]
            if rng.random() < raw_rate:
                cand = rng.choice(RAW_VAR_NAMES)
                if all(cand != n for n, _ in td.variants):
                    vn = cand
            td.variants.append((vn, one_fields()))
    finish_generics(rng, td, inh)
    return td


def skip_subset_types(k0, as_enum):
    """All subsets of skipped fields for 0..4 fields, tuple and named (deterministic)."""
    pool = [LEAVES[0], LEAVES[10], LEAVES[1], LEAVES[6]]
    out = []
    k = k0
    for kind in ("tuple", "named"):
        for n in range(0, 5):
            for mask in range(1 << n):
                fields = [Field(None if kind == "tuple" else "f%d" % i, Leaf(*pool[i]), ("skip" if (i + mask) % 2 else "ignore") if mask >> i & 1 else None)
                          for i in range(n)]
                td = TypeDef("enum" if as_enum else "struct", "Sk%d" % k)
                td.variants = [("V" if as_enum else None, Fields(kind, fields))]
                if as_enum:
                    td.variants.append(("Other", Fields("unit", [])))
                out.append(td)
                k += 1
    return out


def make_case(cid, tds, rng, allspecs, n_main, n_wrap, vals_per_struct):
    """One generated module: the types three times, value constructors, grid calls."""
    mods = {}
    vfun = []
    body = []
    aff = {}
    nexp = 0
    k = 0
    mand = list(range(len(MANDATORY)))
    rest = list(range(len(MANDATORY), len(allspecs)))

    def sel(n):
        s = mand[:min(n, 12)] + rng.sample(mand[12:], min(max(0, n // 8), len(mand) - 12))
        s += rng.sample(rest, max(0, n - len(s)))
        return s

    for td in tds:
        if not td.variants:
            continue
        idxs = list(range(len(td.variants))) if td.kw == "enum" else [0] * (vals_per_struct if td.variants[0][1].kind != "unit" else 1)
        first = None
        for vi in idxs:
            e, a = td.value(rng, vi)
            vfun.append("pub fn v%d() -> %s%s { %s }" % (k, td.name, td.inst(), e))
            tag = "v%d" % k
            s = sel(n_main)
            body.append("grid(%s, &%s, &dm::v%d(), &sd::v%d(), &md::v%d());" % (rs_str(tag), s, k, k, k))
            aff[tag] = a
            nexp += len(s)
            if first is None:
                first = (k, a)
            elif rng.random() < 0.5:
                w = rng.choice(("some", "vec", "tup", "box", "ref"))
                s = sel(n_wrap)
                tagw = "v%d/%s" % (k, w)
                mk = {"some": "Some(%s::v{k}())", "vec": "vec![%s::v{k}(), %s::v{f}()]", "tup": "(%s::v{k}(), 7u8, %s::v{f}())",
                      "box": "Box::new(%s::v{k}())", "ref": "&&%s::v{k}()"}[w].replace("{k}", str(k)).replace("{f}", str(first[0]))
                body.append("grid(%s, &%s, &%s, &%s, &%s);" % (rs_str(tagw), s, mk.replace("%s", "dm"), mk.replace("%s", "sd"), mk.replace("%s", "md")))
                aff[tagw] = a or first[1]
                nexp += len(s)
            k += 1
    need_md = any(td.tuple_plain() for td in tds)
    items = []
    for m in ("dm", "sd", "md"):
        if m == "md" and not need_md:
            items.append("pub mod md { pub use super::sd::*; }")
            continue
        items.append("pub mod %s {\n#[allow(unused_imports)] use super::*;\n%s\n%s\n}" % (
            m, "\n".join(td.source(m) for td in tds), "\n".join(vfun)))
    raws = set()
    for td in tds:
        raws |= td.raw_names()
    meta = {"what": "; ".join(td.short() for td in tds)[:900], "raw": sorted(raws), "aff": aff,
            "classes": [td.features() for td in tds], "types": [td.source("dm") for td in tds], "vfun": vfun}
    return Case(cid, tds[-1].features(), "\n".join(items), "\n".join(body), expect=nexp, meta=meta)


# ---------------------------------------------------------------------------------------------
# oracle

def rawsub(text, raws):
    if not raws:
        return text
    return re.sub(r"(?<![\w#])(%s)(?!\w)" % "|".join(re.escape(r) for r in sorted(raws, key=len, reverse=True)), r"r#\1", text)


def judge(c, e, model):
    """Violation keys for one (got != want) event."""
    tag, spec = e["kind"].rsplit("|", 1)
    fl = spec_flags(spec)
    got, want = e["got"], e["want"]
    raws = c.meta["raw"]
    # the recorded defect's class: a printed tuple struct/variant with a plain field, `#` and another flag
    in_class = bool(c.meta["aff"].get(tag)) and fl["alt"] and fl["other"]
    if in_class and model != want and got == model:
        return ["known:pretty-tuple-flags"]
    if raws and got == rawsub(want, raws):
        return ["known:raw-ident-name"]
    if raws and in_class and model != want and got == rawsub(model, raws):
        return ["known:pretty-tuple-flags", "known:raw-ident-name"]
    kinds = sorted(set(k for cl in c.meta["classes"] for k in cl[1]))
    feats = sorted(set(x for cl in c.meta["classes"] for x in cl[2:] if x))
    return ["mismatch:%s:%s:%s" % (spec_class(spec), ",".join(kinds), ",".join(feats))]


def report(ctx, c, bykey):
    """One violation per (case, key); the first event is the witness, the rest are counted."""
    for key, hits in bykey.items():
        e, model = hits[0]
        ctx.bump((key.replace("known:", "known_") if key.startswith("known:") else "mismatch") + "_events", len(hits))
        ctx.violate(key, "%s [%s]: derive_more %r, std %r%s (%d event(s) of this kind in the case)" % (
            c.meta["what"][:300], e["kind"], e["got"][:300], e["want"][:300],
            (", defect model %r" % model[:200]) if model != e["want"] else "", len(hits)),
            case={"what": c.meta["what"], "raw": c.meta["raw"]}, types=c.meta["types"], values=c.meta["vfun"], event=e, model=model,
            more=[h[0] for h in hits[1:6]], files={"case.rs": c.items + "\n// run():\n" + c.body})


def run(ctx):
    rng = ctx.rng
    grid_all = spec_grid()
    extra = [s for s in rng.sample(grid_all, ctx.pick(240, 700)) if s not in MANDATORY]
    allspecs = MANDATORY + extra
    for s in allspecs:
        spec_flags(s)
    n_main, n_wrap = ctx.pick(32, 48), ctx.pick(10, 16)
    cases = []
    n_types = 0
    # (1) exhaustive skip subsets
    sk = skip_subset_types(0, False) + (skip_subset_types(1000, True) if not ctx.quick() else [])
    for i in range(0, len(sk), 4):
        cases.append(make_case("k%d" % (i // 4), sk[i:i + 4], rng, allspecs, n_main, n_wrap, 1))
        n_types += len(sk[i:i + 4])
    # (2) random groups of 1..3 types, later ones nesting earlier ones
    target = ctx.pick(1200, 12000)
    i = 0
    while n_types < target:
        nt = rng.choice((1, 2, 3, 3))
        # attribute-free groups (pure std-derive reference) and attributed ones
        attr_rate = rng.choice((0.0, 0.0, 0.35, 0.6))
        raw_rate = 0.5 if rng.random() < 0.12 else 0.0
        tds = []
        for j in range(nt):
            tds.append(gen_typedef(rng, j, tds, attr_rate, raw_rate))
        if not any(td.variants for td in tds):
            continue
        cases.append(make_case("g%d" % i, tds, rng, allspecs, n_main, n_wrap, 2))
        n_types += nt
        i += 1
    ctx.rule = ("each case is a module holding 1-4 type definitions written three times (derive_more::Debug / std Debug or hand-written std builders / defect model); "
                "types: structs and enums (0-5 variants) with unit, `()`, `{}`, tuple and named shapes of 0-5 fields, field types from 16 leaf types (ints, floats, str/String with "
                "newlines/quotes/unicode, char, bool, unit, references, rt::Spy which prints every flag it receives), Option/Vec/Box/array/Result/BTreeMap/tuple wrappers and earlier "
                "types of the same module (nesting depth <= 3), type/lifetime/const parameters (parameters used only in skipped fields bound to a type without Debug), raw-identifier "
                "type/variant/field names, per-field none/skip/ignore/#[debug(\"lit\", args)] from 26 literal templates, plus all subsets of skipped fields for 0-4 fields (tuple and named); "
                "each value (2 per struct, 1 per variant) is formatted under 32/48 specs (14-18 of 20 fixed ones + a random sample of the fill x align x sign x # x 0 x width x precision x hex grid), "
                "half of them again inside Some/vec!/tuple/Box/&&; distinct = distinct (struct|enum, set of field-shape kinds with arity, skip, fmt, generic, raw names, raw fields, nested) tuples; "
                "cases without any printed field difference are still counted since every case formats at least one value under >= 32 specs")
    ctx.assumptions += [
        "std's #[derive(Debug)] and core::fmt::{DebugTuple, DebugStruct} (incl. finish_non_exhaustive) of the installed toolchain are the reference",
        "the hand-written reference impls use only std's builders and format_args! with the attribute's literal and arguments verbatim",
        "field types never print addresses or type paths, so equal values print equally in the three modules",
        "known:pretty-tuple-flags is granted only when the value contains a printed tuple struct/variant with a plain field, the spec has `#` plus another flag, "
        "and derive_more's text equals std's builder fed with format_args!(\"{:#?}\", field) for exactly those fields",
    ]
    ctx.extra["type_pairs"] = n_types
    ctx.extra["specs_in_grid"] = len(allspecs)
    res = l2.build_and_run(ctx, "dbg", cases, prelude=prelude(allspecs), nshards=common.NCPU)
    ctx.extra["build_rounds"] = res.rounds
    not_run = short = 0
    model_diffs = 0
    for c in cases:
        ctx.count()
        for cl in c.meta["classes"]:
            ctx.cls(cl)
        if c.id in res.compile_errors:
            kinds = sorted(set(k for cl in c.meta["classes"] for k in cl[1]))
            feats = sorted(set(x for cl in c.meta["classes"] for x in cl[2:] if x))
            ctx.violate("compile:%s:%s" % (",".join(kinds), ",".join(feats)),
                        "supported input does not compile (%s): %s" % (c.meta["what"][:300], l2.err_text(res.compile_errors[c.id], 1)[:700]),
                        case=c.meta["what"], types=c.meta["types"], errors=l2.err_text(res.compile_errors[c.id]), files={"case.rs": c.items})
            continue
        if c.id in res.not_run:
            not_run += 1
            continue
        evs = res.events.get(c.id, [])
        models = {e["kind"][:-len("|model")]: e["val"] for e in evs if "val" in e and e.get("kind", "").endswith("|model")}
        model_diffs += len(models)
        ncmp = 0
        died = False
        bykey = {}
        for e in evs:
            if "got" in e and "want" in e:
                ncmp += 1
                if e["got"] != e["want"]:
                    m = models.get(e["kind"], e["want"])
                    for key in judge(c, e, m):
                        bykey.setdefault(key, []).append((e, m))
            elif e.get("kind") in ("panic", "crash"):
                died = True
                ctx.violate("panic:%s" % (c.cls[0],), "%s: generated program %s: %s" % (c.meta["what"][:300], e["kind"], e.get("val", "")[:300]),
                            case=c.meta["what"], types=c.meta["types"], event=e, files={"case.rs": c.items + "\n// run():\n" + c.body})
        report(ctx, c, bykey)
        ctx.bump("events_compared", ncmp)
        if ncmp < c.expect and not died:
            short += 1
    ctx.extra["model_differs_from_std"] = model_diffs
    for c in cases[:2] + cases[len(sk) // 4:len(sk) // 4 + 6] + cases[-3:]:
        evs = [{"spec": e["kind"], "derive_more": e["got"][:400], "std": e["want"][:400]} for e in res.events.get(c.id, []) if "got" in e]
        pick = [x for x in evs if x["spec"].endswith("{:#?}")][:1] + evs[:1] + evs[5:6]
        ctx.sample({"types": c.meta["types"], "values": c.meta["vfun"][:2], "events": pick}, cap=11)
    if not_run or short:
        raise Inconclusive("some cases did not run to completion: not_run=%d short=%d" % (not_run, short))
