"""C05 add-on: caller's flags under ENUM-LEVEL format attributes (added after seeded defects that
made an enum-level `{_variant}` format transparent for non-Display derives, and that dropped the
pass-through of a variant's own bare placeholder below an enum-level default format).

Expected, following the property text:
  * wrapping enum-level literal with surrounding text, and default enum-level literal with text:
    attribute-driven and not a single bare placeholder  => caller's flags leave the output unchanged;
  * a variant's own attribute that is one bare placeholder on its field (by name, or as the only
    argument) => flags pass through to the field under the placeholder's trait, whether or not the
    enum carries a default literal;
  * bare `{_variant}` on a non-Display derive: judged one-sidedly (inert, or the Display rendering
    of the whole text padded) because `_variant` is neither a field nor an argument.
"""
from . import common, l2
from .l2 import Case

TRAITS = [("Display", "display", ""), ("Binary", "binary", "b"), ("Octal", "octal", "o"), ("LowerHex", "lower_hex", "x"),
          ("UpperHex", "upper_hex", "X"), ("LowerExp", "lower_exp", "e"), ("UpperExp", "upper_exp", "E"), ("Pointer", "pointer", "p")]
FIELDS = {
    "": [("i32", "-42"), ("&'static str", "\"héllo\""), ("Spy", "Spy(7)"), ("f64", "2.5")],
    "b": [("u8", "5"), ("i32", "-3"), ("Spy", "Spy(7)")], "o": [("u8", "9"), ("Spy", "Spy(7)")],
    "x": [("u8", "255"), ("i32", "202"), ("Spy", "Spy(7)")], "X": [("u8", "255"), ("Spy", "Spy(7)")],
    "e": [("f64", "1500.25"), ("i32", "1500"), ("Spy", "Spy(7)")], "E": [("f64", "1500.25"), ("Spy", "Spy(7)")],
    "p": [("&'static i32", "&SEVEN"), ("Spy", "Spy(7)")],
}
SPECS = [">8", "<6", "^9", "*>7", "08", "+", "#", ".2", "+08.3", "#010", "é^11", "-", "#x".replace("x", "")]
SPECS = list(dict.fromkeys(s for s in SPECS if s))


def one_enum(cid, rng, tr, at, L, fty, fval, kind):
    named = rng.random() < 0.4
    f = "x" if named else "_0"

    def var(name, attr=""):
        return "%s%s%s" % (attr + " " if attr else "", name, " { x: %s }" % fty if named else "(%s)" % fty)

    def mk(name):
        return "E::%s%s" % (name, " { x: %s }" % fval if named else "(%s)" % fval)
    if kind == "wrap-text":
        top = '#[%s("<{_variant}>")]' % at
        vs = [("A", "", "inert"), ("B", '#[%s("own {%s:%s}")]' % (at, f, L), "inert"), ("C", "", "inert")]
    elif kind == "default-text+own-bare":
        top = '#[%s("dflt {%s:%s}!")]' % (at, f, L)
        vs = [("A", "", "inert"), ("B", '#[%s("{%s:%s}")]' % (at, f, L), "pt"), ("C", "", "inert")]
        if L != "p":
            vs.append(("D", '#[%s("{0:%s}", %s)]' % (at, L, f), "pt"))
            vs.append(("G", '#[%s("{n:%s}", n = %s)]' % (at, L, f), "pt"))
    elif kind == "own-bare-no-shared":
        top = ""
        vs = [("A", "", "pt"), ("B", '#[%s("{%s:%s}")]' % (at, f, L), "pt"), ("C", '#[%s("t {%s:%s}")]' % (at, f, L), "inert")]
    else:  # bare-variant (non-Display derives only)
        top = '#[%s("{_variant}")]' % at
        vs = [("A", "", "onesided"), ("B", '#[%s("own {%s:%s}")]' % (at, f, L), "onesided")]
    rng.shuffle(vs)
    items = "static SEVEN: i32 = 7;\n#[derive(derive_more::%s)]\n%s\npub enum E { %s }" % (tr, top, ", ".join(var(n, a) for n, a, _ in vs))
    body = []
    n = 0
    for name, attr, exp in vs:
        for spec in SPECS:
            got = 'format!("{:%s%s}", %s)' % (spec, L, mk(name))
            plain = 'format!("{:%s}", %s)' % (L, mk(name))
            if exp == "inert":
                want = plain
            elif exp == "pt":
                want = 'format!("{:%s%s}", %s)' % (spec, L, fval if L != "p" else fval)
            else:
                want = '{ let g = %s; let inert = %s; let padded = format!("{:%s}", inert); if g == padded { padded } else { inert } }' % (got, plain, spec)
            body.append('cmp("%s|%s|%s|%s", &%s, &%s);' % (kind, exp, name, spec, got, want))
            n += 1
    return Case(cid, ("enum-level", tr, kind, fty, named), items, "\n".join(body), expect=n,
                meta={"what": "derive(%s) %s on field %s" % (tr, kind, fty), "decl": items})


def run_enum_level(ctx):
    rng = ctx.rng
    cases = []
    k = 0
    for rep in range(ctx.pick(1, 8)):
        for tr, at, L in TRAITS:
            for fty, fval in FIELDS[L]:
                for kind in ("wrap-text", "default-text+own-bare", "own-bare-no-shared", "bare-variant"):
                    if kind == "bare-variant" and tr == "Display":
                        continue
                    cases.append(one_enum("el%d" % k, rng, tr, at, L, fty, fval, kind))
                    k += 1
    res = l2.build_and_run(ctx, "enumlevel", cases, nshards=ctx.pick(4, 16))
    for c in cases:
        ctx.count()
        ctx.cls(c.cls)
        if c.id in res.compile_errors:
            ctx.violate("compile:enum-level:%s" % c.cls[2], "supported input does not compile (%s): %s\n%s" % (c.meta["what"], l2.err_text(res.compile_errors[c.id], 1)[:600], c.items),
                        case=c.meta, items=c.items)
            continue
        if c.id in res.not_run:
            raise common.Inconclusive("enum-level case %s did not run" % c.id)
        n = 0
        for e in res.events.get(c.id, []):
            if "got" in e and "want" in e:
                n += 1
                ctx.bump("enum_level_events_compared")
                if e["got"] != e["want"]:
                    kind, exp, name, spec = e["kind"].split("|", 3)
                    ctx.violate("enum-level:%s:%s:%s" % (exp, kind, "Display" if c.cls[1] == "Display" else "nonDisplay"),
                                "%s, variant %s, outer spec `{:%s}`: got %r, expected %r (%s)\n%s" % (
                                    c.meta["what"], name, spec, e["got"][:200], e["want"][:200],
                                    {"inert": "flags must leave the output unchanged", "pt": "flags must pass through to the field", "onesided": "inert or padded text"}[exp], c.items),
                                case=c.meta, items=c.items, event=e)
            elif e.get("kind") in ("panic", "crash"):
                ctx.violate("panic:enum-level", "%s: generated program %s: %s" % (c.meta["what"], e["kind"], e.get("val", "")[:200]), case=c.meta, items=c.items)
        if n < c.expect:
            raise common.Inconclusive("enum-level case %s produced %d of %d events" % (c.id, n, c.expect))
    ctx.extra["enum_level_types"] = len(cases)
    if cases:
        ctx.sample({"case": cases[0].meta["what"], "type": cases[0].items, "specs": SPECS})
