"""L1: build and drive the in-process expansion harness (DESIGN.md §2, L1).

The harness crate root is generated from $REPO/impl/src/lib.rs: every `mod x;`
becomes `#[path = "$REPO/impl/src/x.rs"] mod x;` and every `create_derive!`
becomes a dispatch arm, so the code that runs is the working tree's, unmodified.
"""
import binascii
import json
import os
import re
import subprocess
import threading

from . import common
from .common import Inconclusive

HARNESS_SRC = os.path.join(common.VERIF, "harness", "inproc", "src", "harness.rs")


def derives():
    """[(feature, module path, Trait, attrs)] read from the repo's lib.rs."""
    src = open(os.path.join(common.REPO, "impl", "src", "lib.rs")).read()
    out = []
    for m in re.finditer(r'create_derive!\(\s*"(\w+)"\s*,\s*([\w#:]+)\s*,\s*(\w+)\s*,\s*(\w+)\s*((?:,\s*\w+\s*)*),?\s*\)', src):
        if m.group(1) == "feature":
            continue
        attrs = [a.strip() for a in m.group(5).split(",") if a.strip()]
        out.append((m.group(1), m.group(2), m.group(3), attrs))
    if len(out) < 10:
        raise Inconclusive("could not read create_derive! table from lib.rs (%d entries)" % len(out))
    return out


def gen_root():
    libp = os.path.join(common.REPO, "impl", "src", "lib.rs")
    src = open(libp).read()
    lines = src.splitlines()
    mods = []
    pending = []
    i = 0
    while i < len(lines):
        ln = lines[i].strip()
        if ln.startswith("#[cfg("):
            # possibly multi-line cfg attribute
            buf = [ln]
            depth = ln.count("(") - ln.count(")")
            while depth > 0 and i + 1 < len(lines):
                i += 1
                buf.append(lines[i].strip())
                depth += lines[i].count("(") - lines[i].count(")")
            pending.append(" ".join(buf))
        else:
            m = re.match(r'^(pub(?:\(crate\))?\s+)?mod\s+(r#)?(\w+)\s*;', ln)
            if m:
                name = m.group(3)
                d = os.path.join(common.REPO, "impl", "src")
                f = os.path.join(d, name + ".rs")
                if not os.path.exists(f):
                    f = os.path.join(d, name, "mod.rs")
                mods.append((pending, (m.group(2) or "") + name, f))
                pending = []
            elif ln and not ln.startswith("//"):
                pending = []
        i += 1
    if not mods:
        raise Inconclusive("no modules found in lib.rs")
    out = ["// GENERATED from %s -- do not edit" % libp,
           "#![allow(dead_code, unused_imports, unused_macros, clippy::all)]",
           "#![recursion_limit = \"256\"]",
           "use syn::parse::Error as ParseError;"]
    for cfgs, name, f in mods:
        # all features are on in the harness; keep the cfgs anyway so a wrong guard shows up
        for c in cfgs:
            out.append(c)
        out.append('#[path = "%s"] pub(crate) mod %s;' % (f, name))
    # second, directly callable inclusion of the fmt literal parser (private in `fmt`)
    out.append('#[cfg(feature = "vc_int_fmt")] #[path = "%s"] pub(crate) mod fmt_parsing_direct;' % os.path.join(common.REPO, "impl", "src", "fmt", "parsing.rs"))
    out.append('#[path = "%s"] mod scanner_snapshot;' % os.path.join(os.path.dirname(HARNESS_SRC), "scanner_snapshot.rs"))
    out.append('#[path = "%s"] mod harness;' % HARNESS_SRC)
    out.append("pub(crate) const REPO_IMPL_SRC: &str = \"%s\";" % os.path.join(common.REPO, "impl", "src"))
    out.append("pub(crate) fn dispatch(name: &str, ast: &syn::DeriveInput) -> Option<harness::Outcome> {")
    out.append("    use harness::IntoOutcome;")
    out.append("    Some(match name {")
    for feat, mod_, tr, attrs in derives():
        out.append('        #[cfg(feature = "%s")] "%s" => %s::expand(ast, "%s").into_outcome(),' % (feat, tr, mod_, tr))
    out.append("        _ => return None,")
    out.append("    })")
    out.append("}")
    out.append("pub(crate) const DERIVES: &[&str] = &[%s];" % ", ".join('#[cfg(feature = "%s")] "%s"' % (d[0], d[2]) for d in derives()))
    out.append("fn main() { harness::main(); }")
    return "\n".join(out) + "\n"


# None = every feature of derive_more-impl (the default harness); a tuple = only those (used to observe code that is
# compiled differently under a reduced feature set, e.g. cfg-gated helper modules)
FEATURE_SET = None


def _fs_tag():
    return "" if FEATURE_SET is None else "_f" + common.digest(",".join(sorted(FEATURE_SET)))[:6]


class feature_set:
    """`with inproc.feature_set(("error", "display")): ...` builds/uses a harness restricted to those features."""

    def __init__(self, feats):
        self.feats = None if feats is None else tuple(sorted(feats))

    def __enter__(self):
        global FEATURE_SET
        self.prev = FEATURE_SET
        FEATURE_SET = self.feats

    def __exit__(self, *a):
        global FEATURE_SET
        FEATURE_SET = self.prev


def crate_dir():
    return os.path.join(common.WORK, "inproc" + common.repo_tag() + _fs_tag())


def features():
    toml = open(os.path.join(common.REPO, "impl", "Cargo.toml")).read()
    m = re.search(r'^\[features\]\s*$(.*?)(?=^\[|\Z)', toml, re.S | re.M)
    feats = []
    if m:
        for ln in m.group(1).splitlines():
            mm = re.match(r'^([\w-]+)\s*=', ln.strip())
            if mm and mm.group(1) not in ("default", "full", "testing-helpers"):
                feats.append(mm.group(1))
    return feats


_built = {}
_internals = {}
# optional parts of the harness that call derive_more-impl's INTERNAL items by name (the literal parser's AST, the
# argument scanner type): when a refactor renames those, the harness is built without them, so that every check which
# only needs `expand` keeps working; checks that need them say INCONCLUSIVE
INTERNALS = ("vc_int_fmt", "vc_int_args")


def has(feature):
    """Whether the harness built for the current repository copy contains the optional part `feature`."""
    build()
    return feature in _internals.get(crate_dir(), ())


def build():
    """Build (incrementally) and return the path of the harness binary."""
    cdir = crate_dir()
    if cdir in _built:
        return _built[cdir]
    feats = features() + list(INTERNALS)
    # the binary name is unique per repository copy: all builds share one target directory, where
    # equally named binaries of different copies would overwrite each other
    binname = "inproc" + common.repo_tag() + _fs_tag()
    toml = """[package]
name = "%s"
version = "0.0.0"
edition = "2021"

[workspace]

[features]
default = [%s]
%s

[dependencies]
proc-macro2 = "1.0"
quote = "1.0"
syn = { version = "2.0.45", features = ["full", "extra-traits", "visit", "parsing", "printing"] }
convert_case = "0.8"
unicode-xid = "0.2.2"

[profile.dev]
opt-level = 1
debug = 1
incremental = false
overflow-checks = true
debug-assertions = true
panic = "unwind"
""" % (binname, ", ".join('"%s"' % f for f in feats), "\n".join("%s = []" % f for f in feats))
    common.write_if_changed(os.path.join(cdir, "Cargo.toml"), toml)
    common.write_if_changed(os.path.join(cdir, "src", "main.rs"), gen_root())
    lock = os.path.join(common.REPO, "Cargo.lock")
    if not os.path.exists(os.path.join(cdir, "Cargo.lock")):
        import shutil
        for cand in (lock, "/repo/Cargo.lock"):
            if os.path.exists(cand):
                shutil.copy(cand, os.path.join(cdir, "Cargo.lock"))
                break
    base = [f for f in feats if f not in INTERNALS]
    if FEATURE_SET is not None:
        unknown = [f for f in FEATURE_SET if f not in base]
        if unknown:
            raise Inconclusive("unknown derive_more-impl feature(s) %s" % unknown)
        base = list(FEATURE_SET)
    first = None
    for opt in (INTERNALS, ("vc_int_args",), ("vc_int_fmt",), ()):
        extra = () if (opt == INTERNALS and FEATURE_SET is None) else ("--no-default-features", "--features", ",".join(base + list(opt)))
        rc, diags, arts, err = common.cargo_json(cdir, ("build",), extra=extra)
        if rc == 0 and binname in arts:
            _built[cdir] = arts[binname]
            _internals[cdir] = tuple(opt)
            return arts[binname]
        if first is None:
            first = (diags, err)
    diags, err = first
    msgs = "\n".join(common.diag_text(d) for d in diags if d.get("level") == "error")
    raise Inconclusive("in-process harness failed to build against %s:\n%s\n%s" % (common.REPO, msgs[-3000:], err[-1500:]))


def hexs(s):
    return binascii.hexlify(s.encode("utf8")).decode("ascii")


def run_mode(mode, lines, args=(), timeout=3600, env=None, cwd=None):
    """Run harness `mode` feeding `lines` (already formatted) on stdin.
    Returns (returncode, list of parsed JSON outputs, stderr, journal_last)."""
    exe = build()
    jpath = os.path.join(common.WORK, "journal_%d_%d" % (os.getpid(), threading.get_ident()))
    e = dict(os.environ)
    e["VERIF_JOURNAL"] = jpath
    e.setdefault("RUST_BACKTRACE", "0")
    if env:
        e.update(env)
    data = ("\n".join(lines) + "\n").encode("utf8")
    try:
        p = subprocess.run([exe, mode] + list(args), input=data, stdout=subprocess.PIPE,
                           stderr=subprocess.PIPE, env=e, timeout=timeout, cwd=cwd)
    except subprocess.TimeoutExpired:
        last = None
        try:
            last = open(jpath).read()
        except OSError:
            pass
        return -998, [], "timeout", last
    outs = []
    for ln in p.stdout.decode("utf8", "replace").splitlines():
        if ln.startswith("{"):
            try:
                outs.append(json.loads(ln))
            except ValueError:
                pass
    last = None
    try:
        last = open(jpath).read()
        os.unlink(jpath)
    except OSError:
        pass
    return p.returncode, outs, p.stderr.decode("utf8", "replace"), last


def expand_many(cases, shards=None, timeout=3600, env=None, args=()):
    """cases: list of (id, derive, item_source).  Returns {id: outcome dict}.
    Sharded over processes; a shard that dies is re-run case by case to attribute the crash."""
    from concurrent.futures import ThreadPoolExecutor
    build()
    shards = shards or min(common.NCPU, max(1, len(cases) // 200))
    parts = common.chunks(cases, shards)
    results = {}

    def work(part):
        lines = ["%s\t%s\t%s" % (cid, d, hexs(item)) for cid, d, item in part]
        rc, outs, err, last = run_mode("expand", lines, args=list(args), timeout=timeout, env=env)
        res = {o["id"]: o for o in outs}
        if rc != 0 or len(res) != len(part):
            # attribute the death: everything not answered is re-run alone
            for cid, d, item in part:
                if str(cid) in res:
                    continue
                rc1, outs1, err1, _ = run_mode("expand", ["%s\t%s\t%s" % (cid, d, hexs(item))], args=list(args), timeout=120, env=env)
                if outs1:
                    res[outs1[0]["id"]] = outs1[0]
                else:
                    res[str(cid)] = {"id": str(cid), "kind": "crash", "rc": rc1, "stderr": err1[-800:]}
        return res

    with ThreadPoolExecutor(max_workers=len(parts) or 1) as ex:
        for r in ex.map(work, parts):
            results.update(r)
    return results
