"""C17 - synonymous attribute spellings are equivalent; contradictory ones are rejected.

(A) Equivalence (in-process, real expanders): each well-formed item of the supported corpus (plus
    seeded attribute sets) is rewritten into its documented synonymous spellings - skip<->ignore,
    bound<->bounds, one attribute listing several types <-> several attributes, trailing commas,
    reordered independent attributes - and the expansions must be equal as multisets of items.
(B) Rejection: (1) the repository's own tests/compile_fail corpus (83 programs the offline suite
    cannot run) is compiled program by program, each must fail; (2) corruption classes transcribed
    from that corpus and from impl/doc are transplanted onto many shapes (struct/enum/variant/field,
    generic, raw names, next to other derives); the verdict is rustc's (one process per case), with
    the in-process expanders supplying breadth for classes that must already fail at expansion.
"""
import glob
import os
import re

from . import common, inproc, items, l2
from .l2 import Case

ATTR = r"#\[(%s)\(([^\]]*)\)\]"


def attr_spans(src):
    """(start, end) of every `#[...]` attribute in `src` (brackets matched, string literals skipped)."""
    res, i, n = [], 0, len(src)
    while i < n - 1:
        if src[i] == '"':
            i += 1
            while i < n and src[i] != '"':
                i += 2 if src[i] == "\\" else 1
            i += 1
            continue
        if src[i] == "#" and src[i + 1] == "[":
            depth, k = 0, i + 1
            while k < n:
                c = src[k]
                if c == '"':
                    k += 1
                    while k < n and src[k] != '"':
                        k += 2 if src[k] == "\\" else 1
                elif c == "[":
                    depth += 1
                elif c == "]":
                    depth -= 1
                    if depth == 0:
                        break
                k += 1
            res.append((i, k + 1))
            i = k + 1
            continue
        i += 1
    return res


def rewrites(src):
    """Yield (kind, rewritten source) for every applicable synonymous spelling."""
    out = []
    # skip <-> ignore where both are documented
    for a in ("from", "into", "as_ref", "as_mut", "debug"):
        for x, y in (("skip", "ignore"), ("ignore", "skip")):
            pat = "#[%s(%s)]" % (a, x)
            if pat in src:
                out.append(("%s:%s->%s" % (a, x, y), src.replace(pat, "#[%s(%s)]" % (a, y))))
    # bound <-> bounds
    for a in ("display", "debug"):
        if "#[%s(bound(" % a in src:
            out.append(("%s:bound->bounds" % a, src.replace("#[%s(bound(" % a, "#[%s(bounds(" % a)))
    # one list <-> several attributes (top-level comma-separated, no nested parens to keep it simple)
    for a in ("from", "into", "as_ref", "as_mut", "into_iterator", "try_into", "unwrap", "try_unwrap"):
        for m in re.finditer(ATTR % a, src):
            body = m.group(2)
            if "(" in body or "[" in body or "<" in body or '"' in body:
                continue
            parts = [p.strip() for p in body.split(",") if p.strip()]
            if len(parts) >= 2 and a in ("from", "into", "as_ref", "as_mut"):
                split = " ".join("#[%s(%s)]" % (a, p) for p in parts)
                out.append(("%s:split-list" % a, src[:m.start()] + split + src[m.end():]))
                # several attributes in any order, and partial splits (merging must be order-independent)
                rsplit = " ".join("#[%s(%s)]" % (a, p) for p in reversed(parts))
                out.append(("%s:split-list-reversed" % a, src[:m.start()] + rsplit + src[m.end():]))
                if len(parts) >= 3:
                    part = "#[%s(%s)] #[%s(%s)]" % (a, parts[-1], a, ", ".join(parts[:-1]))
                    out.append(("%s:split-partial" % a, src[:m.start()] + part + src[m.end():]))
            if len(parts) >= 2:
                out.append(("%s:list-reversed" % a, src[:m.start()] + "#[%s(%s)]" % (a, ", ".join(reversed(parts))) + src[m.end():]))
            # a trailing comma is a list notion: single keywords (`skip`, `forward`) are not lists
            if parts and not body.rstrip().endswith(",") and not (len(parts) == 1 and parts[0] in ("skip", "ignore", "forward")):
                out.append(("%s:trailing-comma" % a, src[:m.start()] + "#[%s(%s,)]" % (a, body) + src[m.end():]))
    # trailing comma in fmt attributes and bounds
    for a in ("display", "debug", "upper_hex", "binary", "octal", "lower_hex", "lower_exp", "upper_exp", "pointer"):
        for m in re.finditer(r'#\[%s\(("(?:[^"\\]|\\.)*"(?:, [^\]]*?)?)\)\]' % a, src):
            if not m.group(1).rstrip().endswith(","):
                out.append(("%s:fmt-trailing-comma" % a, src[:m.start()] + "#[%s(%s,)]" % (a, m.group(1)) + src[m.end():]))
        for m in re.finditer(r"#\[%s\(bound\(([^)]*[^,)\s])\)\)\]" % a, src):
            out.append(("%s:bound-trailing-comma" % a, src[:m.start()] + "#[%s(bound(%s,))]" % (a, m.group(1)) + src[m.end():]))
    # order of independent adjacent attributes (outer attributes of the item, or of one field)
    m = re.search(r"((?:#\[[^\]]*\]\s*){2,})", src)
    if m:
        attrs = re.findall(r"#\[[^\]]*\]", m.group(1))
        names = [re.match(r"#\[(\w+)", a).group(1) for a in attrs]
        # only permute attributes of different kinds, or a fmt literal with its bound attribute
        if len(set(names)) == len(names) or (len(attrs) == 2 and ("bound(" in attrs[0]) != ("bound(" in attrs[1])):
            out.append(("reorder-attrs", src[:m.start()] + "\n".join(reversed(attrs)) + "\n" + src[m.end():]))
    # foreign attributes (doc comments, lint attributes) between / before / after a derive's own attributes do not change
    # what the derive reads
    spans = attr_spans(src)
    runs, cur = [], []
    for sp in spans:
        if cur and src[cur[-1][1]:sp[0]].strip() == "":
            cur.append(sp)
        else:
            if len(cur) >= 2:
                runs.append(cur)
            cur = [sp]
    if len(cur) >= 2:
        runs.append(cur)
    for run in runs[:1]:
        for k, foreign in enumerate(("/// doc\n", "#[allow(dead_code)] ", "#[doc = \"x\"] #[allow(clippy::all)] ")):
            pieces = [src[a:b] for a, b in run]
            out.append(("foreign-attr-between:%d" % k, src[:run[0][0]] + (" " + foreign).join(pieces) + " " + src[run[-1][1]:]))
    own = [sp for sp in spans if re.match(r"#\[(?:from|into|as_ref|as_mut|display|debug|error|deref|deref_mut|index|index_mut|into_iterator|try_into|unwrap|try_unwrap|is_variant|mul|try_from)\b", src[sp[0]:sp[1]])]
    if own:
        a, b = own[0]
        out.append(("foreign-attr-before", src[:a] + "/// doc\n#[allow(dead_code)] " + src[a:]))
        out.append(("foreign-attr-after", src[:b] + " #[allow(dead_code)] /// doc\n" + src[b:]))
    return out


EXTRA_ITEMS = [
    (["From"], "#[from(i8, i16, i32)] pub struct @N@(i64);"),
    (["From"], "pub enum @N@ { #[from(i8, i16)] A(i64), #[from(skip)] B(u8), C(u16) }"),
    (["From"], "pub enum @N@ { #[from(ignore)] A(i64), B(u8) }"),
    (["Into"], "#[into(i64, i128)] pub struct @N@(i32);"),
    (["Into"], "#[into(owned, ref, ref_mut)] pub struct @N@(i32, u8);"),
    (["Into"], "#[into(ref, ref_mut)] pub struct @N@(i32, u8);"),
    (["Into"], "#[into(owned, ref_mut)] pub struct @N@(i32);"),
    (["Into"], "#[into(owned, ref)] pub struct @N@ { a: i32, #[into(ref, ref_mut)] b: u8 }"),
    (["Into"], "pub struct @N@ { #[into(ref_mut, owned)] a: i32, b: u8 }"),
    (["TryInto"], "#[try_into(ref, ref_mut)] pub enum @N@ { A(u8), B(u16) }"),
    (["Unwrap", "TryUnwrap"], "#[unwrap(ref_mut, owned)] #[try_unwrap(ref_mut, owned)] pub enum @N@ { A(u8), B(u16) }"),
    (["IntoIterator"], "#[into_iterator(ref_mut, ref)] pub struct @N@(Vec<u8>);"),
    (["Into"], "pub struct @N@ { #[into(skip)] a: i32, b: u8, #[into(ignore)] c: u16 }"),
    (["Into"], "#[into(owned(i64, i128), ref(i32))] pub struct @N@(i32);"),
    (["AsRef", "AsMut"], "#[as_ref(str, [u8])] #[as_mut(str)] pub struct @N@(String);"),
    (["AsRef"], "pub struct @N@ { #[as_ref(skip)] a: i32, b: u8, #[as_ref(ignore)] c: u16 }"),
    (["AsRef"], "pub struct @N@<T> { #[as_ref(T, [u8])] a: T, #[as_ref(i32)] b: i32 }"),
    (["Debug"], "pub struct @N@<T> { a: T, #[debug(skip)] b: u8, #[debug(ignore)] c: u16 }"),
    (["Debug"], "#[debug(bound(T: Copy))] #[debug(\"{}\", a.len())] pub struct @N@<T> { a: Vec<T> }"),
    (["Display"], "#[display(bound(T: Copy, U: Clone))] #[display(\"{} {}\", a.len(), b)] pub struct @N@<T, U> { a: Vec<T>, b: U }"),
    (["Display"], "pub enum @N@<T> { #[display(bound(T: Copy))] #[display(\"{}\", _0.len())] A(Vec<T>), #[display(\"b\")] B }"),
    (["TryInto"], "#[try_into(owned, ref, ref_mut)] pub enum @N@ { A(u8), B(u16), #[try_into(ignore)] C(u32) }"),
    (["Unwrap", "TryUnwrap"], "#[unwrap(ref, ref_mut)] #[try_unwrap(ref, ref_mut)] pub enum @N@ { A(u8), #[unwrap(ignore)] #[try_unwrap(ignore)] B(u16) }"),
    (["IntoIterator"], "#[into_iterator(owned, ref, ref_mut)] pub struct @N@(Vec<u8>);"),
    (["TryFrom"], "#[try_from(repr)] #[repr(u8)] pub enum @N@ { A = 1, B }"),
    (["Deref", "DerefMut"], "pub struct @N@ { #[deref] #[deref_mut] a: Vec<u8>, b: u8 }"),
    (["Index", "IndexMut"], "pub struct @N@ { #[index] #[index_mut] a: Vec<u8>, b: u8 }"),
]

# corruption classes: (class, derive, item, must_fail_at_expansion)
CORRUPTIONS = []


def corr(cls, derives, item, at_expansion=True):
    CORRUPTIONS.append((cls, derives, item, at_expansion))


def build_corruptions():
    gens = [("", "", "u8"), ("<T>", "", "T"), ("<'a, T: 'a, const N: usize>", "", "&'a [T; N]")]
    for g, w, ty in gens:
        tyv = "Vec<%s>" % ty if ty == "T" else ty
        for tr, at in (("Display", "display"), ("Binary", "binary"), ("Debug", "debug")):
            lit = '"{}"' if tr != "Binary" else '"{:b}"'
            corr("fmt:unknown-arg", [tr], "#[%s(definitely_unknown)] pub struct S%s(%s);" % (at, g, ty))
            corr("fmt:unknown-arg", [tr], "#[%s(unknown = \"x\")] pub struct S%s(%s);" % (at, g, ty))
            corr("fmt:duplicate-fmt", [tr], "#[%s(%s, _0)] #[%s(%s, _0)] pub struct S%s(%s);" % (at, lit, at, lit, g, ty))
            corr("fmt:legacy-fmt", [tr], "#[%s(fmt = %s, _0)] pub struct S%s(%s);" % (at, lit, g, ty))
            corr("fmt:legacy-bound", [tr], "#[%s(bound = \"T: Copy\")] #[%s(%s, _0)] pub struct S%s(%s);" % (at, at, lit, g, ty))
            if tr != "Debug":
                corr("fmt:duplicate-fmt-variant", [tr], "pub enum E%s { #[%s(%s, _0)] #[%s(%s, _0)] A(%s), B(%s) }" % (g, at, lit, at, lit, ty, ty))
                corr("fmt:invalid-casing", [tr], "#[%s(rename_all = \"Whatever\")] pub enum E%s { A, B(%s) }" % (at, g, ty))
                corr("fmt:variant-spec", [tr], "#[%s(\"{_variant:?}\")] pub enum E%s { A, B(%s) }" % (at, g, ty))
        corr("debug:fmt-and-skip", ["Debug"], "pub struct S%s { #[debug(\"{}\", 1)] #[debug(skip)] a: %s, b: u8 }" % (g, ty))
        corr("debug:fmt-and-skip", ["Debug"], "pub enum E%s { A { #[debug(skip)] #[debug(\"{}\", 1)] a: %s }, B }" % (g, ty))
        corr("debug:container-and-field", ["Debug"], "#[debug(\"{}\", 1)] pub struct S%s { #[debug(\"{}\", 2)] a: %s }" % (g, ty))
        corr("debug:fmt-on-enum", ["Debug"], "#[debug(\"x\")] pub enum E%s { A(%s), B }" % (g, ty))
        corr("debug:unknown-field-arg", ["Debug"], "pub struct S%s { #[debug(definitely_unknown)] a: %s }" % (g, ty))
        corr("debug:duplicate-fmt-field", ["Debug"], "pub struct S%s { #[debug(\"{}\", 1)] #[debug(\"{}\", 2)] a: %s }" % (g, ty))
        # From
        corr("from:types-and-forward", ["From"], "#[from(i32)] #[from(forward)] pub struct S%s(i32, %s);" % (g, ty))
        corr("from:types-and-forward", ["From"], "pub enum E%s { #[from(i32)] #[from(forward)] A(i32), B(%s) }" % (g, tyv))
        corr("from:skip-and-forward", ["From"], "pub enum E%s { #[from(skip)] #[from(forward)] A(i32), B(%s) }" % (g, tyv))
        corr("from:legacy-types", ["From"], "#[from(types(i32, \"&str\"))] pub struct S%s(String, %s);" % (g, ty))
        corr("from:legacy-types", ["From"], "pub enum E%s { #[from(types(i32))] A(i64), B(%s) }" % (g, tyv))
        corr("from:tuple-arity", ["From"], "#[from((i16, i16, i16))] pub struct S%s { x: i32, y: %s }" % (g, ty))
        corr("from:tuple-arity", ["From"], "#[from((i16,))] pub struct S%s { x: i32, y: %s }" % (g, ty))
        corr("from:no-parens", ["From"], "#[from(i16, i16)] pub struct S%s { x: i32, y: %s }" % (g, ty), False)
        corr("from:unknown-arg", ["From"], "#[from(forward = true)] pub struct S%s(%s);" % (g, ty))
        corr("from:on-union", ["From"], "pub union U { a: u8 }")
        # Into
        if not g:
            corr("into:on-enum", ["Into"], "pub enum E { A(i32) }")
            corr("into:legacy-types", ["Into"], "#[into(types(i64, i128))] pub struct S(i32);")
            corr("into:legacy-types", ["Into"], "#[into(owned(types(i64)), ref)] pub struct S(i32);")
            # (`#[into(skip)]` next to a separate `#[into(i64)]` on one field is documented as valid)
            corr("into:skip-and-types", ["Into"], "pub struct S { #[into(skip, i64)] a: i32, b: u8 }", False)
            corr("into:mixed-regular-wrapped", ["Into"], "#[into(i64, owned(i128))] pub struct S(i32);")
            for w in ("ref", "owned", "ref_mut", "ref(i32)", "ref_mut(i32)"):
                corr("into:mixed-regular-wrapped", ["Into"], "#[into(i64, %s)] pub struct S(i32);" % w)
                corr("into:mixed-regular-wrapped", ["Into"], "#[into(%s, i64)] pub struct S(i32);" % w)
                corr("into:mixed-regular-wrapped", ["Into"], "pub struct S { #[into(i64, %s)] a: i32, b: u8 }" % w)
            corr("into:multiple-skip", ["Into"], "pub struct S { #[into(skip)] #[into(skip)] a: i32, b: u8 }")
            corr("into:tuple-arity", ["Into"], "#[into((i64, i64, i64))] pub struct S(i32, i32);")
            corr("into:tuple-arity", ["Into"], "#[into((i64,))] pub struct S(i32, i32);")
            corr("into:struct-level-skip", ["Into"], "#[into(skip)] pub struct S(i32, i32);")
        # AsRef / AsMut
        for tr, at in (("AsRef", "as_ref"), ("AsMut", "as_mut")):
            corr("as_ref:on-enum", [tr], "pub enum E%s { A(%s) }" % (g, ty))
            corr("as_ref:skip-and-others", [tr], "pub struct S%s { #[%s] a: i32, #[%s(skip)] b: %s }" % (g, at, at, ty))
            corr("as_ref:struct-and-field", [tr], "#[%s(forward)] pub struct S%s { #[%s] a: %s }" % (at, g, at, tyv))
            corr("as_ref:struct-attr-multiple-fields", [tr], "#[%s(forward)] pub struct S%s { a: i32, b: %s }" % (at, g, tyv))
            corr("as_ref:struct-attr-empty", [tr], "#[%s] pub struct S%s { a: %s }" % (at, g, tyv))
            corr("as_ref:multiple-struct-attrs", [tr], "#[%s(forward)] #[%s(forward)] pub struct S%s(%s);" % (at, at, g, tyv))
            corr("as_ref:multiple-field-attrs", [tr], "pub struct S%s { #[%s] #[%s(forward)] a: %s, b: u8 }" % (g, at, at, tyv))
            corr("as_ref:unknown-arg", [tr], "#[%s(baz = 1)] pub struct S%s(%s);" % (at, g, tyv))
            corr("as_ref:unknown-arg", [tr], "pub struct S%s { #[%s(baz = 1)] a: %s, b: u8 }" % (g, at, tyv))
            corr("as_ref:forward-and-types", [tr], "#[%s(forward, str)] pub struct S%s(String, ::core::marker::PhantomData<%s>);" % (at, g, ty), False)
        # TryFrom
        corr("try_from:on-struct", ["TryFrom"], "#[try_from(repr)] pub struct S%s(%s);" % (g, ty))
        corr("try_from:repr-types", ["TryFrom"], "#[try_from(repr(u8))] #[repr(u8)] pub enum E { A, B }")
        corr("try_from:invalid-repr", ["TryFrom"], "#[try_from(repr)] #[repr(a + b)] pub enum E { A, B }")
        corr("try_from:unknown-arg", ["TryFrom"], "#[try_from(definitely_unknown)] pub enum E { A, B }")
        # attribute-parameter derives (utils::State): unknown parameter / wrong position
        for tr, at, item in (("Deref", "deref", "pub struct S%s { #[deref(@P@)] a: %s, b: u8 }" % (g, tyv)),
                             ("DerefMut", "deref_mut", "pub struct S%s { #[deref_mut(@P@)] a: %s, b: u8 }" % (g, tyv)),
                             ("Index", "index", "pub struct S%s { #[index(@P@)] a: %s, b: u8 }" % (g, tyv)),
                             ("IntoIterator", "into_iterator", "pub struct S%s { #[into_iterator(@P@)] a: %s, b: u8 }" % (g, tyv)),
                             ("IsVariant", "is_variant", "pub enum E%s { #[is_variant(@P@)] A(%s), B }" % (g, ty)),
                             ("Unwrap", "unwrap", "pub enum E%s { #[unwrap(@P@)] A(%s), B }" % (g, ty)),
                             ("TryUnwrap", "try_unwrap", "pub enum E%s { #[try_unwrap(@P@)] A(%s), B }" % (g, ty)),
                             ("TryInto", "try_into", "pub enum E%s { #[try_into(@P@)] A(%s), B(u8) }" % (g, tyv)),
                             ("Error", "error", "pub struct S%s { #[error(@P@)] a: %s, b: u8 }" % (g, ty)),
                             ("Mul", "mul", "#[mul(@P@)] pub struct S%s(%s);" % (g, ty))):
            corr("params:unknown", [tr], item.replace("@P@", "definitely_unknown"))
            corr("params:unknown-kv", [tr], item.replace("@P@", "forward = 1"))
            corr("params:literal", [tr], item.replace("@P@", "\"x\""))
        # duplicates / contradictions of the State-based helper attributes, bare form first and second
        for tr, at, pre, post in (("Deref", "deref", "pub struct S%s { " % g, " a: %s, b: u8 }" % tyv),
                                  ("DerefMut", "deref_mut", "pub struct S%s { " % g, " a: %s, b: u8 }" % tyv),
                                  ("Index", "index", "pub struct S%s { " % g, " a: %s, b: u8 }" % tyv),
                                  ("IntoIterator", "into_iterator", "pub struct S%s { " % g, " a: %s, b: u8 }" % tyv),
                                  ("IsVariant", "is_variant", "pub enum E%s { " % g, " A(%s), B }" % ty),
                                  ("Unwrap", "unwrap", "pub enum E%s { " % g, " A(%s), B }" % ty),
                                  ("TryUnwrap", "try_unwrap", "pub enum E%s { " % g, " A(%s), B }" % ty),
                                  ("TryInto", "try_into", "pub enum E%s { " % g, " A(%s), B(u8) }" % tyv)):
            corr("params:duplicate", [tr], "%s#[%s] #[%s(ignore)]%s" % (pre, at, at, post))
            corr("params:duplicate", [tr], "%s#[%s(ignore)] #[%s]%s" % (pre, at, at, post))
            corr("params:duplicate", [tr], "%s#[%s] #[%s]%s" % (pre, at, at, post))
            corr("params:duplicate-unknown", [tr], "%s#[%s] #[%s(definitely_unknown)]%s" % (pre, at, at, post))
        corr("params:duplicate", ["TryInto"], "#[try_into(owned)] #[try_into(ref)] pub enum E%s { A(%s), B(u8) }" % (g, tyv))
        corr("params:duplicate", ["Unwrap"], "#[unwrap] #[unwrap(ref)] pub enum E%s { A(%s), B }" % (g, ty))
        # corrupted field attributes below a container-level format
        for bad in ("definitely_unknown", "skip, skip", "skip, ignore", "skip = true", "fmt = \"{}\", 1"):
            corr("debug:bad-field-attr-under-container-fmt", ["Debug"], "#[debug(\"c\")] pub struct S%s { #[debug(%s)] a: %s, b: u8 }" % (g, bad, ty))
            corr("debug:bad-field-attr-under-container-fmt", ["Debug"], "pub enum E%s { #[debug(\"c\")] A { #[debug(%s)] a: %s }, B }" % (g, bad, ty))
            corr("debug:bad-field-attr", ["Debug"], "pub struct S%s { #[debug(%s)] a: %s, b: u8 }" % (g, bad, ty))
        corr("params:forward-on-field", ["Mul"], "pub struct S%s(#[mul(forward)] %s);" % (g, ty))
        if not g:
            # an unknown / misplaced container argument is unknown also when a parenthesised predicate list follows it
            for bad in ("bonds", "skip", "ignore", "bound_", "rename_all", "forward"):
                corr("fmt:unknown-arg-with-predicates", ["Debug"], "#[debug(%s(T: ::core::clone::Clone))] pub struct S<T>(T);" % bad)
                corr("fmt:unknown-arg-with-predicates", ["Debug"], "#[debug(%s(T: ::core::clone::Clone))] pub enum E<T> { A(T), B }" % bad)
                corr("fmt:unknown-arg-with-predicates", ["Display"], "#[display(%s(T: ::core::clone::Clone))] pub struct S<T>(T);" % bad)
            # a struct-level as_ref/as_mut attribute next to ANY attribute on its field, `skip`/`ignore` included
            for tr, at in (("AsRef", "as_ref"), ("AsMut", "as_mut")):
                for fa in ("skip", "ignore", "forward", "i32"):
                    corr("as_ref:struct-and-field", [tr], "#[%s(forward)] pub struct S(#[%s(%s)] Vec<i32>);" % (at, at, fa))
                    corr("as_ref:struct-and-field", [tr], "#[%s([i32])] pub struct S { #[%s(%s)] a: Vec<i32> }" % (at, at, fa))
            # an invalid field attribute stays invalid inside an ignored variant / next to ignored fields
            for bad in ("definitely_unknown", "source, source", "source = true", "not(ignore)", "\"x\""):
                corr("error:bad-field-attr-in-ignored-variant", ["Error"], "pub enum E { #[error(ignore)] A(#[error(%s)] i32), B }" % bad)
                corr("error:bad-field-attr-in-ignored-variant", ["Error"], "pub enum E { #[error(ignore)] A { #[error(%s)] x: i32 }, B(i32) }" % bad)
                corr("error:bad-field-attr", ["Error"], "pub enum E { A(#[error(%s)] i32), B }" % bad)
                corr("error:bad-field-attr", ["Error"], "#[error(ignore)] pub struct S { #[error(%s)] x: i32 }" % bad)
            for bad in ("definitely_unknown", "ignore, ignore", "ignore = true", "\"x\""):
                corr("try_into:bad-field-attr-in-ignored-variant", ["TryInto"], "pub enum E { #[try_into(ignore)] A(#[try_into(%s)] i32), B(u8) }" % bad)
                corr("try_into:bad-field-attr", ["TryInto"], "pub enum E { A(#[try_into(%s)] i32), B(u8) }" % bad)
            # contradictions inside one attribute
            for bad in ("source, not(source)", "not(source), source", "backtrace, not(backtrace)", "not(source, source)", "ignore, ignore", "source, backtrace, source"):
                corr("error:contradiction-in-one-attr", ["Error"], "pub struct S { #[error(%s)] a: i32, b: u8 }" % bad)
                corr("error:contradiction-in-one-attr", ["Error"], "pub enum E { A { #[error(%s)] a: i32 }, B }" % bad)
            for tr, at, pre, post in (("Deref", "deref", "pub struct S { ", " a: Box<i32>, b: u8 }"), ("IntoIterator", "into_iterator", "pub struct S { ", " a: Vec<u8>, b: u8 }"),
                                      ("Unwrap", "unwrap", "pub enum E { ", " A(i32), B }"), ("TryInto", "try_into", "pub enum E { ", " A(i32), B(u8) }")):
                for bad in {"deref": ("forward, forward", "ignore, ignore"), "into_iterator": ("ignore, ignore",), "unwrap": ("ignore, ignore", "ref, ref"), "try_into": ("ignore, ignore",)}[at]:
                    corr("params:repeated-in-one-attr", [tr], "%s#[%s(%s)]%s" % (pre, at, bad, post))
            corr("params:repeated-in-one-attr", ["TryInto"], "#[try_into(owned, ref, owned)] pub enum E { A(i32), B(u8) }")
            corr("params:repeated-in-one-attr", ["IntoIterator"], "#[into_iterator(ref, ref)] pub struct S(Vec<u8>);")
            # arguments that only fields take, on the item or on a variant
            for bad in ("source", "backtrace", "not(source)", "not(backtrace)"):
                corr("error:field-arg-on-item", ["Error"], "#[error(%s)] pub struct S { a: i32 }" % bad)
                corr("error:field-arg-on-item", ["Error"], "#[error(%s)] pub enum E { A(i32), B }" % bad)
                corr("error:field-arg-on-variant", ["Error"], "pub enum E { #[error(%s)] A(i32), B }" % bad)
            # a bare attribute followed by a second one on the same field / variant (either order)
            for a, b, pre, post in (("deref", "deref(ignore)", "pub struct S { ", " a: i32, b: u8 }"), ("deref", "deref(forward)", "pub struct S { ", " a: Box<i32>, b: u8 }"),
                                    ("index", "index(ignore)", "pub struct S { ", " a: Vec<u8>, b: u8 }"), ("into_iterator", "into_iterator(ref)", "pub struct S { ", " a: Vec<u8>, b: u8 }"),
                                    ("try_into", "try_into(ignore)", "pub enum E { ", " A(i32), B(u8) }"), ("is_variant", "is_variant(ignore)", "pub enum E { ", " A(i32), B }")):
                d = {"deref": "Deref", "index": "Index", "into_iterator": "IntoIterator", "try_into": "TryInto", "is_variant": "IsVariant"}[a]
                corr("params:bare-then-second", [d], "%s#[%s] #[%s]%s" % (pre, a, b, post))
                corr("params:bare-then-second", [d], "%s#[%s] #[%s]%s" % (pre, b, a, post))
        if not g:
            # an argument that belongs to no documented form of the derive (another derive's vocabulary) is unknown in
            # every position the derive reads attributes from
            vocab = {"deref": "forward ignore", "deref_mut": "forward ignore", "index": "ignore", "index_mut": "ignore",
                     "into_iterator": "owned ref ref_mut ignore", "is_variant": "ignore", "unwrap": "ignore owned ref ref_mut",
                     "try_unwrap": "ignore owned ref ref_mut", "try_into": "ignore owned ref ref_mut", "error": "source backtrace ignore not",
                     "mul": "forward", "mul_assign": "forward"}
            allargs = ["forward", "ignore", "skip", "owned", "ref", "ref_mut", "source", "backtrace", "not(source)", "repr", "bound(T: Clone)",
                       "rename_all = \"snake_case\"", "types(u8)", "transparent"]
            shapes = {"deref": ("Deref", "struct"), "deref_mut": ("DerefMut", "struct"), "index": ("Index", "struct"), "index_mut": ("IndexMut", "struct"),
                      "into_iterator": ("IntoIterator", "struct"), "is_variant": ("IsVariant", "enum"), "unwrap": ("Unwrap", "enum"),
                      "try_unwrap": ("TryUnwrap", "enum"), "try_into": ("TryInto", "enum"), "error": ("Error", "both"), "mul": ("Mul", "struct1"),
                      "mul_assign": ("MulAssign", "struct1")}
            for at, (tr, shp) in shapes.items():
                known = set(vocab[at].split())
                for arg in allargs:
                    if arg.split("(")[0].split(" ")[0] in known:
                        continue
                    a = "#[%s(%s)]" % (at, arg)
                    if shp in ("struct", "both"):
                        corr("params:foreign-arg", [tr], "%s pub struct S { a: Vec<u8>, b: u8 }" % a)
                        corr("params:foreign-arg", [tr], "pub struct S { %s a: Vec<u8>, b: u8 }" % a)
                    if shp == "struct1":
                        corr("params:foreign-arg", [tr], "%s pub struct S(i32);" % a)
                        corr("params:foreign-arg", [tr], "pub struct S(%s i32);" % a)
                    if shp in ("enum", "both"):
                        corr("params:foreign-arg", [tr], "%s pub enum E { A(i32), B(u8) }" % a)
                        corr("params:foreign-arg", [tr], "pub enum E { %s A(i32), B(u8) }" % a)
                        if at in ("try_into", "error"):
                            corr("params:foreign-arg", [tr], "pub enum E { A(%s i32), B(u8) }" % a)
        corr("error:two-sources", ["Error"], "pub struct S%s { #[error(source)] a: %s, #[error(source)] b: i32 }" % (g, ty))
        corr("error:two-backtraces", ["Error"], "pub struct S%s { #[error(backtrace)] a: %s, #[error(backtrace)] b: i32 }" % (g, ty))


build_corruptions()


def run(ctx):
    rng = ctx.rng
    inproc.build()
    # ---------------- (A) equivalence
    corpus = items.all_items()
    base = [(it.derives, it.src) for it in corpus] + EXTRA_ITEMS
    pairs = []
    for derives, src in base:
        for kind, new in rewrites(src):
            if new == src:
                continue
            for d in derives:
                pairs.append((d, src, new, kind))
    if ctx.quick() and len(pairs) > 6000:
        pairs = rng.sample(pairs, 6000)
    cases = []
    for i, (d, a, b, kind) in enumerate(pairs):
        cases.append(("%da" % i, d, a.replace("@N@", "S")))
        cases.append(("%db" % i, d, b.replace("@N@", "S")))
    res = inproc.expand_many(cases, args=["--items"])
    n_equal = 0
    for i, (d, a, b, kind) in enumerate(pairs):
        ra, rb = res.get("%da" % i), res.get("%db" % i)
        if ra is None or rb is None:
            raise common.Inconclusive("expansion result missing for equivalence pair %d" % i)
        ctx.count()
        ctx.cls(("equiv", d, kind))
        if ra["kind"] in ("badinput",) or rb["kind"] in ("badinput",):
            ctx.bump("equiv_pairs_unparsable")
            continue
        if ra["kind"] != "ok":
            ctx.bump("equiv_base_not_ok")
            continue
        if rb["kind"] != "ok":
            ctx.violate("equiv-rejected:%s:%s" % (d, kind), "derive(%s): spelling `%s` is accepted but its synonym (%s) is not: %s\n  base:    %s\n  synonym: %s" % (
                d, kind, kind, rb.get("msg"), a, b), derive=d, kind=kind, base=a, synonym=b, outcome=rb)
            continue
        if ra["items"] != rb["items"]:
            da = [x for x in ra["items"] if x not in rb["items"]]
            db = [x for x in rb["items"] if x not in ra["items"]]
            ctx.violate("equiv-differs:%s:%s" % (d, kind), "derive(%s): synonymous spellings (%s) expand differently\n  base:    %s\n  synonym: %s\n  only in base: %s\n  only in synonym: %s" % (
                d, kind, a, b, [x[:200] for x in da[:2]], [x[:200] for x in db[:2]]), derive=d, kind=kind, base=a, synonym=b, only_base=da, only_synonym=db)
            continue
        n_equal += 1
    ctx.extra["equivalence_pairs"] = len(pairs)
    ctx.extra["equivalence_pairs_equal"] = n_equal
    if pairs:
        d, a, b, kind = pairs[0]
        ctx.sample({"equivalence": kind, "derive": d, "base": a, "synonym": b})

    # ---------------- (B1) the repository's compile_fail corpus
    files = sorted(glob.glob(os.path.join(common.REPO, "tests", "compile_fail", "*", "*.rs")))
    neg = []
    raw = {}
    for f in files:
        cid = re.sub(r"\W", "_", os.path.relpath(f, os.path.join(common.REPO, "tests", "compile_fail")))[:-3]
        neg.append(Case(cid, ("corpus", os.path.basename(os.path.dirname(f))), "", meta={"what": os.path.relpath(f, common.REPO)}))
        raw[cid] = open(f).read()
    if len(neg) < 40:
        raise common.Inconclusive("compile_fail corpus not found (%d files)" % len(neg))
    # ---------------- (B2) transplanted corruption classes
    corrs = list(CORRUPTIONS)
    # next to other derives on the same item (a corruption must not be masked by them)
    decorated = []
    for cls, derives, item, at_exp in corrs:
        decorated.append((cls, derives, item, at_exp, "alone"))
        if "struct" in item and rng.random() < 0.5:
            decorated.append((cls, derives + ["Constructor"], item, at_exp, "with-Constructor"))
    l1cases = [("k%d" % i, derives[0], item) for i, (cls, derives, item, at_exp, deco) in enumerate(decorated)]
    l1 = inproc.expand_many(l1cases)
    for i, (cls, derives, item, at_exp, deco) in enumerate(decorated):
        r = l1["k%d" % i]
        ctx.count()
        ctx.cls(("corrupt", cls, derives[0]))
        if r["kind"] == "badinput":
            ctx.bump("corruptions_unparsable")
            continue
        if r["kind"] == "panic" and r.get("class") != "deliberate":
            ctx.bump("corruptions_internal_panic(see C18)")
        if at_exp and r["kind"] == "ok":
            ctx.violate("accepted:%s:%s" % (cls, derives[0]), "derive(%s) silently accepts a %s attribute: %s" % (derives[0], cls, item),
                        derive=derives[0], cls=cls, item=item, expansion=r.get("tokens", "")[:1500])
    # rustc verdict: all corruptions in thorough, a seeded sample in quick
    idx = list(range(len(decorated)))
    if ctx.quick():
        idx = rng.sample(idx, min(len(idx), 350))
    prelude = "#![allow(warnings)]\nuse std::vec::Vec; use std::string::String;\n"
    for i in idx:
        cls, derives, item, at_exp, deco = decorated[i]
        ds = ", ".join("derive_more::" + d for d in derives)
        extra = "#[derive(Debug)] " if "Error" in derives and "Debug" not in derives else ""
        disp = "impl%s ::core::fmt::Display for %s { fn fmt(&self, f: &mut ::core::fmt::Formatter<'_>) -> ::core::fmt::Result { Ok(()) } }" % ("", "S") if False else ""
        neg.append(Case("c%d" % i, ("corrupt", cls, derives[0]), "%s#[derive(%s)]\n%s" % (extra, ds, item), meta={"what": "%s on derive(%s)" % (cls, ",".join(derives)), "cls": cls, "item": item}))
    errs = l2.build_negative(ctx, "reject", neg, prelude="", header=prelude, raw_files=raw)
    n_rej = 0
    for c in neg:
        if c.id in raw:
            ctx.count()
            ctx.cls(("corpus", c.meta["what"]))
        if c.id in errs:
            n_rej += 1
            continue
        if c.id in raw:
            ctx.violate("corpus-compiles:%s" % c.meta["what"], "%s (a program the repository lists as must-not-compile) compiles" % c.meta["what"], file=c.meta["what"], source=raw[c.id])
        else:
            ctx.violate("accepted:%s:%s" % (c.meta["cls"], c.cls[2]), "rustc accepts a %s: %s" % (c.meta["what"], c.meta["item"]), cls=c.meta["cls"], item=c.items)
    ctx.extra["compile_fail_corpus_files"] = len(raw)
    ctx.extra["corruptions_in_process"] = len(decorated)
    ctx.extra["corruptions_through_rustc"] = len(idx)
    ctx.extra["rejected_by_rustc"] = n_rej
    ctx.sample({"corruption": decorated[0][0], "item": decorated[0][2], "in_process_outcome": l1["k0"]["kind"], "message": l1["k0"].get("msg")})
    ctx.sample({"compile_fail_corpus_example": neg[0].meta["what"]})
    ctx.rule = ("(A) every applicable synonymous rewrite (skip/ignore, bound/bounds, split type lists, trailing commas, attribute order) of the supported-items corpus and 20 extra attribute sets, "
                "per derive; (B1) all programs of tests/compile_fail; (B2) %d corruption instances of %d classes (unknown argument, duplicate, legacy syntax, conflicting pair, wrong item kind) over "
                "non-generic/generic/lifetime+const shapes, alone and next to another derive; distinct = distinct (derive, rewrite kind) / (class, derive) / corpus file" % (
                    len(CORRUPTIONS), len(set(c[0] for c in CORRUPTIONS))))
    ctx.assumptions += ["corruption classes are those the repository's compile_fail corpus or impl/doc list as errors; a class is judged in-process only if it must already fail at expansion",
                       "equality of expansions is equality of the sorted multiset of top-level items' token text"]
