"""C19 - expansion is a deterministic pure function of the derive input.

Determinism comparator: the same corpus of (derive, item) inputs is expanded in K fresh child
processes of the in-process harness (real impl sources), each with its own shuffled order (history),
environment and working directory; per input the digests of the produced token text must agree
byte for byte.  Each child also reports a fingerprint of its std RandomState so the evidence shows
the hash seeds really differed.  The real proc-macro path is observed by expanding one generated
crate several times in fresh rustc processes (-Zunpretty=expanded) and comparing output bytes.
"""
import os
import random
import tempfile
from concurrent.futures import ThreadPoolExecutor

from . import common, inproc, items, l2
from .common import Inconclusive

TYS = ["u8", "u16", "u32", "u64", "i8", "i16", "i32", "i64", "f32", "f64", "bool", "char", "String", "Vec<u8>", "(u8, u8)", "[u8; 4]",
       "Option<u8>", "Box<str>", "&'static str", "usize", "isize", "u128", "i128", "Vec<T>", "T", "Option<T>", "[T; 2]"]


def hashed_inputs(rng, n):
    """Inputs whose expansion iterates hashed collections."""
    out = []
    for k in range(n):
        kind = k % 8
        tys = rng.sample([t for t in TYS if "T" not in t], rng.randrange(8, 14))
        if kind == 0:
            vs = ", ".join("V%d(%s)" % (i, t) for i, t in enumerate(tys))
            vs += ", W0(%s, %s), W1(%s, %s), W2(%s, %s)" % (tys[0], tys[1], tys[1], tys[0], tys[0], tys[1])
            out.append(("TryInto", "#[try_into(owned, ref, ref_mut)] enum E { %s }" % vs))
        elif kind == 1:
            names = rng.sample(["Alpha", "alpha", "ALPHA", "Beta", "beta", "Gamma", "Delta", "delta", "Eps", "Zeta", "zeta", "ZETA", "Eta", "Theta", "Iota", "iota", "Kappa"], rng.randrange(8, 15))
            out.append(("FromStr", "enum E { %s }" % ", ".join(names)))
        elif kind == 2:
            d = rng.choice(["Mul", "Div", "Rem", "Shr", "Shl", "MulAssign", "DivAssign", "ShlAssign"])
            out.append((d, "struct S(%s);" % ", ".join(t for t in tys if not t.startswith("&"))))
        elif kind == 3:
            ps = ["T%d" % i for i in range(rng.randrange(8, 12))]
            fields = ", ".join("#[error(source)] s: %s" % p if i == 0 else "f%d: %s" % (i, p) for i, p in enumerate(ps))
            vs = ", ".join("V%d { source: %s }" % (i, p) for i, p in enumerate(ps))
            out.append(("Error", "enum E<%s> { %s }" % (", ".join(ps), vs)))
        elif kind == 4:
            out.append(("Into", "#[into(owned(%s), ref(%s), ref_mut(%s))] struct S(u8);" % (", ".join(tys[:6]), ", ".join(tys[2:9]), ", ".join(tys[4:10]))))
        elif kind == 6:
            # many things of one kind in a single fmt attribute: pointer placeholders naming fields (each gets a derive-added
            # argument), named arguments, repeated and distinct inferred bounds
            m = rng.randrange(3, 9)
            fs = ["f%d" % i for i in range(m)]
            rng.shuffle(fs)
            lit = " ".join("{%s:p}" % f for f in fs)
            decl = "struct S<'a> { %s }" % ", ".join("%s: &'a u%d" % (f, rng.choice((8, 16, 32))) for f in sorted(fs))
            out.append(("Display", '#[display("%s")] %s' % (lit, decl)))
            out.append(("Pointer", '#[pointer("%s")] %s' % (lit, decl)))
            out.append(("Debug", '#[debug("%s")] %s' % (lit, decl)))
            out.append(("Display", '#[display("%s", %s)] %s' % (" ".join("{n%d}" % i for i in range(m)), ", ".join("n%d = %s" % (i, f) for i, f in enumerate(fs)), decl)))
        elif kind == 7:
            m = rng.randrange(3, 8)
            ps = ["T%d" % i for i in range(m)]
            vs = []
            for i in range(m + 3):
                vs.append("V%d(%s)" % (i, rng.choice(ps)))
            vs.append('#[display("{_0} {_1}")] W(%s, %s)' % (rng.choice(ps), rng.choice(ps)))
            out.append(("Display", "enum E<%s> { %s }" % (", ".join(ps), ", ".join(vs))))
            out.append(("Debug", "struct R<%s> { %s }" % (", ".join(ps), ", ".join("f%d: %s" % (i, rng.choice(ps)) for i in range(m + 3)))))
            out.append(("Debug", "enum E<%s> { %s }" % (", ".join(ps), ", ".join(v for v in vs[:-1]))))
            out.append(("Display", '#[display("%s")] #[display(bound(%s))] struct B<%s> { %s }' % (
                " ".join("{f%d}" % i for i in range(m)), ", ".join("%s: Clone" % p for p in ps), ", ".join(ps), ", ".join("f%d: %s" % (i, p) for i, p in enumerate(ps)))))
        else:
            out.append(("From", "#[from(%s)] struct S(u8);" % ", ".join(tys)))
            out.append(("AsRef", "#[as_ref(%s)] struct S(u8);" % ", ".join(tys)))
    # near-duplicates and size swings: provoke state leaking from one expansion into the next
    # (caches keyed by lossy keys, scratch collections that keep their capacity, counters)
    words = ["High", "Water", "Low", "Mark", "Foo", "Bar", "Baz", "Http", "Server", "Id", "Max", "Value", "Type", "Name", "Red", "Green"]
    casings = ["lowercase", "UPPERCASE", "PascalCase", "camelCase", "snake_case", "SCREAMING_SNAKE_CASE", "kebab-case", "SCREAMING-KEBAB-CASE"]
    for k in range(max(6, n // 8)):
        casing = rng.choice(casings)
        pairs = [(rng.choice(words), rng.choice(words)) for _ in range(rng.randrange(2, 6))]
        a = ", ".join(dict.fromkeys(x + y for x, y in pairs))
        b = ", ".join(dict.fromkeys(x + y.lower() for x, y in pairs))
        c = ", ".join(dict.fromkeys((x + y).upper() for x, y in pairs))
        for tr, at in (("Display", "display"),):
            out.append((tr, '#[%s(rename_all = "%s")] enum E { %s }' % (at, casing, a)))
            out.append((tr, '#[%s(rename_all = "%s")] enum E { %s }' % (at, casing, b)))
            out.append((tr, '#[%s(rename_all = "%s")] enum E { %s }' % (at, casing, c)))
            out.append((tr, '#[%s(rename_all = "%s")] struct %s;' % (at, casing, (pairs[0][0] + pairs[0][1]))))
            out.append((tr, '#[%s(rename_all = "%s")] struct %s;' % (at, casing, (pairs[0][0] + pairs[0][1].lower()))))
        # the same attribute tokens and item body under two DIFFERENT derives of one family (a memo keyed by the attribute
        # alone would hand the first one's answer to the second); each pair has a spelling of its own so that pairs do not
        # share a key with each other
        fmt = [("Display", "display"), ("Binary", "binary"), ("Octal", "octal"), ("LowerHex", "lower_hex"), ("UpperHex", "upper_hex"),
               ("LowerExp", "lower_exp"), ("UpperExp", "upper_exp"), ("Pointer", "pointer")]
        spell = ['"{_variant}"', 'r"{_variant}"', 'r#"{_variant}"#', '"{_variant}",', '"{_0}"', 'r"{_0}"', '"{}", _0', '"{0}", _0', '"<{_variant}>"', '"{_variant} {_0}"']
        (t1, a1), (t2, a2) = rng.sample(fmt, 2)
        if k % 2 == 0:
            (t1, a1) = fmt[0]
            (t2, a2) = rng.choice(fmt[1:])
        sp = spell[k % len(spell)]
        for tr, at in ((t1, a1), (t2, a2)):
            if "_variant" in sp:
                out.append((tr, '#[%s(%s)] enum E { A(u8), #[%s("{_0:x}")] B(u8), C(i32) }' % (at, sp, at)))
            else:
                out.append((tr, '#[%s(%s)] enum E { A(u8), #[%s("{_0:x}")] B(u8), C(i32) }' % (at, sp, at)))
                out.append((tr, '#[%s(%s)] struct S<T>(T);' % (at, sp)))
        for (d1, d2), src in ((("Deref", "DerefMut"), "struct S(#[deref] #[deref_mut] Vec<u8>, u8);"), (("Index", "IndexMut"), "struct S(#[index] #[index_mut] Vec<u8>, u8);"),
                              (("AsRef", "AsMut"), "struct S(#[as_ref(forward)] #[as_mut(forward)] Vec<u8>, u8);"), (("Unwrap", "TryUnwrap"), "enum E { A(u8), B(u8, u16), C }"),
                              (("Add", "Sub"), "struct S(u8, u16);"), (("From", "Into"), "struct S(u8, u16);"), (("Not", "Neg"), "enum E { A(i8), B { x: i16 } }")):
            out.append((d1, src))
            out.append((d2, src))
        # the same spelling meaning a type parameter in one item and a concrete type in the next
        nm = rng.choice(["T", "U", "Item", "Elem"])
        for tr, at in (("AsRef", "as_ref"), ("AsMut", "as_mut")):
            out.append((tr, "struct Bag<%s>(#[%s(Vec<%s>, [%s])] Vec<%s>);" % (nm, at, nm, nm, nm)))
            out.append((tr, "struct Inv<'a> { #[%s(Vec<%s>, [%s])] v: Vec<%s>, p: &'a u8 }" % (at, nm, nm, nm)))
            out.append((tr, "struct Other<Q> { #[%s(Vec<%s>, [%s])] v: Vec<%s>, q: Q }" % (at, nm, nm, nm)))
        for tr in ("Debug", "Display"):
            lit = '#[%s("{x:?}")] ' % tr.lower()
            out.append((tr, "%sstruct A<%s> { x: Vec<%s> }" % (lit, nm, nm)))
            out.append((tr, "%sstruct B<Q> { x: Vec<%s>, y: Q }" % (lit, nm)))
            out.append((tr, "%sstruct C<'a> { x: Vec<%s>, y: &'a u8 }" % (lit, nm)))
        out.append(("Error", "enum E<%s> { A { source: %s }, B }" % (nm, nm)))
        out.append(("Error", "enum E<Q> { A { source: %s }, B(Q) }" % nm))
        out.append(("From", "#[from(forward)] struct F<%s>(%s, u8);" % (nm, nm)))
        out.append(("From", "#[from(forward)] struct F<Q>(%s, Q);" % nm))
        size = rng.choice([2, 3, 5, 7, 13, 29, 36, 60, 120])
        out.append(("FromStr", "enum E { %s }" % ", ".join("V%dx%s" % (i, rng.choice(words)) for i in range(size))))
        out.append(("TryInto", "enum E { %s }" % ", ".join("V%d(%s)" % (i, rng.choice(TYS[:14])) for i in range(size))))
        out.append(("IsVariant", "enum E { %s }" % ", ".join("%s%s%d" % (rng.choice(words), rng.choice(words), i) for i in range(min(size, 20)))))
        out.append(("Unwrap", "enum E { %s }" % ", ".join("%s%s%d(u8)" % (rng.choice(words), rng.choice(words).lower(), i) for i in range(min(size, 20)))))
    return out


def reduced_pass(ctx, rng, its):
    table = inproc.derives()
    feat_of = {tr: f for f, _, tr, _ in table}
    feats = sorted(set(feat_of.values()))
    always = [("error",), ("display",), ("debug",), ("from",), ("as_ref",)]
    pool = [(f,) for f in feats if (f,) not in always] + [tuple(sorted(rng.sample(feats, 2))) for _ in range(6)] + [("error", "display"), ("debug", "display")]
    configs = always + (rng.sample(pool, 3) if ctx.quick() else pool)
    K = 3
    n_cmp = 0
    for cfg in configs:
        mine = []
        for it in its:
            for d in it.derives:
                if feat_of.get(d) in cfg:
                    mine.append((d, it.src.replace("@N@", "R%d" % len(mine))))
        for d, src in hashed_inputs(rng, ctx.pick(150, 1500)):
            if feat_of.get(d) in cfg:
                mine.append((d, src))
        if not mine:
            continue
        with inproc.feature_set(cfg):
            inproc.build()

            def child(k):
                order = list(range(len(mine)))
                random.Random(ctx.seed * 733 + k).shuffle(order)
                lines = ["%d\t%s\t%s" % (i, mine[i][0], inproc.hexs(mine[i][1])) for i in order]
                return inproc.run_mode("expand", lines, args=["--digest", "--info"])
            res = [child(k) for k in range(K)]
        digs, fps = [], []
        for rc, outs, err, last in res:
            if rc != 0:
                raise Inconclusive("reduced-feature child (%s) exited %s at %s: %s" % ("+".join(cfg), rc, last, err[-300:]))
            digs.append({o["id"]: (o["kind"], o.get("digest") or o.get("msg")) for o in outs if o.get("id") != "#info"})
            fps += [o["random_state_fingerprint"] for o in outs if o.get("kind") == "info"]
        if len(set(fps)) < 2:
            raise Inconclusive("reduced-feature children did not get different RandomState seeds")
        ctx.bump("reduced_feature_configs")
        ctx.cls(("reduced", cfg))
        for i, (d, src) in enumerate(mine):
            d0 = digs[0].get(str(i))
            if d0 is None:
                raise Inconclusive("input missing from a reduced-feature child")
            if d0[0] == "unknown_derive":
                raise Inconclusive("derive %s is not available under features %s" % (d, cfg))
            n_cmp += 1
            for k in range(1, K):
                if digs[k].get(str(i)) != d0:
                    ctx.violate("nondeterministic:%s:features=%s" % (d, "+".join(cfg)),
                                "with only the feature(s) %s enabled, derive(%s) on `%s` expanded differently in process %d (%s) than in process 0 (%s)" % (
                                    "+".join(cfg), d, src[:300], k, digs[k].get(str(i)), d0), derive=d, item=src, features=list(cfg))
                    break
    ctx.extra["reduced_feature_comparisons"] = n_cmp


def run(ctx):
    rng = ctx.rng
    inproc.build()
    corpus = []
    its = items.all_items()
    rng.shuffle(its)
    # quick tier: at least two items of every (family, generics class, attribute option) first - state that leaks between
    # expansions shows only when two items of the same kind meet in one process -, then a random fill
    budget = ctx.pick(700, len(its))
    seen, first, rest = {}, [], []
    for it in its:
        k = (it.dims[0], it.dims[2], it.dims[4])
        if seen.get(k, 0) < 2:
            seen[k] = seen.get(k, 0) + 1
            first.append(it)
        else:
            rest.append(it)
    chosen_items = first + rest[: max(0, budget - len(first))]
    rng.shuffle(chosen_items)
    for it in chosen_items:
        for d in it.derives:
            corpus.append((d, it.src.replace("@N@", "S%d" % len(corpus)), False))
    for d, src in hashed_inputs(rng, ctx.pick(600, 12000)):
        corpus.append((d, src, True))
    K = ctx.pick(4, 16)
    ids = list(range(len(corpus)))
    envs = []
    for k in range(K):
        envs.append({"LANG": rng.choice(["C", "en_US.UTF-8", "tr_TR.UTF-8", "ja_JP.eucJP"]), "LC_ALL": rng.choice(["C", "POSIX", "de_DE.UTF-8"]),
                     "TZ": rng.choice(["UTC", "Asia/Kolkata", "America/St_Johns", "Pacific/Chatham"]), "HOME": "/nonexistent%d" % k,
                     "SOURCE_DATE_EPOCH": str(rng.randrange(0, 2 ** 31)), "RUST_LOG": rng.choice(["", "trace"]), "CARGO_PKG_NAME": "pkg%d" % k,
                     "DERIVE_MORE_VERIF_%d" % k: str(k), "RUST_BACKTRACE": rng.choice(["0", "1"]), "COLUMNS": str(rng.randrange(20, 300))})
    tmpdirs = [tempfile.mkdtemp(prefix="c19_%d_" % k, dir=ctx.workdir) for k in range(K)]

    def child(k):
        # child 0 expands in the shuffled base order, child 1 in exactly the reverse one (for EVERY pair of inputs the two
        # children disagree about which came first, so a leak from an earlier expansion into a later one - a cache keyed
        # by a lossy key, a counter - shows for at least one of the two), the others in orders of their own
        order = list(ids)
        random.Random(ctx.seed * 131).shuffle(order)
        if k == 1:
            order.reverse()
        elif k > 1:
            random.Random(ctx.seed * 131 + k).shuffle(order)
        lines = ["%d\t%s\t%s" % (i, corpus[i][0], inproc.hexs(corpus[i][1])) for i in order]
        rc, outs, err, last = inproc.run_mode("expand", lines, args=["--digest", "--info"], env=envs[k], cwd=tmpdirs[k])
        if rc != 0:
            return {"error": "child %d exited %s (last case %s): %s" % (k, rc, last, err[-300:])}
        info = [o for o in outs if o.get("kind") == "info"]
        return {"digests": {o["id"]: (o["kind"], o.get("digest") or o.get("msg")) for o in outs if o.get("id") != "#info"},
                "fp": info[0]["random_state_fingerprint"] if info else None, "order_head": order[:5]}

    with ThreadPoolExecutor(max_workers=K) as ex:
        results = list(ex.map(child, range(K)))
    for d in tmpdirs:
        try:
            os.rmdir(d)
        except OSError:
            pass
    for r in results:
        if "error" in r:
            raise Inconclusive(r["error"])
    fps = [r["fp"] for r in results]
    ctx.extra["child_processes"] = K
    ctx.extra["distinct_random_state_fingerprints"] = len(set(fps))
    if len(set(fps)) < 2:
        raise Inconclusive("child processes did not get different RandomState seeds; hash-order nondeterminism could not show")
    base = results[0]["digests"]
    kinds = {"ok": 0, "err": 0, "panic": 0, "other": 0}
    for i in ids:
        sid = str(i)
        d0 = base.get(sid)
        if d0 is None:
            raise Inconclusive("input %d missing from child 0" % i)
        kinds[d0[0] if d0[0] in kinds else "other"] += 1
        ctx.count()
        derive, src, hashed = corpus[i]
        if hashed or any(ch in src for ch in "<#"):
            ctx.cls((derive, common.digest(src)))
        for k in range(1, K):
            dk = results[k]["digests"].get(sid)
            if dk != d0:
                ctx.violate("nondeterministic:%s" % derive, "derive(%s) on `%s` expanded differently in process %d (%s) than in process 0 (%s)" % (derive, src[:300], k, dk, d0),
                            derive=derive, item=src, process0=d0, process_k=dk, env0=envs[0], envk=envs[k], order0=results[0]["order_head"], orderk=results[k]["order_head"])
                break
    ctx.extra.update({"outcome_" + k: v for k, v in kinds.items()})
    ctx.extra["comparisons"] = len(ids) * (K - 1)
    ctx.sample({"derive": corpus[-1][0], "item": corpus[-1][1][:400], "digest_in_every_process": base[str(len(corpus) - 1)][1]})
    ctx.sample({"random_state_fingerprints": fps[:6], "envs": envs[:2]})

    # the same comparison with harnesses built for REDUCED feature sets: helper code that is cfg-gated per feature
    # (e.g. a deterministic hasher only compiled next to some features) is a different program there
    reduced_pass(ctx, rng, its)

    # real proc-macro path: expand one crate repeatedly in fresh rustc processes
    its2 = its[: ctx.pick(120, 700)]
    cases = [l2.Case("d%d" % i, it.dims, "    " + it.text("D%d" % i).replace("\n", "\n    "), "", expect=0) for i, it in enumerate(its2)]
    # keep only items that compile (C01 judges the others)
    res = l2.build_and_run(ctx, "expanded", cases, prelude=items.PRELUDE, run=False, nshards=1, max_rounds=8)
    live = [c for c in cases if c.id not in res.compile_errors]
    cdir = os.path.join(ctx.workdir, "expanded")
    outs = []
    runs = ctx.pick(3, 6)
    for r in range(runs):
        env = {"RUSTC_BOOTSTRAP": "1", "CARGO_TARGET_DIR": common.TARGET}
        env.update(envs[r % K])
        env["HOME"] = os.environ.get("HOME", "/root")
        p = common.run(["cargo", "rustc", "--offline", "--bin", ("w_%s_%s_expanded%s_00" % (ctx.pid, ctx.tier, common.repo_tag())).lower(), "--", "-Zunpretty=expanded"], cwd=cdir, env=env, timeout=1200)
        if p.returncode != 0:
            raise Inconclusive("cargo rustc -Zunpretty=expanded failed: " + p.stderr.decode("utf8", "replace")[-1500:])
        outs.append(p.stdout)
    ctx.extra["rustc_expanded_runs"] = runs
    ctx.extra["rustc_expanded_bytes"] = len(outs[0])
    ctx.extra["rustc_expanded_items"] = len(live)
    for r in range(1, runs):
        if outs[r] != outs[0]:
            a, b = outs[0].decode("utf8", "replace").splitlines(), outs[r].decode("utf8", "replace").splitlines()
            diff = next(((x, y) for x, y in zip(a, b) if x != y), ("<length differs>", ""))
            ctx.violate("nondeterministic:rustc-expanded", "real proc-macro expansion differs between fresh rustc processes: %r vs %r" % (diff[0][:300], diff[1][:300]),
                        first_difference=diff)
            break
    ctx.rule = ("inputs: every (derive, item) of the supported-items corpus plus seeded inputs whose expansion iterates hashed collections (TryInto with >= 8 payload groups, FromStr enums with "
                ">= 8 names incl. case collisions, Mul-like structs with >= 8 field types, Error enums with >= 8 generic sources, Into/From/AsRef type lists); each expanded in K fresh processes with "
                "shuffled order and different environment/cwd; distinct = distinct (derive, input) pairs that are generic/attributed or hash-iterating")
    ctx.assumptions += ["token text equality in proc_macro2 fallback mode reflects token equality in the compiler", "std RandomState differs between processes (checked via fingerprint)"]
