"""C20 - every feature works on its own, with and without std.

Configuration exploration with cargo/rustc as event source and the repository's own test programs
as behavioural oracle.  Per configuration C (a set of derive features, std on/off):
  (1) `cargo check -p derive_more-impl --no-default-features --features C` (the proc-macro crate),
  (2) `cargo test  -p derive_more --no-default-features --features C[,std] --tests`
      (what ci/test_all_features.sh does; `required-features` selects the test programs),
  (3) a probe crate with one `use derive_more::<Name> as _;` per derive and helper type, compiled
      against that configuration: rustc reports every unresolved import in one run, which yields
      the complete export vector, compared with the documented feature -> names table.
"""
import os
import re
import shutil
from concurrent.futures import ThreadPoolExecutor

from . import common
from .common import Inconclusive

# feature -> derives / helper types, transcribed from README.md (derive groups) and impl/doc/<feature>.md
DERIVES = {
    "add": ["Add", "Sub", "BitAnd", "BitOr", "BitXor"],
    "add_assign": ["AddAssign", "SubAssign", "BitAndAssign", "BitOrAssign", "BitXorAssign"],
    "as_ref": ["AsRef", "AsMut"],
    "constructor": ["Constructor"],
    "debug": ["Debug"],
    "deref": ["Deref"],
    "deref_mut": ["DerefMut"],
    "display": ["Display", "Binary", "Octal", "LowerHex", "UpperHex", "LowerExp", "UpperExp", "Pointer"],
    "error": ["Error"],
    "from": ["From"],
    "from_str": ["FromStr"],
    "index": ["Index"],
    "index_mut": ["IndexMut"],
    "into": ["Into"],
    "into_iterator": ["IntoIterator"],
    "is_variant": ["IsVariant"],
    "mul": ["Mul", "Div", "Rem", "Shr", "Shl"],
    "mul_assign": ["MulAssign", "DivAssign", "RemAssign", "ShrAssign", "ShlAssign"],
    "not": ["Not", "Neg"],
    "sum": ["Sum", "Product"],
    "try_from": ["TryFrom"],
    "try_into": ["TryInto"],
    "try_unwrap": ["TryUnwrap"],
    "unwrap": ["Unwrap"],
}
HELPERS = {  # helper type -> features under which the documentation uses it
    # (`#[mul(forward)]` is documented to behave like `Add`, whose enum form returns `Result<_, BinaryError>`)
    "BinaryError": ["add", "mul"], "WrongVariantError": ["add", "mul"], "UnitError": ["add", "mul", "not"], "FromStrError": ["from_str"],
    "TryFromReprError": ["try_from"], "TryIntoError": ["try_into"], "TryUnwrapError": ["try_unwrap"],
}
GENERIC_HELPERS = ("TryFromReprError", "TryIntoError", "TryUnwrapError")
FEATURES = sorted(DERIVES)


def probe_names():
    names = []
    for f in FEATURES:
        for d in DERIVES[f]:
            names.append(("derive_more::%s" % d, ("derive", f)))
            names.append(("derive_more::derive::%s" % d, ("derive", f)))
            names.append(("derive_more::with_trait::%s" % d, ("derive", f)))
    for h, fs in HELPERS.items():
        names.append(("derive_more::%s" % h, ("helper", tuple(fs))))
    return names


def expected_exports(cfg):
    exp = set()
    for path, (kind, f) in probe_names():
        if kind == "derive" and f in cfg:
            exp.add(path)
        if kind == "helper" and any(x in cfg for x in f):
            exp.add(path)
    return exp


def write_probe(pdir, cfg, std):
    feats = ", ".join('"%s"' % f for f in list(cfg) + (["std"] if std else []))
    common.write_if_changed(os.path.join(pdir, "Cargo.toml"), """[package]
name = "c20_probe"
version = "0.0.0"
edition = "2021"

[workspace]

[dependencies]
derive_more = { path = "%s", default-features = false, features = [%s] }
""" % (common.REPO, feats))
    lock = os.path.join(common.REPO, "Cargo.lock")
    if not os.path.exists(os.path.join(pdir, "Cargo.lock")) and os.path.exists(lock):
        shutil.copy(lock, os.path.join(pdir, "Cargo.lock"))
    lines = ["#![allow(unused_imports)]"]
    for path, _ in probe_names():
        lines.append("pub use %s as _;" % path)
    common.write_if_changed(os.path.join(pdir, "src", "lib.rs"), "\n".join(lines) + "\n")


_targets = []


def test_targets():
    """[(test target name, required features)] from the repository's Cargo.toml."""
    if not _targets:
        toml = open(os.path.join(common.REPO, "Cargo.toml")).read()
        for m in re.finditer(r'\[\[test\]\]\s*name = "([\w-]+)"\s*path = "[^"]*"\s*required-features = \[([^\]]*)\]', toml):
            _targets.append((m.group(1), re.findall(r'"([\w-]+)"', m.group(2))))
    return _targets


_corpus = {}


def corpus_for(cfg):
    """Items of the supported-items corpus that use only derives (and helper attributes) of the features in `cfg`."""
    key = tuple(cfg)
    if key in _corpus:
        return _corpus[key]
    from . import inproc, items as items_mod
    table = inproc.derives()
    attrs_of = {tr: set(at) for _, _, tr, at in table}
    allowed_derives = set(d for f in cfg for d in DERIVES[f])
    allowed_attrs = set(a for d in allowed_derives for a in attrs_of.get(d, ())) | {"repr", "allow", "deprecated", "inline"}
    out = []
    for it in items_mod.all_items():
        if it.std_derives:
            continue
        ds = [d for d in it.derives if d in allowed_derives]
        if not ds:
            continue
        used = set(re.findall(r"#\[(\w+)", it.src))
        if not used <= allowed_attrs:
            continue
        # Sum/Product fold with the type's own Add/Mul impl, DerefMut/IndexMut need the type's Deref/Index:
        # only meaningful next to those derives
        has_type_param = bool(re.search(r"(^|[',])\s*[TU]\b", str(it.dims[2])))
        for dep, need in (("Sum", "Add"), ("Product", "Mul"), ("DerefMut", "Deref"), ("IndexMut", "Index")):
            if dep in ds and need not in ds:
                # (for a type with type parameters `Sum`/`Product` only add a `Self: Add/Mul` where-clause,
                # so the impl itself must compile without the other feature)
                if dep in ("Sum", "Product") and has_type_param and "forward" not in it.src:
                    continue
                ds = [d for d in ds if d != dep]
        # an item whose Error impl relies on its own derived Display/Debug is only meaningful next to those derives
        if "Error" in ds and any(need in it.derives and need not in ds for need in ("Display", "Debug")):
            ds = [d for d in ds if d != "Error"]
        if not ds:
            continue
        # helper attributes in the item must belong to the derives that are finally kept
        final_attrs = set(a for d in ds for a in attrs_of.get(d, ())) | {"repr", "allow", "deprecated", "inline"}
        if not used <= final_attrs:
            continue
        out.append(items_mod.Item(ds, it.src, it.dims))
    _corpus[key] = out
    return out


def write_corpus_crate(cdir, cfg, std):
    from . import items as items_mod
    feats = ", ".join('"%s"' % f for f in list(cfg) + (["std"] if std else []))
    common.write_if_changed(os.path.join(cdir, "Cargo.toml"), """[package]
name = "c20_corpus"
version = "0.0.0"
edition = "2021"

[workspace]

[dependencies]
derive_more = { path = "%s", default-features = false, features = [%s] }
rt = { path = "%s" }
""" % (common.REPO, feats, os.path.join(common.VERIF, "harness", "rt")))
    lock = os.path.join(common.REPO, "Cargo.lock")
    if not os.path.exists(os.path.join(cdir, "Cargo.lock")) and os.path.exists(lock):
        shutil.copy(lock, os.path.join(cdir, "Cargo.lock"))
    lines = ("#![allow(warnings)]\n" + items_mod.PRELUDE).split("\n")
    ranges = []
    for i, it in enumerate(corpus_for(cfg)):
        a = len(lines) + 1
        lines.append("pub mod m%d { use super::*;" % i)
        lines.extend(it.text("T%d" % i).split("\n"))
        lines.append("}")
        ranges.append((a, len(lines), i))
    common.write_if_changed(os.path.join(cdir, "src", "lib.rs"), "\n".join(lines) + "\n")
    return ranges


def run_config(args):
    cfg, std, do_tests, slot, base = args
    tdir = os.path.join(base, "t%d" % slot)
    pdir = os.path.join(base, "probe%d" % slot)
    feats = ",".join(cfg)
    out = {"cfg": cfg, "std": std, "tests_run": do_tests}
    env = {"CARGO_TARGET_DIR": tdir, "CARGO_NET_OFFLINE": "true"}
    # (1) proc-macro crate alone
    p = common.run(["cargo", "check", "--offline", "-q", "-p", "derive_more-impl", "--no-default-features", "--features", feats, "-j", "2"],
                   cwd=common.REPO, env=env, timeout=1800)
    out["impl_rc"] = p.returncode
    out["impl_err"] = p.stderr.decode("utf8", "replace")[-1500:] if p.returncode else ""
    # (2) facade crate: build (and run) the repository's test programs for this configuration
    # targets with `required-features = ["full"]` are only selectable when `full` itself is named
    f2 = ("full" if set(FEATURES) <= set(cfg) else feats) + (",std" if std else "")
    # the `compile_fail` target (trybuild) cannot run offline: it fails on the unchanged tree in the baseline too
    targets = [t for t, req in test_targets() if t != "compile_fail" and all(r in cfg or (r == "full" and set(FEATURES) <= set(cfg)) for r in req)]
    sel = sum((["--test", t] for t in targets), []) if (do_tests and targets) else ["--tests"]
    cmd = ["cargo", "test" if (do_tests and targets) else "check", "--offline", "-p", "derive_more", "--no-default-features", "--features", f2] + sel + ["-j", "2"]
    p = common.run(cmd, cwd=common.REPO, env=env, timeout=3600)
    so, se = p.stdout.decode("utf8", "replace"), p.stderr.decode("utf8", "replace")
    out["facade_rc"] = p.returncode
    out["facade_err"] = (se[-2500:] if p.returncode else "")
    out["test_programs"] = re.findall(r"Running (tests/\S+)", se)
    res = re.findall(r"test result: (\w+)\. (\d+) passed; (\d+) failed", so)
    out["tests_passed"] = sum(int(a) for _, a, _ in res)
    out["tests_failed"] = sum(int(b) for _, _, b in res)
    out["failed_names"] = re.findall(r"^test (\S+) \.\.\. FAILED", so, re.M)[:10]
    # (3) export vector
    write_probe(pdir, cfg, std)
    rc, diags, arts, err = common.cargo_json(pdir, ("check",), jobs=2, target=tdir, timeout=1800)
    unresolved = set()
    other = []
    for d in diags:
        if d.get("level") != "error":
            continue
        m = d.get("message", "")
        code = (d.get("code") or {}).get("code")
        if code == "E0432":
            for s in d.get("spans", []):
                t = s.get("text") or []
                if t:
                    mm = re.search(r"pub use (\S+) as _;", t[0].get("text", ""))
                    if mm:
                        unresolved.add(mm.group(1))
        elif not m.startswith("aborting") and not m.startswith("could not compile"):
            other.append(m[:300])
    out["probe_rc"] = rc
    out["probe_other_errors"] = other[:5]
    if rc != 0 and not unresolved and not other:
        out["probe_infra"] = err[-1500:]
    out["exports"] = sorted(set(p for p, _ in probe_names()) - unresolved)
    # (3b) the helper types that are exported behave as under `full`: Debug + Display always, std's Error with `std`
    out["helper_trait_errors"] = []
    present = [h for h in HELPERS if "derive_more::%s" % h in out["exports"]]
    if present or "error" in cfg:
        tdir2 = os.path.join(base, "traits%d" % slot)
        feats = ", ".join('"%s"' % f for f in list(cfg) + (["std"] if std else []))
        common.write_if_changed(os.path.join(tdir2, "Cargo.toml"), """[package]
name = "c20_traits"
version = "0.0.0"
edition = "2021"

[workspace]

[dependencies]
derive_more = { path = "%s", default-features = false, features = [%s] }
""" % (common.REPO, feats))
        lock = os.path.join(common.REPO, "Cargo.lock")
        if not os.path.exists(os.path.join(tdir2, "Cargo.lock")) and os.path.exists(lock):
            shutil.copy(lock, os.path.join(tdir2, "Cargo.lock"))
        lines = ["#![no_std]", "#![allow(dead_code)]", "#[cfg(feature = \"never\")] extern crate std;",
                 "fn fmt_traits<T: ::core::fmt::Debug + ::core::fmt::Display>() {}"]
        if std:
            lines = ["#![allow(dead_code)]", "fn fmt_traits<T: ::core::fmt::Debug + ::core::fmt::Display>() {}", "fn std_error<T: ::std::error::Error>() {}"]
        lines.append("pub fn probe() {")
        for h in present:
            ty = "derive_more::%s%s" % (h, "<u8>" if h in GENERIC_HELPERS else "")
            lines.append("    fmt_traits::<%s>(); // %s" % (ty, h))
            if std:
                lines.append("    std_error::<%s>(); // %s" % (ty, h))
        lines.append("}")
        if "error" in cfg:
            # `derive(Error)` alone (hand-written Debug/Display) with every source flavour the run-time helper
            # `AsDynError` serves under `full`: concrete errors, `Box<dyn Error>` with each auto-trait combination,
            # references; with and without std (alloc only)
            errp = "::std::error::Error" if std else "::core::error::Error"
            lines += ["extern crate alloc;", "pub mod error_sources {", "    use alloc::boxed::Box;",
                      "    #[derive(Debug)] pub struct Leaf;",
                      "    impl ::core::fmt::Display for Leaf { fn fmt(&self, f: &mut ::core::fmt::Formatter<'_>) -> ::core::fmt::Result { f.write_str(\"leaf\") } }",
                      "    impl %s for Leaf {}" % errp]
            flavours = [("Concrete", "Leaf"), ("BoxDyn", "Box<dyn %s>" % errp), ("BoxDynSend", "Box<dyn %s + Send>" % errp), ("BoxDynSendSync", "Box<dyn %s + Send + Sync>" % errp),
                        ("BoxDynSendSyncUnwind", "Box<dyn %s + Send + Sync + ::core::panic::UnwindSafe>" % errp), ("BoxDynStatic", "Box<dyn %s + Send + Sync + 'static>" % errp),
                        ("BoxConcrete", "Box<Leaf>"),
                        ("RefDyn", "&'static (dyn %s + Send + Sync)" % errp), ("RefConcrete", "&'static Leaf")]
            for nm, ty in flavours:
                lines += ["    #[derive(derive_more::Error)] pub struct S%s { source: %s } // Error" % (nm, ty),
                          "    impl ::core::fmt::Debug for S%s { fn fmt(&self, f: &mut ::core::fmt::Formatter<'_>) -> ::core::fmt::Result { f.write_str(\"e\") } }" % nm,
                          "    impl ::core::fmt::Display for S%s { fn fmt(&self, f: &mut ::core::fmt::Formatter<'_>) -> ::core::fmt::Result { f.write_str(\"e\") } }" % nm,
                          "    pub fn use_%s(e: &S%s) -> bool { %s::source(e).is_some() } // Error" % (nm.lower(), nm, errp)]
            lines.append("}")
        common.write_if_changed(os.path.join(tdir2, "src", "lib.rs"), "\n".join(lines) + "\n")
        rc, diags, arts, err = common.cargo_json(tdir2, ("check",), jobs=2, target=tdir, timeout=1800)
        for d in diags:
            if d.get("level") != "error" or d.get("message", "").startswith(("aborting", "could not compile")):
                continue
            who = ""
            for sp in d.get("spans", []):
                for t in sp.get("text") or []:
                    mm = re.search(r"// (\w+)$", t.get("text", ""))
                    if mm:
                        who = mm.group(1)
            out["helper_trait_errors"].append((who, d.get("message", "")[:300]))
        if rc != 0 and not out["helper_trait_errors"]:
            out["probe_infra"] = err[-1500:]
    # (4) the supported-items corpus restricted to this configuration's derives must compile in isolation
    out["corpus_items"] = 0
    out["corpus_errors"] = []
    if len(cfg) <= 2:
        cdir = os.path.join(base, "corpus%d" % slot)
        ranges = write_corpus_crate(cdir, cfg, std)
        out["corpus_items"] = len(ranges)
        if ranges:
            rc, diags, arts, err = common.cargo_json(cdir, ("check",), jobs=2, target=tdir, timeout=1800)
            items_list = corpus_for(cfg)
            for d in diags:
                if d.get("level") != "error" or d.get("message", "").startswith(("aborting", "could not compile")):
                    continue
                who = None
                for fn, line, primary in common.diag_lines(d):
                    for a, b, i in ranges:
                        if line is not None and a <= line <= b:
                            who = i
                out["corpus_errors"].append((d.get("message", "")[:300], items_list[who].text("T") if who is not None else None))
            if rc != 0 and not out["corpus_errors"]:
                out["probe_infra"] = err[-1500:]
    return out


def run(ctx):
    rng = ctx.rng
    base = os.path.join(common.WORK, "c20" + common.repo_tag())
    shutil.rmtree(base, ignore_errors=True)
    os.makedirs(base, exist_ok=True)
    # sanity: the table must cover the repository's feature list
    toml = open(os.path.join(common.REPO, "Cargo.toml")).read()
    m = re.search(r"^full = \[(.*?)\]", toml, re.S | re.M)
    repo_feats = sorted(re.findall(r'"([\w-]+)"', m.group(1))) if m else []
    if repo_feats != FEATURES:
        ctx.notes.append("feature list in Cargo.toml differs from the documented table: %s vs %s" % (repo_feats, FEATURES))
    configs = []
    if ctx.quick():
        with_tests = set(rng.sample(FEATURES, 6))
        for f in FEATURES:
            configs.append(((f,), True, f in with_tests))
        # every feature alone also without `std` (repository tests only for the sampled ones)
        for f in FEATURES:
            configs.append(((f,), False, f in with_tests))
        for a, b in [tuple(sorted(rng.sample(FEATURES, 2))) for _ in range(6)]:
            configs.append(((a, b), rng.random() < 0.5, False))
    else:
        for f in FEATURES:
            configs.append(((f,), True, True))
            configs.append(((f,), False, True))
        allpairs = [(a, b) for i, a in enumerate(FEATURES) for b in FEATURES[i + 1:]]
        nostd = set(rng.sample(allpairs, 110))
        for a, b in allpairs:
            configs.append(((a, b), True, False))
            if (a, b) in nostd:
                configs.append(((a, b), False, False))
        configs.append((tuple(FEATURES), True, True))
        configs.append((tuple(FEATURES), False, True))
    nslots = 8
    # group by slot so that each slot's target dir is used by one config at a time
    buckets = [[] for _ in range(nslots)]
    for i, (cfg, std, t) in enumerate(configs):
        buckets[i % nslots].append((cfg, std, t, i % nslots, base))

    def worker(bucket):
        return [run_config(a) for a in bucket]

    try:
        with ThreadPoolExecutor(max_workers=nslots) as ex:
            results = [r for rs in ex.map(worker, buckets) for r in rs]
    finally:
        shutil.rmtree(base, ignore_errors=True)
    n_tests = 0
    for r in results:
        cfg, std = tuple(r["cfg"]), r["std"]
        name = "+".join(cfg) + ("+std" if std else "+no_std")
        ctx.count()
        ctx.cls((len(cfg), cfg if len(cfg) < 3 else "full", std))
        if r["impl_rc"] != 0:
            ctx.violate("impl-build:%s" % "+".join(cfg), "derive_more-impl does not build with features [%s]: %s" % (",".join(cfg), r["impl_err"][-600:]), config=name, stderr=r["impl_err"])
        if r["facade_rc"] != 0:
            if r["tests_failed"]:
                ctx.violate("test-fail:%s" % name, "repository tests fail under %s: %s" % (name, r["failed_names"]), config=name, failed=r["failed_names"], stderr=r["facade_err"])
            elif "error" in r["facade_err"]:
                ctx.violate("facade-build:%s" % name, "derive_more (with its test programs) does not build under %s: %s" % (name, r["facade_err"][-700:]), config=name, stderr=r["facade_err"])
            else:
                raise Inconclusive("cargo failed under %s without a compiler error: %s" % (name, r["facade_err"][-500:]))
        if r["tests_run"]:
            n_tests += r["tests_passed"]
            ctx.bump("repo_tests_passed", r["tests_passed"])
            if len(cfg) == 1 and r["facade_rc"] == 0:
                want = "tests/%s.rs" % cfg[0]
                progs = [os.path.basename(p) for p in r["test_programs"]]
                if not any(cfg[0] in p for p in progs):
                    ctx.bump("configs_without_own_test_program")
        if r.get("probe_infra"):
            raise Inconclusive("probe crate failed under %s: %s" % (name, r["probe_infra"][-500:]))
        for who, msg in r.get("helper_trait_errors", []):
            ctx.violate("helper-traits:%s:%s" % (who, "std" if std else "no_std"),
                        "under %s the helper type derive_more::%s lacks a trait impl it has under `full`: %s" % (name, who, msg), config=name, helper=who)
            break
        if r.get("helper_trait_errors") == []:
            ctx.bump("helper_trait_probes")
        if r["probe_other_errors"]:
            ctx.violate("probe-build:%s" % name, "a crate importing derive_more does not build under %s: %s" % (name, r["probe_other_errors"]), config=name)
        ctx.bump("corpus_items_compiled_in_isolation", r.get("corpus_items", 0))
        for msg, item in r.get("corpus_errors", [])[:3]:
            ctx.violate("isolated-corpus:%s:%s" % ("+".join(cfg), re.sub(r"T\d+", "T", msg)[:60]),
                        "under %s a supported item does not compile although it does under `full`: %s\n%s" % (name, msg, item), config=name, message=msg, item=item)
        exp = expected_exports(cfg)
        got = set(r["exports"])
        if got != exp:
            ctx.violate("exports:%s" % name, "under %s derive_more exposes %s unexpectedly and lacks %s" % (name, sorted(got - exp)[:8], sorted(exp - got)[:8]),
                        config=name, unexpected=sorted(got - exp), missing=sorted(exp - got))
        ctx.bump("export_names_checked", len(probe_names()))
    ctx.extra["configurations"] = len(results)
    ctx.extra["configurations_with_tests"] = sum(1 for r in results if r["tests_run"])
    for r in results[:2] + results[-2:]:
        ctx.sample({"features": r["cfg"], "std": r["std"], "impl_check": r["impl_rc"], "facade": r["facade_rc"], "test_programs": r["test_programs"][:6],
                    "tests_passed": r["tests_passed"], "exports": len(r["exports"])})
    ctx.rule = ("configurations: every single feature (quick: with std, 6 seeded ones also without std and with their test programs, plus 6 seeded pairs; thorough: all 24 singles with and without std, all 276 "
                "pairs with std and 110 seeded pairs without, plus `full`); per configuration the proc-macro crate is checked, the facade crate's test targets are built (and run where stated) and the "
                "export vector of %d names is observed; distinct = distinct (feature set, std) configurations" % len(probe_names()))
    ctx.assumptions += ["the feature -> derives/helper-types table in lib/vc/c20.py transcribes README.md and impl/doc/*.md",
                       "stable toolchain without -D warnings and without the testing-helpers feature (CI uses nightly)"]
    if ctx.extra.get("repo_tests_passed", 0) < 10:
        raise Inconclusive("too few repository tests ran")
