"""C14 - delegating derives (Deref, DerefMut, AsRef, AsMut, Index, IndexMut, IntoIterator) expose
exactly the selected field.

Generated programs define structs whose fields all have the *same* spy type (so that delegating to
a neighbouring field still type-checks and is only visible at run time), apply the derive with one
of the documented ways of selecting the field, and record

* without `forward`: the address/identity of the returned reference next to the address of the
  selected field of the same object, the spy operation log (must be empty: no forwarded call) and,
  for the mutable form, the state of the whole struct after a write through the returned reference
  next to the state of a clone whose selected field was written directly;
* with `forward`, an index, a listed `#[as_ref(Ty)]` type or iteration: the result (addresses and
  contents) and the spy operation log next to what the direct call of the field's own trait
  implementation on the same object returns and logs;
* `#[as_ref(Ty)]`/`#[as_mut(Ty)]` where `Ty` is the field's own type under another spelling (type
  alias, qualified path): identity and an empty operation log (the field type `Own` implements
  `AsRef<Own>` with a logging implementation, so a forwarded call is seen);
* owned / ref / ref_mut iteration: elements and order of each listed form vs. the field's own
  iteration, and the three forms against each other.

The verdict is computed offline from the event log.
"""
from . import common, l2
from .l2 import Case
from .common import Inconclusive, rs_str

PRELUDE = r'''
#[allow(unused_imports)]
use core::ops::{Deref, DerefMut, Index, IndexMut};

pub type SV = rt::SpyVec;
pub type VU = Vec<u64>;
pub type U = u64;
pub type BSV = Box<rt::SpyVec>;

/// A field type that implements `AsRef<Self>`/`AsMut<Self>` with a *logging* implementation, so
/// that "the field itself" and "a forwarded `as_ref` call" are distinguishable at run time.
#[derive(Debug, Clone, PartialEq)]
pub struct Own { pub id: u32, pub data: Vec<u64> }
pub type OwnAlias = Own;
impl Own {
    pub fn new(id: u32) -> Self { Own { id, data: (0..3).map(|k| id as u64 * 1000 + k).collect() } }
}
impl AsRef<Own> for Own { fn as_ref(&self) -> &Own { rt::op(format!("own_as_ref({})", self.id)); self } }
impl AsMut<Own> for Own { fn as_mut(&mut self) -> &mut Own { rt::op(format!("own_as_mut({})", self.id)); self } }
impl AsRef<[u64]> for Own { fn as_ref(&self) -> &[u64] { rt::op(format!("own_as_ref_slice({})", self.id)); &self.data } }
impl AsMut<[u64]> for Own { fn as_mut(&mut self) -> &mut [u64] { rt::op(format!("own_as_mut_slice({})", self.id)); &mut self.data } }
// `Borrow`/`BorrowMut` of the same target exist too and are observably different from `AsRef`/`AsMut` (other op, shorter
// slice): a derived `AsRef<[u64]>` must go through the field's `AsRef`, never through `Borrow`
impl core::borrow::Borrow<[u64]> for Own { fn borrow(&self) -> &[u64] { rt::op(format!("own_borrow_slice({})", self.id)); &self.data[..1] } }
impl core::borrow::BorrowMut<[u64]> for Own { fn borrow_mut(&mut self) -> &mut [u64] { rt::op(format!("own_borrow_mut_slice({})", self.id)); &mut self.data[..1] } }

/// The generic counterpart of `Own`: a field type with type parameters whose reflexive `AsRef`/`AsMut`
/// is a logging, non-trivial implementation.
#[derive(Debug, Clone, PartialEq)]
pub struct OwnG<T> { pub id: u32, pub data: Vec<T> }
impl OwnG<u64> {
    pub fn new(id: u32) -> Self { OwnG { id, data: (0..3).map(|k| id as u64 * 1000 + k).collect() } }
}
impl<T> AsRef<OwnG<T>> for OwnG<T> { fn as_ref(&self) -> &OwnG<T> { rt::op(format!("owng_as_ref({})", self.id)); self } }
impl<T> AsMut<OwnG<T>> for OwnG<T> { fn as_mut(&mut self) -> &mut OwnG<T> { rt::op(format!("owng_as_mut({})", self.id)); self } }
impl<T> AsRef<[T]> for OwnG<T> { fn as_ref(&self) -> &[T] { rt::op(format!("owng_as_ref_slice({})", self.id)); &self.data } }
impl<T> AsMut<[T]> for OwnG<T> { fn as_mut(&mut self) -> &mut [T] { rt::op(format!("owng_as_mut_slice({})", self.id)); &mut self.data } }

/// Identity + contents of what a reference points to (never goes through a spy trait impl).
pub trait Desc { fn desc(&self) -> String; }
impl Desc for u64 { fn desc(&self) -> String { format!("u64@{}={}", rt::addr(self), self) } }
impl Desc for rt::SpyVec { fn desc(&self) -> String { format!("SpyVec#{}@{}{}", self.id, rt::addr(self), Desc::desc(&self.data)) } }
impl Desc for Own { fn desc(&self) -> String { format!("Own#{}@{}{}", self.id, rt::addr(self), Desc::desc(&self.data)) } }
impl<T: Desc> Desc for OwnG<T> { fn desc(&self) -> String { format!("OwnG#{}@{}{}", self.id, rt::addr(self), Desc::desc(&self.data)) } }
impl<T: Desc> Desc for Vec<T> { fn desc(&self) -> String { format!("Vec@{}{}", rt::addr(self), Desc::desc(self.as_slice())) } }
impl<T: Desc> Desc for [T] {
    fn desc(&self) -> String {
        format!("[{}@{}: {}]", self.len(), self.as_ptr() as usize, self.iter().map(|x| Desc::desc(x)).collect::<Vec<_>>().join(","))
    }
}
impl<T: Desc + ?Sized> Desc for Box<T> { fn desc(&self) -> String { format!("Box@{}->{}", rt::addr(self), Desc::desc(&**self)) } }
/// A field that is itself a reference: the reference (its own address) and its referent are both part of the identity.
pub type RSV = &'static rt::SpyVec;
pub fn leak_sv(id: u32) -> RSV { Box::leak(Box::new(rt::SpyVec::new(id))) }
impl Desc for &'static rt::SpyVec { fn desc(&self) -> String { format!("Ref@{}->{}", rt::addr(self), Desc::desc(&**self)) } }
pub fn d<T: Desc + ?Sized>(x: &T) -> String { Desc::desc(x) }

/// A write through a mutable reference (never goes through a spy trait impl).
pub trait Poke { fn poke(&mut self, v: u64); }
impl Poke for u64 { fn poke(&mut self, v: u64) { *self = self.wrapping_mul(31) ^ v; } }
impl Poke for rt::SpyVec { fn poke(&mut self, v: u64) { self.data.push(v); } }
impl Poke for Own { fn poke(&mut self, v: u64) { self.data.push(v); } }
impl Poke for OwnG<u64> { fn poke(&mut self, v: u64) { self.data.push(v); } }
impl Poke for Vec<u64> { fn poke(&mut self, v: u64) { self.push(v); } }
impl Poke for [u64] { fn poke(&mut self, v: u64) { let n = self.len(); self[0] = self[0].wrapping_mul(31) ^ v; self[n - 1] ^= v << 8; } }
impl<T: Poke + ?Sized> Poke for Box<T> { fn poke(&mut self, v: u64) { Poke::poke(&mut **self, v) } }
impl Poke for &'static rt::SpyVec { fn poke(&mut self, v: u64) { *self = leak_sv((v % 1000) as u32 + 1000); } }
pub fn p<T: Poke + ?Sized>(x: &mut T, v: u64) { Poke::poke(x, v) }
'''


# ---------------------------------------------------------------------------------------------
# field type kinds

class Kind:
    def __init__(self, name, spellings, conc, mk, gen=None, others=(), self_spell=None, self_asref=False,
                 deref=None, index=None, iterable=False):
        self.name = name
        self.spellings = spellings      # ways to write the field type in the struct definition
        self.conc = conc                # the concrete type (after instantiation of `T`), also its identity
        self.mk = mk                    # id -> Rust expression
        self.gen = gen                  # None, or what `T` is instantiated with
        self.others = list(others)      # (written in attribute, concrete type) the field type implements AsRef/AsMut for
        self.self_spell = self_spell or spellings   # ways to list the field's own type in #[as_ref(..)]
        self.self_asref = self_asref    # field type: AsRef<Self> (reachable through a blanket `forward`)
        self.deref = deref              # concrete Deref::Target of the field type (for `forward`), or None
        self.index = index              # [(index type, [index expressions])] or None
        self.iterable = iterable


def _sv(i):
    return "SpyVec::new(%d)" % i


def _vec(i):
    return "vec![%s]" % ", ".join("%du64" % (i * 100 + k) for k in range(4))


IDX_USIZE = ("usize", ["0", "1", "2", "3"])
IDX_RANGE = ("core::ops::Range<usize>", ["0..2", "1..3", "1..4", "0..4"])
IDX_FROM = ("core::ops::RangeFrom<usize>", ["1..", "2.."])

KINDS = {k.name: k for k in [
    Kind("sv", ["SpyVec", "SV", "rt::SpyVec", "::rt::SpyVec"], "SpyVec", _sv,
         others=[("[u64]", "[u64]"), ("Vec<u64>", "Vec<u64>")], deref="[u64]", index=[IDX_USIZE], iterable=True),
    Kind("own", ["Own", "OwnAlias", "crate::Own"], "Own", lambda i: "Own::new(%d)" % i,
         others=[("[u64]", "[u64]")], self_asref=True),
    Kind("vec", ["Vec<u64>", "VU", "std::vec::Vec<u64>"], "Vec<u64>", _vec,
         others=[("[u64]", "[u64]")], self_asref=True, deref="[u64]", index=[IDX_USIZE, IDX_RANGE, IDX_FROM], iterable=True),
    Kind("u64", ["u64", "U", "core::primitive::u64"], "u64", lambda i: "%du64" % (i * 7 + 1)),
    Kind("box", ["Box<SpyVec>", "BSV", "Box<SV>"], "Box<SpyVec>", lambda i: "Box::new(SpyVec::new(%d))" % i,
         others=[("SpyVec", "SpyVec")], deref="SpyVec"),
    Kind("T", ["T"], "SpyVec", _sv, gen="SpyVec",
         others=[("[u64]", "[u64]"), ("Vec<u64>", "Vec<u64>")], deref="[u64]", index=[IDX_USIZE], iterable=True),
    Kind("vecT", ["Vec<T>"], "Vec<u64>", _vec, gen="u64",
         others=[("[T]", "[u64]")], self_asref=True, deref="[u64]", index=[IDX_USIZE, IDX_RANGE], iterable=True),
    Kind("ownT", ["OwnG<T>"], "OwnG<u64>", lambda i: "OwnG::<u64>::new(%d)" % i, gen="u64",
         others=[("[T]", "[u64]")], self_asref=True),
    # a reference-typed field: without `forward` the derive hands out the field (a `&&SpyVec`), it does not look through it
    Kind("refsv", ["&'static SpyVec", "RSV", "&'static rt::SpyVec"], "&rt::SpyVec", lambda i: "leak_sv(%d)" % i),
    Kind("boxT", ["Box<T>"], "Box<SpyVec>", lambda i: "Box::new(SpyVec::new(%d))" % i, gen="SpyVec",
         others=[("T", "SpyVec")], deref="SpyVec"),
]}

FNAMES = ["alpha", "b", "r#type", "w_4", "extra"]


class Struct:
    def __init__(self, named, fields, derives, sattrs=()):
        # fields: list of dicts {kind, spell, attrs: [str], id}
        self.named = named
        self.fields = fields
        self.derives = derives
        self.sattrs = list(sattrs)
        gens = set(f["kind"].gen for f in fields if f["kind"].gen)
        assert len(gens) <= 1
        self.gen = gens.pop() if gens else None

    def acc(self, i):
        return FNAMES[i] if self.named else str(i)

    def sty(self):
        return "S<%s>" % self.gen if self.gen else "S"

    def decl(self):
        g = "<T>" if self.gen else ""
        fl = []
        for i, f in enumerate(self.fields):
            a = " ".join(f["attrs"])
            a = a + " " if a else ""
            fl.append("    %s%s%s," % (a, (self.acc(i) + ": ") if self.named else "", f["spell"]))
        der = "#[derive(Debug, Clone, %s)]" % ", ".join("derive_more::" + d for d in self.derives)
        head = "\n".join([der] + self.sattrs)
        if self.named:
            return "%s\npub struct S%s {\n%s\n}" % (head, g, "\n".join(fl))
        return "%s\npub struct S%s(\n%s\n);" % (head, g, "\n".join(fl))

    def mk(self):
        vals = [f["kind"].mk(f["id"]) for f in self.fields]
        if self.named:
            return "S { %s }" % ", ".join("%s: %s" % (self.acc(i), v) for i, v in enumerate(vals))
        return "S(%s)" % ", ".join(vals)


class Body:
    def __init__(self):
        self.l = []
        self.n = 0

    def add(self, s):
        self.l.append(s)

    def cmp(self, kind, got, want):
        self.l.append("  cmp(%s, &(%s), &(%s));" % (rs_str(kind), got, want))
        self.n += 1

    def obs(self, kind, val):
        self.l.append("  obs(%s, &(%s));" % (rs_str(kind), val))
        self.n += 1

    def text(self):
        return "\n".join(self.l)


EMPTY = "String::new()"
DBG = 'format!("{:?}", %s)'


def select_attrs(names, n, k, sel, field_args=None, struct_args=None):
    """Documented ways of choosing field k: `#[attr]` on it, `#[attr(ignore)]` on all others (or both)."""
    fa = [[] for _ in range(n)]
    sa = []
    for an in names:
        if struct_args:
            sa.append("#[%s(%s)]" % (an, struct_args))
        if sel in ("attr", "both"):
            fa[k].append("#[%s(%s)]" % (an, field_args) if field_args else "#[%s]" % an)
        if sel in ("ignore", "both"):
            for j in range(n):
                if j != k:
                    fa[j].append("#[%s(ignore)]" % an)
    return sa, fa


def soft_selection(n, sel, struct_level_args):
    """Ways of selecting the field that the documentation does not spell out: the field attribute *and* `ignore` on the
    others; a struct-level attribute (`forward`, `owned, ref`) together with a bare `#[attr]` on one of several fields
    (the repo's tests only combine a struct-level attribute with `#[attr(ignore)]`).  If such an input is rejected this
    is counted, not judged; if it is accepted it must delegate to the marked field like any other."""
    if sel == "both":
        return "attr+ignore"
    if n > 1 and sel == "attr" and struct_level_args:
        return "struct-level-args+field-attr"
    return None


def pick_shape(rng, n=None, k=None):
    if n is None:
        n = rng.choice((1, 2, 2, 3, 3, 4))
    if k is None:
        k = rng.randrange(n)
    named = rng.random() < 0.5
    return n, k, named


def pick_sel(rng, n, need_field_attr=False, struct_args=False):
    if n == 1:
        return "attr" if need_field_attr else rng.choice(("bare", "bare", "attr"))
    if need_field_attr:
        return rng.choice(("attr", "attr", "attr", "both"))
    if struct_args:
        # struct-level arguments + bare `#[attr]` on one of several fields is not a documented combination (see soft_selection)
        return rng.choice(("ignore",) * 6 + ("both",) * 3 + ("attr",))
    return rng.choice(("attr", "attr", "ignore", "ignore", "both"))


def same_kind_fields(rng, kind, n, fattrs, k, mixed=False):
    """Fields of one spy type (a neighbour picked by mistake still type-checks and is seen at run time only); with
    `mixed` the non-selected fields get another type instead (a type/member mix-up is then seen by rustc)."""
    ids = rng.sample(range(1, 99), n)
    other = KINDS[rng.choice([x for x in ("u64", "own", "box", "sv", "vec") if KINDS[x].conc != kind.conc])]
    fs = []
    for i in range(n):
        kd = other if mixed and i != k else kind
        sp = rng.choice(kd.spellings) if rng.random() < 0.3 else kd.spellings[0]
        fs.append({"kind": kd, "spell": sp, "attrs": list(fattrs[i]), "id": ids[i]})
    return fs


def pick_mixed(rng, n):
    return n > 1 and rng.random() < 0.25


TYN = "core::any::type_name::<%s>().to_string()"


# ---------------------------------------------------------------------------------------------
# Deref / DerefMut

def gen_deref(rng, cid, n=None, k=None):
    n, k, named = pick_shape(rng, n, k)
    fwd = rng.choice(("none", "none", "struct", "field"))
    if fwd == "none":
        kind = KINDS[rng.choice(("sv", "sv", "T", "vecT", "vec", "box", "u64", "own", "boxT", "refsv", "refsv"))]
    else:
        kind = KINDS[rng.choice(("sv", "sv", "box", "vec", "T", "vecT", "boxT"))]
    sel = pick_sel(rng, n, need_field_attr=(fwd == "field"), struct_args=(fwd == "struct"))
    sa, fa = select_attrs(("deref", "deref_mut"), n, k, sel,
                          field_args="forward" if fwd == "field" else None,
                          struct_args="forward" if fwd == "struct" else None)
    mixed = pick_mixed(rng, n)
    st = Struct(named, same_kind_fields(rng, kind, n, fa, k, mixed), ["Deref", "DerefMut"], sa)
    S, MK, K, FT = st.sty(), st.mk(), st.acc(k), kind.conc
    v1, v2 = rng.randrange(1, 1 << 20), rng.randrange(1, 1 << 20)
    b = Body()
    if fwd == "none":
        b.add("{ let a: %s = %s; let _ = take_ops();" % (S, MK))
        b.add("  let r = <%s as Deref>::deref(&a); let og = take_ops();" % S)
        b.cmp("deref.target", TYN % ("<%s as Deref>::Target" % S), TYN % FT)
        b.cmp("deref.ref", "d(r)", "d(&a.%s)" % K)
        b.cmp("deref.ops", "og", EMPTY)
        b.add("  let r2 = &*a; let og = take_ops();")
        b.cmp("deref.sugar.ref", "d(r2)", "d(&a.%s)" % K)
        b.cmp("deref.sugar.ops", "og", EMPTY)
        b.add("}")
        b.add("{ let mut a: %s = %s; let mut b = a.clone(); let _ = take_ops();" % (S, MK))
        b.add("  let g = { let r = <%s as DerefMut>::deref_mut(&mut a); d(r) }; let og = take_ops();" % S)
        b.cmp("deref_mut.ref", "g", "d(&a.%s)" % K)
        b.cmp("deref_mut.ops", "og", EMPTY)
        b.add("  p(<%s as DerefMut>::deref_mut(&mut a), %d); let og = take_ops(); p(&mut b.%s, %d);" % (S, v1, K, v1))
        b.cmp("deref_mut.state", DBG % "a", DBG % "b")
        b.cmp("deref_mut.ops2", "og", EMPTY)
        b.add("  { let r = &mut *a; p(r, %d); } let og = take_ops(); p(&mut b.%s, %d);" % (v2, K, v2))
        b.cmp("deref_mut.sugar.state", DBG % "a", DBG % "b")
        b.cmp("deref_mut.sugar.ops", "og", EMPTY)
        b.add("}")
    else:
        TG = kind.deref
        b.add("{ let a: %s = %s; let _ = take_ops();" % (S, MK))
        b.add("  let r = <%s as Deref>::deref(&a); let og = take_ops(); let g = d(r);" % S)
        b.add("  let w0 = <%s as Deref>::deref(&a.%s); let ow = take_ops(); let w = d(w0);" % (FT, K))
        b.cmp("deref.fwd.target", TYN % ("<%s as Deref>::Target" % S), TYN % ("<%s as Deref>::Target" % FT))
        b.cmp("deref.fwd.ref", "g", "w")
        b.cmp("deref.fwd.ops", "og", "ow")
        b.add("}")
        b.add("{ let mut a: %s = %s; let mut b = a.clone(); let _ = take_ops();" % (S, MK))
        b.add("  let g = { let r = <%s as DerefMut>::deref_mut(&mut a); d(r) }; let og = take_ops();" % S)
        b.add("  let w = { let r = <%s as DerefMut>::deref_mut(&mut a.%s); d(r) }; let ow = take_ops();" % (FT, K))
        b.cmp("deref_mut.fwd.ref", "g", "w")
        b.cmp("deref_mut.fwd.ops", "og", "ow")
        b.add("  p(<%s as DerefMut>::deref_mut(&mut a), %d); let og = take_ops();" % (S, v1))
        b.add("  p(<%s as DerefMut>::deref_mut(&mut b.%s), %d); let ow = take_ops();" % (FT, K, v1))
        b.cmp("deref_mut.fwd.state", DBG % "a", DBG % "b")
        b.cmp("deref_mut.fwd.ops2", "og", "ow")
        b.add("}")
    cls = ("deref", n, k, "named" if named else "tuple", kind.name, sel, "fwd=" + fwd, "mixed" if mixed else "same")
    return Case(cid, cls, st.decl(), b.text(), expect=b.n,
                meta={"what": "Deref/DerefMut %s" % (cls[1:],), "family": "deref", "sel": sel, "decl": st.decl(),
                      "soft": soft_selection(n, sel, fwd == "struct")})


# ---------------------------------------------------------------------------------------------
# Index / IndexMut

def gen_index(rng, cid, n=None, k=None):
    n, k, named = pick_shape(rng, n, k)
    kind = KINDS[rng.choice(("sv", "sv", "vec", "vecT", "T"))]
    sel = pick_sel(rng, n)
    sa, fa = select_attrs(("index", "index_mut"), n, k, sel)
    mixed = pick_mixed(rng, n)
    st = Struct(named, same_kind_fields(rng, kind, n, fa, k, mixed), ["Index", "IndexMut"], sa)
    S, MK, K, FT = st.sty(), st.mk(), st.acc(k), kind.conc
    b = Body()
    for (IT, exprs) in kind.index:
        ix = rng.choice(exprs)
        ix2 = rng.choice(exprs)
        v1, v2 = rng.randrange(1, 1 << 20), rng.randrange(1, 1 << 20)
        tag = IT.split("::")[-1].split("<")[0].lower()
        b.add("{ let a: %s = %s; let _ = take_ops();" % (S, MK))
        b.add("  let r = <%s as Index<%s>>::index(&a, %s); let og = take_ops(); let g = d(r);" % (S, IT, ix))
        b.add("  let w0 = <%s as Index<%s>>::index(&a.%s, %s); let ow = take_ops(); let w = d(w0);" % (FT, IT, K, ix))
        b.cmp("index.%s.output" % tag, TYN % ("<%s as Index<%s>>::Output" % (S, IT)), TYN % ("<%s as Index<%s>>::Output" % (FT, IT)))
        b.cmp("index.%s.ref" % tag, "g", "w")
        b.cmp("index.%s.ops" % tag, "og", "ow")
        b.add("  let g = d(&a[%s]); let og = take_ops(); let w = d(&a.%s[%s]); let ow = take_ops();" % (ix2, K, ix2))
        b.cmp("index.%s.sugar.ref" % tag, "g", "w")
        b.cmp("index.%s.sugar.ops" % tag, "og", "ow")
        b.add("}")
        b.add("{ let mut a: %s = %s; let mut b = a.clone(); let _ = take_ops();" % (S, MK))
        b.add("  let g = d(<%s as IndexMut<%s>>::index_mut(&mut a, %s)); let og = take_ops();" % (S, IT, ix))
        b.add("  let w = d(<%s as IndexMut<%s>>::index_mut(&mut a.%s, %s)); let ow = take_ops();" % (FT, IT, K, ix))
        b.cmp("index_mut.%s.ref" % tag, "g", "w")
        b.cmp("index_mut.%s.ops" % tag, "og", "ow")
        b.add("  p(<%s as IndexMut<%s>>::index_mut(&mut a, %s), %d); let og = take_ops();" % (S, IT, ix, v1))
        b.add("  p(<%s as IndexMut<%s>>::index_mut(&mut b.%s, %s), %d); let ow = take_ops();" % (FT, IT, K, ix, v1))
        b.cmp("index_mut.%s.state" % tag, DBG % "a", DBG % "b")
        b.cmp("index_mut.%s.ops2" % tag, "og", "ow")
        b.add("  p(&mut a[%s], %d); let og = take_ops(); p(&mut b.%s[%s], %d); let ow = take_ops();" % (ix2, v2, K, ix2, v2))
        b.cmp("index_mut.%s.sugar.state" % tag, DBG % "a", DBG % "b")
        b.cmp("index_mut.%s.sugar.ops" % tag, "og", "ow")
        b.add("}")
    cls = ("index", n, k, "named" if named else "tuple", kind.name, sel, "mixed" if mixed else "same")
    return Case(cid, cls, st.decl(), b.text(), expect=b.n,
                meta={"what": "Index/IndexMut %s" % (cls[1:],), "family": "index", "sel": sel, "decl": st.decl(),
                      "soft": soft_selection(n, sel, False)})


# ---------------------------------------------------------------------------------------------
# IntoIterator

FORMS = ("owned", "ref", "ref_mut")


def gen_iter(rng, cid, n=None, k=None):
    n, k, named = pick_shape(rng, n, k)
    kind = KINDS[rng.choice(("sv", "sv", "vec", "vecT", "T"))]
    forms = [f for f in FORMS if rng.random() < 0.6]
    rng.shuffle(forms)
    place = rng.choice(("struct", "field")) if forms else "none"
    sel = pick_sel(rng, n, need_field_attr=(place == "field"), struct_args=(place == "struct"))
    sa, fa = select_attrs(("into_iterator",), n, k, sel,
                          field_args=", ".join(forms) if place == "field" else None,
                          struct_args=", ".join(forms) if place == "struct" else None)
    mixed = pick_mixed(rng, n)
    st = Struct(named, same_kind_fields(rng, kind, n, fa, k, mixed), ["IntoIterator"], sa)
    S, MK, K, FT = st.sty(), st.mk(), st.acc(k), kind.conc
    listed = set(forms) if forms else {"owned"}
    b = Body()
    b.add("let mut seen: Vec<(&str, String)> = Vec::new();")
    if "owned" in listed:
        b.add("{ let a: %s = %s; let c = a.clone(); let _ = take_ops();" % (S, MK))
        b.add("  let g: Vec<u64> = <%s as IntoIterator>::into_iter(a).collect(); let og = take_ops();" % S)
        b.add("  let w: Vec<u64> = <%s as IntoIterator>::into_iter(c.%s).collect(); let ow = take_ops();" % (FT, K))
        b.cmp("into_iter.owned.type", TYN % ("<%s as IntoIterator>::IntoIter" % S), TYN % ("<%s as IntoIterator>::IntoIter" % FT))
        b.cmp("into_iter.owned.items", DBG % "g", DBG % "w")
        b.cmp("into_iter.owned.ops", "og", "ow")
        b.add("  seen.push((\"owned\", format!(\"{:?}\", g)));")
        b.add("}")
    if "ref" in listed:
        b.add("{ let a: %s = %s; let _ = take_ops();" % (S, MK))
        b.add("  let g: Vec<String> = <&%s as IntoIterator>::into_iter(&a).map(|x| d::<u64>(x)).collect(); let og = take_ops();" % S)
        b.add("  let w: Vec<String> = <&%s as IntoIterator>::into_iter(&a.%s).map(|x| d::<u64>(x)).collect(); let ow = take_ops();" % (FT, K))
        b.cmp("into_iter.ref.type", TYN % ("<&'static %s as IntoIterator>::IntoIter" % S), TYN % ("<&'static %s as IntoIterator>::IntoIter" % FT))
        b.cmp("into_iter.ref.items", 'g.join(",")', 'w.join(",")')
        b.cmp("into_iter.ref.ops", "og", "ow")
        b.add("  let mut n = 0usize; for x in &a { let _: &u64 = x; n += 1; } let _ = take_ops();")
        b.cmp("into_iter.ref.sugar.count", "n.to_string()", "w.len().to_string()")
        b.add("  let vals: Vec<u64> = (&a).into_iter().map(|x| *x).collect(); let _ = take_ops();")
        b.add("  seen.push((\"ref\", format!(\"{:?}\", vals)));")
        b.add("}")
    if "ref_mut" in listed:
        v1 = rng.randrange(1, 1 << 20)
        b.add("{ let mut a: %s = %s; let mut b = a.clone(); let _ = take_ops();" % (S, MK))
        b.add("  let g: Vec<String> = <&mut %s as IntoIterator>::into_iter(&mut a).map(|x| d::<u64>(&*x)).collect(); let og = take_ops();" % S)
        b.add("  let w: Vec<String> = <&mut %s as IntoIterator>::into_iter(&mut a.%s).map(|x| d::<u64>(&*x)).collect(); let ow = take_ops();" % (FT, K))
        b.cmp("into_iter.ref_mut.type", TYN % ("<&'static mut %s as IntoIterator>::IntoIter" % S), TYN % ("<&'static mut %s as IntoIterator>::IntoIter" % FT))
        b.cmp("into_iter.ref_mut.items", 'g.join(",")', 'w.join(",")')
        b.cmp("into_iter.ref_mut.ops", "og", "ow")
        b.add("  let vals: Vec<u64> = (&mut a).into_iter().map(|x| *x).collect(); let _ = take_ops();")
        b.add("  seen.push((\"ref_mut\", format!(\"{:?}\", vals)));")
        b.add("  for (i, x) in <&mut %s as IntoIterator>::into_iter(&mut a).enumerate() { p::<u64>(x, %d + i as u64); } let og = take_ops();" % (S, v1))
        b.add("  for (i, x) in <&mut %s as IntoIterator>::into_iter(&mut b.%s).enumerate() { p::<u64>(x, %d + i as u64); } let ow = take_ops();" % (FT, K, v1))
        b.cmp("into_iter.ref_mut.state", DBG % "a", DBG % "b")
        b.cmp("into_iter.ref_mut.ops2", "og", "ow")
        b.add("}")
    # the listed forms visit the same elements in the same order
    b.add("for w in seen.windows(2) {")
    b.add("  cmp(\"into_iter.forms\", &format!(\"{}\", w[1].1), &format!(\"{}\", w[0].1));")
    b.add("}")
    b.n += max(0, len(listed) - 1)
    # which forms exist (observation only: the documentation does not say a form that is not listed is absent)
    b.obs("has.owned", "impls!(%s: IntoIterator).to_string()" % S)
    b.obs("has.ref", "impls!(&'static %s: IntoIterator).to_string()" % S)
    b.obs("has.ref_mut", "impls!(&'static mut %s: IntoIterator).to_string()" % S)
    cls = ("into_iter", n, k, "named" if named else "tuple", kind.name, sel, place, "+".join(sorted(listed)) if forms else "default",
           "mixed" if mixed else "same")
    return Case(cid, cls, st.decl(), b.text(), expect=b.n,
                meta={"what": "IntoIterator %s" % (cls[1:],), "family": "into_iter", "sel": sel, "decl": st.decl(),
                      "listed": sorted(listed), "explicit": bool(forms), "soft": soft_selection(n, sel, place == "struct")})


# ---------------------------------------------------------------------------------------------
# AsRef / AsMut

def _targets(rng, kind, want_self=None, allow=None):
    """A random non-empty list of (written, concrete, is_self) conversion targets of a field of `kind`."""
    cands = []
    if want_self is not False:
        cands.append("self")
    for (wr, cc) in kind.others:
        if allow is None or cc in allow:
            cands.append((wr, cc))
    if allow is not None and kind.conc not in allow and "self" in cands:
        cands.remove("self")
    if not cands:
        return None
    m = rng.randrange(1, len(cands) + 1)
    pick = rng.sample(cands, m)
    if want_self is True and "self" not in pick:
        pick[0] = "self"
    if kind.name == "T" and "self" in pick:
        # `impl<T> AsRef<T> for S<T>` overlaps any other `AsRef<X> for S<T>` (rustc's coherence, not the derive's business)
        pick = ["self"]
    out = []
    for c in pick:
        if c == "self":
            out.append((None, kind.conc, True))
        else:
            out.append((c[0], c[1], False))
    return out


def _self_spelling(rng, kind, field_spell):
    """How the field's own type is written in the attribute: the same tokens as the field (direct impl) or another
    spelling of the same type (specialised impl).  With generics involved only the string-equal spelling is documented."""
    if kind.gen:
        return field_spell
    r = rng.random()
    if r < 0.35:
        return field_spell
    return rng.choice(kind.self_spell)


def _conv_attr(rng, f, conv):
    """conv: ('plain',) | ('forward',) | ('types', [(written, conc, is_self)])  ->  attribute argument text or None"""
    if conv[0] == "plain":
        return None
    if conv[0] == "forward":
        return "forward"
    return ", ".join(w for (w, _, _) in conv[1])


def _asref_checks(b, st, i, conv, rng):
    """Emit AsRef/AsMut checks for field i of st with conversion conv."""
    f = st.fields[i]
    kind = f["kind"]
    S, MK, K, FT = st.sty(), st.mk(), st.acc(i), kind.conc
    if conv[0] == "plain":
        tl = [(None, kind.conc, True)]
    elif conv[0] == "forward":
        tl = [(w, c, False) for (w, c) in kind.others]
        if kind.self_asref:
            tl.append((None, kind.conc, False))     # through the blanket impl the field's own `AsRef<Self>` is *called*
    else:
        tl = conv[1]
    mode = conv[0]
    for (_, X, is_self) in tl:
        v1 = rng.randrange(1, 1 << 20)
        if is_self:
            tag = "self." + mode
            b.add("{ let a: %s = %s; let _ = take_ops();" % (S, MK))
            b.add("  let r: &%s = <%s as AsRef<%s>>::as_ref(&a); let og = take_ops();" % (X, S, X))
            b.cmp("as_ref.%s.ref" % tag, "d(r)", "d(&a.%s)" % K)
            b.cmp("as_ref.%s.ops" % tag, "og", EMPTY)
            b.add("}")
            b.add("{ let mut a: %s = %s; let mut b = a.clone(); let _ = take_ops();" % (S, MK))
            b.add("  let g = { let r: &mut %s = <%s as AsMut<%s>>::as_mut(&mut a); d(r) }; let og = take_ops();" % (X, S, X))
            b.cmp("as_mut.%s.ref" % tag, "g", "d(&a.%s)" % K)
            b.cmp("as_mut.%s.ops" % tag, "og", EMPTY)
            b.add("  p(<%s as AsMut<%s>>::as_mut(&mut a), %d); let og = take_ops(); p(&mut b.%s, %d);" % (S, X, v1, K, v1))
            b.cmp("as_mut.%s.state" % tag, DBG % "a", DBG % "b")
            b.cmp("as_mut.%s.ops2" % tag, "og", EMPTY)
            b.add("}")
        else:
            tag = "fwd." + mode
            b.add("{ let a: %s = %s; let _ = take_ops();" % (S, MK))
            b.add("  let r: &%s = <%s as AsRef<%s>>::as_ref(&a); let og = take_ops(); let g = d(r);" % (X, S, X))
            b.add("  let w0: &%s = <%s as AsRef<%s>>::as_ref(&a.%s); let ow = take_ops(); let w = d(w0);" % (X, FT, X, K))
            b.cmp("as_ref.%s.ref" % tag, "g", "w")
            b.cmp("as_ref.%s.ops" % tag, "og", "ow")
            b.add("}")
            b.add("{ let mut a: %s = %s; let mut b = a.clone(); let _ = take_ops();" % (S, MK))
            b.add("  let g = { let r: &mut %s = <%s as AsMut<%s>>::as_mut(&mut a); d(r) }; let og = take_ops();" % (X, S, X))
            b.add("  let w = { let r: &mut %s = <%s as AsMut<%s>>::as_mut(&mut a.%s); d(r) }; let ow = take_ops();" % (X, FT, X, K))
            b.cmp("as_mut.%s.ref" % tag, "g", "w")
            b.cmp("as_mut.%s.ops" % tag, "og", "ow")
            b.add("  p(<%s as AsMut<%s>>::as_mut(&mut a), %d); let og = take_ops();" % (S, X, v1))
            b.add("  p(<%s as AsMut<%s>>::as_mut(&mut b.%s), %d); let ow = take_ops();" % (FT, X, K, v1))
            b.cmp("as_mut.%s.state" % tag, DBG % "a", DBG % "b")
            b.cmp("as_mut.%s.ops2" % tag, "og", "ow")
            b.add("}")


def _fill_types(rng, kind, field_spell, tl):
    """Give every target its written form."""
    out = []
    for (w, c, is_self) in tl:
        if is_self:
            w = _self_spelling(rng, kind, field_spell)
        out.append((w, c, is_self))
    return out


def _spell_class(kind, field_spell, conv):
    if conv[0] != "types":
        return conv[0]
    s = [w for (w, _, is_self) in conv[1] if is_self]
    if not s:
        return "types:fwd-only"
    how = "direct" if s[0] == field_spell else "specialised"
    return "types:%s%s" % (how, "+fwd" if len(conv[1]) > 1 else "")


def gen_asref(rng, cid, scen=None):
    scen = scen or rng.choice(("single", "single", "multi_same", "multi_same", "multi_mixed", "multi_mixed", "skip"))
    named = rng.random() < 0.5
    sattrs = []
    convs = {}            # field index -> conv
    fields = []
    absent = []           # field indexes that must not be exposed
    is_forward = False
    if scen == "single":
        kind = KINDS[rng.choice(("sv", "sv", "own", "own", "vec", "u64", "box", "T", "vecT", "ownT", "ownT"))]
        sp = rng.choice(kind.spellings) if rng.random() < 0.4 else kind.spellings[0]
        form = rng.choice(("none", "field_plain", "struct_forward", "field_forward", "struct_types", "field_types",
                           "struct_types", "field_types"))
        if form.endswith("forward") and not (kind.others or kind.self_asref):
            form = "none"
        if form in ("none", "field_plain"):
            conv = ("plain",)
        elif form.endswith("forward"):
            conv = ("forward",)
        else:
            conv = ("types", _fill_types(rng, kind, sp, _targets(rng, kind)))
        arg = _conv_attr(rng, None, conv)
        fattrs = []
        if form.startswith("struct"):
            sattrs = ["#[as_ref(%s)]" % arg, "#[as_mut(%s)]" % arg]
        elif form != "none":
            fattrs = ["#[as_ref(%s)]" % arg, "#[as_mut(%s)]" % arg] if arg else ["#[as_ref]", "#[as_mut]"]
        fields = [{"kind": kind, "spell": sp, "attrs": fattrs, "id": rng.randrange(1, 99)}]
        convs[0] = conv
        is_forward = conv[0] == "forward"
        detail = (kind.name, form.split("_")[0], _spell_class(kind, sp, conv))
    elif scen == "multi_same":
        n = rng.choice((2, 2, 3, 3, 4))
        k = rng.randrange(n)
        kind = KINDS[rng.choice(("sv", "sv", "own", "own", "vec", "u64", "box", "T", "vecT", "ownT", "ownT"))]
        what = rng.choice(("plain", "plain", "forward", "types", "types"))
        if what == "forward" and not (kind.others or kind.self_asref):
            what = "plain"
        ids = rng.sample(range(1, 99), n)
        for i in range(n):
            sp = rng.choice(kind.spellings) if rng.random() < 0.3 else kind.spellings[0]
            fields.append({"kind": kind, "spell": sp, "attrs": [], "id": ids[i]})
        if what == "types":
            conv = ("types", _fill_types(rng, kind, fields[k]["spell"], _targets(rng, kind)))
        else:
            conv = (what,)
        arg = _conv_attr(rng, None, conv)
        fields[k]["attrs"] = ["#[as_ref(%s)]" % arg, "#[as_mut(%s)]" % arg] if arg else ["#[as_ref]", "#[as_mut]"]
        convs[k] = conv
        is_forward = what == "forward"
        detail = (kind.name, n, k, _spell_class(kind, fields[k]["spell"], conv))
    elif scen == "multi_mixed":
        n = rng.choice((2, 3, 3, 4, 4))
        m = rng.randrange(1, min(n, 3) + 1)
        marked = sorted(rng.sample(range(n), m))
        generic = rng.random() < 0.3
        pool = ["sv", "own", "vec", "u64", "box"]
        if generic:
            pool = ["sv", "own", "u64", "box", "vecT", "vecT"]
        used = set()
        ids = rng.sample(range(1, 99), n)
        fields = [None] * n
        for i in marked:
            for _ in range(20):
                kind = KINDS[rng.choice(pool)]
                allow = set([kind.conc] + [c for (_, c) in kind.others]) - used
                if not allow:
                    continue
                if rng.random() < 0.4 and kind.conc in allow:
                    conv = ("plain",)
                    tset = {kind.conc}
                else:
                    tl = _targets(rng, kind, allow=allow)
                    if not tl:
                        continue
                    sp0 = kind.spellings[0]
                    conv = ("types", tl)
                    tset = set(c for (_, c, _) in tl)
                break
            else:
                raise Inconclusive("generator could not place disjoint AsRef targets")
            used |= tset
            sp = rng.choice(kind.spellings) if rng.random() < 0.3 else kind.spellings[0]
            if conv[0] == "types":
                conv = ("types", _fill_types(rng, kind, sp, conv[1]))
            arg = _conv_attr(rng, None, conv)
            fields[i] = {"kind": kind, "spell": sp, "id": ids[i],
                         "attrs": ["#[as_ref(%s)]" % arg, "#[as_mut(%s)]" % arg] if arg else ["#[as_ref]", "#[as_mut]"]}
            convs[i] = conv
        mk = [fields[i]["kind"] for i in marked]
        for i in range(n):
            if fields[i] is None:
                # unmarked neighbours mostly repeat the type of a marked field
                kind = rng.choice(mk) if rng.random() < 0.75 else KINDS[rng.choice(pool)]
                fields[i] = {"kind": kind, "spell": kind.spellings[0], "id": ids[i], "attrs": []}
                if kind.conc not in used:
                    absent.append(i)
        if generic and not any(f["kind"].gen for f in fields):
            # a generic struct whose marked fields are all concrete: add an unmarked `Vec<T>` field
            kind = KINDS["vecT"]
            fields.append({"kind": kind, "spell": "Vec<T>", "id": 99, "attrs": []})
            if kind.conc not in used:
                absent.append(len(fields) - 1)
        detail = (len(fields), tuple(marked), tuple((fields[i]["kind"].name, _spell_class(fields[i]["kind"], fields[i]["spell"], convs[i])) for i in marked),
                  "generic" if any(f["kind"].gen for f in fields) else "concrete")
    else:   # skip
        n = rng.choice((2, 3, 3, 4, 4))
        ns = rng.randrange(1, n)
        skipped = sorted(rng.sample(range(n), ns))
        generic = rng.random() < 0.25
        pool = ["sv", "own", "vec", "u64", "box"] if not generic else ["sv", "own", "u64", "box", "vecT"]
        rng.shuffle(pool)
        ids = rng.sample(range(1, 99), n)
        exposed = [i for i in range(n) if i not in skipped]
        if generic:
            # `T` can only be exposed alone (`AsRef<T>` would overlap every other impl)
            if len(exposed) == 1 and rng.random() < 0.5:
                pool = ["T"]
            elif "vecT" not in pool[:len(exposed)]:
                pool.remove("vecT")
                pool.insert(0, "vecT")
        kinds = {}
        for j, i in enumerate(exposed):
            kinds[i] = KINDS[pool[j]]
        used = set(kinds[i].conc for i in exposed)
        gens = set(kinds[i].gen for i in exposed if kinds[i].gen)
        for i in skipped:
            if rng.random() < 0.7:
                kinds[i] = kinds[rng.choice(exposed)]
            else:
                kinds[i] = KINDS[rng.choice([p for p in ("sv", "own", "vec", "u64", "box") if not (generic and p == "vec")])]
        fields = []
        for i in range(n):
            kind = kinds[i]
            attrs = []
            if i in skipped:
                w = rng.choice(("skip", "ignore"))
                attrs = ["#[as_ref(%s)]" % w, "#[as_mut(%s)]" % w]
                if kind.conc not in used:
                    absent.append(i)
            else:
                convs[i] = ("plain",)
            fields.append({"kind": kind, "spell": kind.spellings[0] if kind.gen or rng.random() < 0.7 else rng.choice(kind.spellings),
                           "id": ids[i], "attrs": attrs})
        detail = (n, tuple(skipped), tuple(kinds[i].name for i in range(n)))
    st = Struct(named, fields, ["AsRef", "AsMut"], sattrs)
    b = Body()
    for i in sorted(convs):
        _asref_checks(b, st, i, convs[i], rng)
    if not is_forward:
        for i in absent:
            X = st.fields[i]["kind"].conc
            b.cmp("as_ref.absent", "impls!(%s: AsRef<%s>).to_string()" % (st.sty(), X), '"false"')
            b.cmp("as_mut.absent", "impls!(%s: AsMut<%s>).to_string()" % (st.sty(), X), '"false"')
    cls = ("as_ref", scen, "named" if named else "tuple") + detail
    return Case(cid, cls, st.decl(), b.text(), expect=b.n,
                meta={"what": "AsRef/AsMut %s" % (cls[1:],), "family": "as_ref", "sel": scen, "decl": st.decl()})


# ---------------------------------------------------------------------------------------------

GENS = {"deref": gen_deref, "index": gen_index, "into_iter": gen_iter}
NK = [(n, k) for n in (1, 2, 3, 4) for k in range(n)]


def run(ctx):
    rng = ctx.rng
    cases = []
    reps = ctx.pick({"deref": 8, "index": 5, "into_iter": 7}, {"deref": 140, "index": 90, "into_iter": 120})
    i = 0
    for fam in ("deref", "index", "into_iter"):
        for rep in range(reps[fam]):
            for (n, k) in NK:       # every (arity, selected position) in every round
                cases.append(GENS[fam](rng, "%s%d" % (fam[0:2], i), n, k))
                i += 1
    scens = ("single", "multi_same", "multi_mixed", "skip")
    for j in range(ctx.pick(160, 2500)):
        cases.append(gen_asref(rng, "ar%d" % j, scens[j % 4] if j % 2 == 0 else None))
    ctx.rule = ("types: tuple/named structs with 1-4 fields of one spy type per struct (rt::SpyVec, Own, Vec<u64>, u64, Box<SpyVec>, and generic T / Vec<T> / "
                "Box<T>; spelled directly, through a type alias or a qualified path), every (arity, selected position) in every round; selection by `#[attr]` on the "
                "field, `#[attr(ignore)]` on all others, or both; `forward` on struct or field; IntoIterator with every subset of owned/ref/ref_mut on struct "
                "or field; AsRef/AsMut single-field, one marked field among equal neighbours, several marked fields with disjoint targets, skip/ignore, "
                "listed types = own type (same tokens / alias / path) and/or forwarded types; "
                "distinct = distinct (derive family, arity, position, layout, field kind, selection mode, forward/forms/listed-type class) tuples; "
                "every case executes the derived impls, none is trivial")
    ctx.assumptions += [
        "rt::SpyVec logs every Deref/Index/AsRef/IntoIterator call with a per-instance id; Own logs AsRef<Own>/AsMut<Own>",
        "the reference is the field's own trait implementation called directly on the same object in the same process",
        "`#[attr]` on the selected field combined with `#[attr(ignore)]` on all others is not spelled out by the docs: if such an input is rejected it is only counted, if it compiles it must delegate to the marked field",
        "which IntoIterator forms exist beyond the listed ones is recorded as an observation, not judged",
    ]
    res = l2.build_and_run(ctx, "deleg", cases, prelude=PRELUDE)
    ctx.extra["build_rounds"] = res.rounds
    ctx.extra["types"] = len(cases)
    short = 0
    for c in cases:
        ctx.count()
        fam = c.meta["family"]
        if c.id in res.compile_errors:
            if c.meta.get("soft"):
                ctx.bump("obs_rejected:" + c.meta["soft"])
                continue
            ctx.cls(c.cls)
            ctx.violate("compile:%s:%s" % (fam, ":".join(str(x) for x in c.cls[4:] if isinstance(x, str))),
                        "supported input does not compile (%s): %s" % (c.meta["what"], l2.err_text(res.compile_errors[c.id], 1)[:700]),
                        case=c.meta, items=c.items, errors=l2.err_text(res.compile_errors[c.id]))
            continue
        ctx.cls(c.cls)
        if c.id in res.not_run:
            ctx.bump("cases_not_run")
            continue
        evs = res.events.get(c.id, [])
        n = 0
        dead = False
        for e in evs:
            kind = e.get("kind")
            if "got" in e and "want" in e:
                n += 1
                ctx.bump("events_compared")
                if e["got"] != e["want"]:
                    ctx.violate("mismatch:%s:%s" % (fam, kind),
                                "%s [%s]: through the derive %r, field's own %r\n%s" % (c.meta["what"], kind, e["got"][:300], e["want"][:300], c.meta["decl"]),
                                case=c.meta, items=c.items, body=c.body, event=e)
            elif kind in ("panic", "crash"):
                dead = True
                ctx.violate("panic:%s" % fam, "%s: generated program %s: %s\n%s" % (c.meta["what"], kind, e.get("val", "")[:300], c.meta["decl"]),
                            case=c.meta, items=c.items, body=c.body, event=e)
            elif "val" in e:
                n += 1
                if fam == "into_iter" and kind.startswith("has."):
                    form = kind[4:]
                    if e["val"] == "true" and form not in c.meta["listed"]:
                        ctx.bump("obs_unlisted_form_present:%s->%s" % ("+".join(c.meta["listed"]) if c.meta["explicit"] else "default", form))
                    if e["val"] != "true" and form in c.meta["listed"]:
                        ctx.violate("mismatch:into_iter:listed-form-missing", "%s: listed form %s has no impl\n%s" % (c.meta["what"], form, c.meta["decl"]),
                                    case=c.meta, items=c.items)
        if n < c.expect and not dead:
            short += 1
    for c in cases[:2] + [x for x in cases if x.meta["family"] == "index"][:2] + [x for x in cases if x.meta["family"] == "into_iter"][:2] + \
            [x for x in cases if x.meta["family"] == "as_ref"][:5]:
        evs = [e for e in res.events.get(c.id, []) if "got" in e][:4]
        ctx.sample({"case": c.meta["what"], "type": c.meta["decl"], "events": evs})
    if ctx.extra.get("cases_not_run", 0) or short:
        raise Inconclusive("some cases did not run to completion: not_run=%s short_of_events=%s" % (ctx.extra.get("cases_not_run", 0), short))
