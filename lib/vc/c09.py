"""C09 - `Error::source()` returns exactly the field the documented rules select.

Generated programs derive `derive_more::Error` on structs and enum variants with 0..3 named or
positional fields carrying every assignment of {-, source, not(source), backtrace, not(backtrace),
ignore}.  Every field that can hold an error holds a distinct `rt::Leaf(p)` (directly, boxed as
`Box<dyn Error ...>`, or through a type parameter instantiated with `Leaf`), so the object returned
by `source()` has an identity (payload *and* address) that is logged next to the identities of the
value's fields.  The verdict is computed offline against a model of the documented rules
(impl/doc/error.md): explicit `#[error(source)]`, else the field named `source`, else the sole
tuple field / the non-backtrace field of a two-field tuple, else `None`; `not(source)` and `ignore`
veto.  Layouts the documentation is silent on (positional fields some of which are ignored) are
checked one-sidedly.  Ambiguous selections must be compile errors.

`Error::provide()` is emitted by the derive whenever it detects a backtrace field and only compiles
on nightly, so layouts in which the documentation (in its most inclusive reading) sees a backtrace
field are built with the nightly toolchain and the real `std::backtrace::Backtrace`; all other
layouts are built with the default (stable) toolchain.
"""
import itertools

from . import common, l2
from .common import Inconclusive
from .l2 import Case

# attribute text -> (source flag, backtrace flag, ignored)
ATTRS6 = {
    "-": (None, None, False),
    "source": (True, None, False),
    "not(source)": (False, None, False),
    "backtrace": (None, True, False),
    "not(backtrace)": (None, False, False),
    "ignore": (None, None, True),
}
# combinations used by the repository's own tests; only in the random part of the workload
ATTRS_X = dict(ATTRS6)
ATTRS_X.update({
    "backtrace, source": (True, True, False),
    "source, not(backtrace)": (True, False, False),
    # the same options in the other order, and two negations (order inside one attribute must not matter)
    "not(backtrace), source": (True, False, False),
    "source, backtrace": (True, True, False),
    "not(source), not(backtrace)": (False, False, False),
    "not(backtrace), not(source)": (False, False, False),
})

ERR, BT, PLN = "err", "bt", "pln"   # holds an error / type named `Backtrace` / neither
NAMES = {"s": "source", "b": "backtrace"}
OTHER = ["other", "more", "extra"]

PRELUDE = """
use std::error::Error as StdError;
use std::backtrace::Backtrace;
use std::backtrace;
pub type MyBt = std::backtrace::Backtrace;
pub fn lid(l: &Leaf) -> String { format!("Leaf({})@{}", l.0, addr(l)) }
pub fn rlid(l: &&'static Leaf) -> String { lid(*l) }
// an error type of the user's that happens to be called `Backtrace` (it is not std's): with `not(backtrace)` it is an
// ordinary field, selected as source by the ordinary rules
pub mod userbt { pub type Backtrace = super::Leaf; }
pub fn leak(l: Leaf) -> &'static Leaf { Box::leak(Box::new(l)) }
// a boxed error that has a source of its own: `source()` of the outer type must still be the boxed
// object itself, not one level further down the chain
#[derive(Debug)]
pub struct Chain(pub u32, pub Leaf);
impl std::fmt::Display for Chain { fn fmt(&self, f: &mut std::fmt::Formatter<'_>) -> std::fmt::Result { write!(f, "chain{}", self.0) } }
impl StdError for Chain { fn source(&self) -> Option<&(dyn StdError + 'static)> { Some(&self.1) } }
pub fn cid(c: &Chain) -> String { format!("Other({})@{}", c, addr(c)) }
pub fn bid0(b: &Box<dyn StdError + 'static>) -> String { match b.downcast_ref::<Leaf>() { Some(l) => lid(l), None => match b.downcast_ref::<Chain>() { Some(c) => cid(c), None => "?".to_string() } } }
pub fn bid1(b: &Box<dyn StdError + Send + 'static>) -> String { match b.downcast_ref::<Leaf>() { Some(l) => lid(l), None => match b.downcast_ref::<Chain>() { Some(c) => cid(c), None => "?".to_string() } } }
pub fn bid2(b: &Box<dyn StdError + Send + Sync + 'static>) -> String { match b.downcast_ref::<Leaf>() { Some(l) => lid(l), None => match b.downcast_ref::<Chain>() { Some(c) => cid(c), None => "?".to_string() } } }
"""
NIGHTLY_HEADER = "#![feature(error_generic_member_access)]\n" + l2.HEADER

BOXES = [("Box<dyn StdError + 'static>", "bid0"), ("Box<dyn StdError + Send + 'static>", "bid1"),
         ("Box<dyn StdError + Send + Sync + 'static>", "bid2")]
BT_SPELLINGS = ["Backtrace", "std::backtrace::Backtrace", "backtrace::Backtrace", "::std::backtrace::Backtrace"]

# Names (ordinary violation keys, nothing is suppressed) for the symptoms of the defect repaired in
# /repo commit 0fb2c1c: positions among the enabled fields used as positions among all fields.  They
# are given only when the observation is exactly what that defect model predicts for the layout.
K_PANIC = "index-shift:tuple2-ignore-backtrace-panic"
K_ENUM = "index-shift:enum-ignore-before-source"
K_ENUM_BT = "index-shift:enum-ignore-before-backtrace"
K_BOUND = "index-shift:generic-struct-ignore-before-source"


# ---------------------------------------------------------------------------------------------
# layouts and the documented selection rules

class Layout:
    """named/tuple, fields = [(name|None, attr, cls)]"""

    def __init__(self, named, fields):
        self.named = named
        self.fields = [tuple(f) for f in fields]
        self.n = len(self.fields)

    def sig(self):
        return (self.named, tuple(self.fields))

    def msig(self):
        """Identity for the metamorphic relation: named selection does not depend on field classes."""
        if self.named:
            return (True, tuple((f[0], f[1]) for f in self.fields))
        return self.sig()

    def flags(self, i):
        return ATTRS_X[self.fields[i][1]]

    def src(self, i):
        return self.flags(i)[0]

    def bt(self, i):
        return self.flags(i)[1]

    def ign(self, i):
        return self.flags(i)[2]

    def cls(self, i):
        return self.fields[i][2]

    def name(self, i):
        return self.fields[i][0]

    def live(self):
        return [i for i in range(self.n) if not self.ign(i)]

    def with_attr(self, j, attr):
        fs = list(self.fields)
        fs[j] = (fs[j][0], attr, fs[j][2])
        return Layout(self.named, fs)

    def text(self):
        def one(i):
            nm, at, cl = self.fields[i]
            a = "" if at == "-" else "#[error(%s)] " % at
            return "%s%s%s" % (a, (nm + ": ") if self.named else "", {ERR: "Err", BT: "Backtrace", PLN: "Plain"}[cl])
        inner = ", ".join(one(i) for i in range(self.n))
        return ("{ %s }" % inner) if self.named else "(%s)" % inner

    # -- backtrace detection in the most inclusive reading of the documentation -------------
    def bt_explicit(self, idx=None):
        return [i for i in (self.live() if idx is None else idx) if self.bt(i) is True]

    def bt_inferred(self, idx=None):
        return [i for i in (self.live() if idx is None else idx) if self.bt(i) is None and
                (self.cls(i) == BT or (self.named and self.name(i) == "backtrace"))]


def _tuple_rule(L, idx):
    """Documented rule 2 applied to the positional fields `idx`.
    Returns (field or None, certain)."""
    ex = L.bt_explicit(idx)
    b = ex[0] if ex else (L.bt_inferred(idx) or [None])[0]
    if len(idx) == 1:
        i = idx[0]
        if L.src(i) is False:
            return None, True
        if b == i:
            if L.cls(i) == BT:
                return None, True      # the only field *is* the backtrace
            if L.cls(i) == ERR:
                return i, True         # `#[error(backtrace)]` on the sole (error) field: both roles
            return i, False
        return i, True
    if len(idx) == 2 and b is not None:
        o = idx[0] if idx[1] == b else idx[1]
        return (None if L.src(o) is False else o), True
    return None, True


def model(L):
    """-> (status, expect, allowed): status in ambiguous/definite/onesided."""
    live = L.live()
    expl = [i for i in live if L.src(i) is True]
    if len(expl) > 1:
        return "ambiguous", None, set()
    if len(expl) == 1:
        return "definite", expl[0], {expl[0]}
    if L.named:
        c = [i for i in live if L.name(i) == "source" and L.src(i) is not False]
        e = c[0] if c else None
        return "definite", e, {e}
    r, certain = _tuple_rule(L, live)
    if len(live) == L.n:
        if certain:
            return "definite", r, {r}
        return "onesided", None, {r, None}
    # some positional fields are ignored: the documentation does not say whether the remaining
    # fields are counted as if the ignored ones were absent
    if r is None and certain:
        return "definite", None, {None}
    return "onesided", None, {r, None}


def how(L):
    """Which documented rule decides (part of the violation-class key)."""
    live = L.live()
    if any(L.src(i) is True for i in live):
        return "explicit"
    if L.named:
        return "named"
    if len(live) != L.n:
        return "tuple-with-ignored"
    return "tuple%d" % L.n


def valid(L):
    """Is the layout a supported input whose field classes satisfy the trait requirements?"""
    st, exp, allowed = model(L)
    if st == "ambiguous":
        return False
    ex, inf = L.bt_explicit(), L.bt_inferred()
    if len(ex) > 1 or len(inf) > 1:
        return False                      # conflicting backtraces: not this property's business
    for i in allowed:
        if i is not None and L.cls(i) != ERR:
            return False                  # a possibly selected field must be an error
    for d in ex + inf:
        if st == "definite" and exp == d:
            continue                      # source and backtrace at once: provide() delegates
        if d in allowed:
            return False
        if L.cls(d) == ERR:
            return False                  # a backtrace field must really be a Backtrace
    return True


def needs_nightly(L):
    return bool(L.bt_explicit() or L.bt_inferred())


def ignored_before(L, s):
    return sum(1 for i in range(s) if L.ign(i))


# ---------------------------------------------------------------------------------------------
# concretisation: Rust types, values, programs

class Conc:
    """A layout with concrete field types; `params` are the type parameters it introduces."""

    def __init__(self, L, rng, generic, tag, rich=True):
        self.L = L
        self.ty, self.inst, self.val, self.idf, self.param = [], [], [], [], []
        self.pay = []
        exd = set(L.bt_explicit() + L.bt_inferred())
        cand = [i for i in range(L.n) if L.cls(i) in (ERR, PLN) and not (L.cls(i) == PLN and i in exd)]
        gen = set()
        if generic and cand:
            gen = set(i for i in cand if rng.random() < 0.6)
            if not gen:
                gen = {rng.choice(cand)}
        for i in range(L.n):
            c = L.cls(i)
            p = rng.randrange(1, 9000) * 10 + i
            self.pay.append(p)
            if c == ERR:
                if i in gen:
                    t = "%s%d" % (tag, i)
                    self.param.append(t)
                    self.ty.append(t); self.inst.append("Leaf"); self.val.append("Leaf(%d)" % p); self.idf.append("lid")
                elif rich and not needs_nightly(L) and rng.random() < 0.3:
                    # (boxed sources next to a backtrace do not compile: the derived provide() calls
                    # `Error::provide(&self.field, ..)` on the Box; provide() is outside this property)
                    bt_, fn = rng.choice(BOXES)
                    boxed = "Box::new(Leaf(%d))" % p if rng.random() < 0.55 else "Box::new(Chain(%d, Leaf(%d)))" % (p, p + 1)
                    self.ty.append(bt_); self.inst.append(None); self.val.append(boxed); self.idf.append(fn)
                elif rich and not needs_nightly(L) and rng.random() < 0.15:
                    # a source held by reference (not a path type)
                    self.ty.append("&'static Leaf"); self.inst.append(None); self.val.append("leak(Leaf(%d))" % p); self.idf.append("rlid")
                else:
                    self.ty.append("Leaf"); self.inst.append(None); self.val.append("Leaf(%d)" % p); self.idf.append("lid")
            elif c == BT:
                self.ty.append(rng.choice(BT_SPELLINGS) if rich else "Backtrace")
                self.inst.append(None); self.val.append("Backtrace::disabled()"); self.idf.append(None)
            else:
                if i in exd:
                    self.ty.append("MyBt"); self.inst.append(None); self.val.append("Backtrace::disabled()")
                elif i in gen:
                    t = "%s%d" % (tag, i)
                    self.param.append(t)
                    self.ty.append(t); self.inst.append("i32"); self.val.append("%d" % p)
                elif rng.random() < 0.25:
                    self.ty.append("MyBt"); self.inst.append(None); self.val.append("Backtrace::disabled()")
                else:
                    self.ty.append("i32"); self.inst.append(None); self.val.append("%d" % p)
                self.idf.append(None)
        self.insts = [self.inst[i] for i in range(L.n) if self.inst[i] is not None]

    def is_param(self, i):
        return self.inst[i] is not None

    def holds_error(self, i):
        return self.L.cls(i) == ERR

    def body_decl(self, for_variant):
        L = self.L
        fs = []
        for i in range(L.n):
            a = "" if L.fields[i][1] == "-" else "#[error(%s)] " % L.fields[i][1]
            vis = "" if for_variant else "pub "
            fs.append("%s%s%s%s" % (a, vis, (L.name(i) + ": ") if L.named else "", self.ty[i]))
        if L.named:
            return " { %s }" % ", ".join(fs)
        return "(%s)" % ", ".join(fs)

    def make(self, path):
        L = self.L
        if L.named:
            return "%s { %s }" % (path, ", ".join("%s: %s" % (L.name(i), self.val[i]) for i in range(L.n)))
        return "%s(%s)" % (path, ", ".join(self.val))

    def pattern(self, path):
        L = self.L
        if L.named:
            return "%s { %s }" % (path, ", ".join("%s: f%d" % (L.name(i), i) for i in range(L.n)))
        return "%s(%s)" % (path, ", ".join("f%d" % i for i in range(L.n)))


DISPLAY = "impl%s std::fmt::Display for %s%s { fn fmt(&self, f: &mut std::fmt::Formatter<'_>) -> std::fmt::Result { f.write_str(\"e\") } }"


def struct_case(cid, L, rng, generic, rich=True):
    C = Conc(L, rng, generic, "T", rich)
    g = "<%s>" % ", ".join(C.param) if C.param else ""
    unit_style = rng.randrange(3) if L.n == 0 else None
    if L.n == 0:
        decl = ["pub struct S;", "pub struct S();", "pub struct S {}"][unit_style]
        make = ["S", "S()", "S {}"][unit_style]
    else:
        decl = "pub struct S%s%s%s" % (g, C.body_decl(False), "" if L.named else ";")
        make = C.make("S")
    items = "#[derive(Debug, derive_more::Error)]\n%s\n%s" % (decl, DISPLAY % (g, "S", g))
    tyinst = "S" + ("<%s>" % ", ".join(C.insts) if C.param else "")
    body = ["let v: %s = %s;" % (tyinst, make)]
    nev = 1
    for i in range(L.n):
        if C.holds_error(i):
            acc = "v.%s" % (L.name(i) if L.named else str(i))
            body.append("obs(\"m.f%d\", &%s(&%s));" % (i, C.idf[i], acc))
            nev += 1
    body.append("obs(\"m.src\", &source_id(StdError::source(&v)));")
    meta = {"what": "struct S%s" % L.text(), "kind": "struct", "decl": decl, "generic": bool(C.param)}
    c = Case(cid, ("struct", "generic" if C.param else "concrete") + cls_of(L), items, "\n".join(body), expect=nev, meta=meta, trivial=(L.n == 0))
    c.meta["_L"] = L
    c.meta["_C"] = C
    c.meta["_vals"] = [("m", L, C, False)]
    return c


# filler variants with a certain, documented outcome: (declaration, constructor, pattern, expected)
def fillers(rng):
    pool = [
        ("U%d", "", "", "", None, []),
        ("One%d", "(Leaf)", "(Leaf(%d))", "(f0)", 0, [0]),
        ("OneRef%d", "(&'static Leaf)", "(leak(Leaf(%d)))", "(f0)", 0, [0]),
        ("NamBt%d", " { #[error(not(backtrace))] source: userbt::Backtrace }", " { source: Leaf(%d) }", " { source: f0 }", 0, [0]),
        ("NamBtOther%d", " { #[error(not(backtrace))] source: userbt::Backtrace, other: i32 }", " { source: Leaf(%d), other: 1 }", " { source: f0, other: _ }", 0, [0]),
        ("ExBt%d", "(i32, #[error(source, not(backtrace))] userbt::Backtrace)", "(1, Leaf(%d))", "(_, f0)", 0, [0]),
        ("NamRef%d", " { source: &'static Leaf }", " { source: leak(Leaf(%d)) }", " { source: f0 }", 0, [0]),
        ("Nam%d", " { source: Leaf, other: i32 }", " { source: Leaf(%d), other: 1 }", " { source: f0, other: _ }", 0, [0]),
        ("Pair%d", "(i32, i32)", "(%d, 2)", "(_, _)", None, []),
        ("NoSrc%d", " { other: Leaf }", " { other: Leaf(%d) }", " { other: f0 }", None, [0]),
        ("#[error(ignore)] IgT%d", "(Leaf)", "(Leaf(%d))", "(f0)", None, [0]),
        ("#[error(ignore)] IgN%d", " { source: Leaf }", " { source: Leaf(%d) }", " { source: f0 }", None, [0]),
        ("Ex%d", "(i32, #[error(source)] Leaf)", "(1, Leaf(%d))", "(_, f0)", 0, [0]),
    ]
    return [rng.choice(pool) for _ in range(rng.choice((0, 1, 1, 2, 3)))]


def enum_case(cid, L, rng, generic, variant_ignored=False, rich=True):
    C = Conc(L, rng, generic, "T", rich)
    fl = fillers(rng)
    pos = rng.randrange(len(fl) + 1)
    g = "<%s>" % ", ".join(C.param) if C.param else ""
    tyinst = "E" + ("<%s>" % ", ".join(C.insts) if C.param else "")
    if L.n == 0:
        style = rng.randrange(3)
        mdecl = ["M", "M()", "M {}"][style]
        mmake = ["E::M", "E::M()", "E::M {}"][style]
        mpat = ["E::M", "E::M()", "E::M {}"][style]
    else:
        mdecl = "M" + C.body_decl(True)
        mmake = C.make("E::M")
        mpat = C.pattern("E::M")
    if variant_ignored:
        mdecl = "#[error(ignore)] " + mdecl
    vdecls, body = [], []
    nev = 0
    fexp = []
    k = 0
    for slot in range(len(fl) + 1):
        if slot == pos:
            vdecls.append(mdecl)
            body.append("{ let v: %s = %s;" % (tyinst, mmake))
            if L.n:
                body.append("  if let %s = &v {" % mpat)
                for i in range(L.n):
                    if C.holds_error(i):
                        body.append("    obs(\"m.f%d\", &%s(f%d));" % (i, C.idf[i], i))
                        nev += 1
                    else:
                        body.append("    let _ = f%d;" % i)
                body.append("  }")
            body.append("  obs(\"m.src\", &source_id(StdError::source(&v))); }")
            nev += 1
        else:
            nm, decl, mk, pat, exp, fids = fl[k]
            nm = nm % k
            bare = nm.split()[-1]
            vdecls.append(nm + decl)
            p = rng.randrange(1, 9000) * 10 + 9
            body.append("{ let v: %s = E::%s%s;" % (tyinst, bare, (mk % p) if mk else ""))
            if fids:
                body.append("  if let E::%s%s = &v { obs(\"x%d.f0\", &%s(f0)); }" % (bare, pat, k, "rlid" if "&'static" in decl else "lid"))
                nev += 1
            body.append("  obs(\"x%d.src\", &source_id(StdError::source(&v))); }" % k)
            nev += 1
            fexp.append(("x%d" % k, exp, nm + decl))
            k += 1
    decl = "pub enum E%s { %s }" % (g, ", ".join(vdecls))
    items = "#[derive(Debug, derive_more::Error)]\n%s\n%s" % (decl, DISPLAY % (g, "E", g))
    meta = {"what": "enum variant %sM%s" % ("#[error(ignore)] " if variant_ignored else "", L.text()), "kind": "enum", "decl": decl,
            "generic": bool(C.param), "variant_ignored": variant_ignored}
    c = Case(cid, ("enum", "generic" if C.param else "concrete") + cls_of(L) + (("variant-ignored",) if variant_ignored else ()), items, "\n".join(body), expect=nev, meta=meta,
             trivial=(L.n == 0))
    c.meta["_L"] = L
    c.meta["_C"] = C
    c.meta["_vals"] = [("m", L, C, variant_ignored)]
    c.meta["_fillers"] = fexp
    return c


def cls_of(L):
    return ("named" if L.named else "tuple", L.n, tuple(f[1] for f in L.fields), tuple(f[2] for f in L.fields),
            tuple(f[0] for f in L.fields) if L.named else ())


# ---------------------------------------------------------------------------------------------
# workload

def name_patterns(n):
    out = []
    for pat in itertools.product("sbo", repeat=n):
        if pat.count("s") > 1 or pat.count("b") > 1:
            continue
        o = iter(OTHER)
        out.append(tuple(NAMES.get(c) or next(o) for c in pat))
    return out


def classes_for_named(L0_names, attrs, rng):
    """Random field classes for a named layout (selection does not depend on them); None if no
    valid assignment was found."""
    n = len(attrs)
    for attempt in range(24):
        cl = []
        for i in range(n):
            if L0_names[i] == "backtrace":
                cl.append(rng.choice((BT, BT, BT, PLN, ERR)))
            elif L0_names[i] == "source":
                cl.append(rng.choice((ERR, ERR, ERR, PLN, BT)))
            else:
                cl.append(rng.choice((ERR, ERR, PLN, BT)))
        L = Layout(True, [(L0_names[i], attrs[i], cl[i]) for i in range(n)])
        if valid(L):
            return L
    return None


def enumerate_tuple(attrs=ATTRS6):
    for n in range(0, 4):
        for at in itertools.product(attrs, repeat=n):
            for cl in itertools.product((ERR, BT, PLN), repeat=n):
                yield Layout(False, [(None, at[i], cl[i]) for i in range(n)])


def enumerate_named_attrs(attrs=ATTRS6):
    for n in range(0, 4):
        for names in name_patterns(n):
            for at in itertools.product(attrs, repeat=n):
                yield names, at


def random_layout(rng):
    named = rng.random() < 0.5
    n = rng.choice((0, 1, 1, 2, 2, 2, 3, 3, 3))
    keys = list(ATTRS_X)
    w = [4, 2, 1.5, 1.5, 1.5, 2.5, 0.5, 0.5] + [0.4] * (len(keys) - 8)
    at = tuple(rng.choices(keys, w)[0] for _ in range(n))
    if named:
        names = rng.choice(name_patterns(n))
        return classes_for_named(names, at, rng), named, at
    cl = [rng.choices((ERR, BT, PLN), (3, 1.5, 1))[0] for _ in range(n)]
    return Layout(False, [(None, at[i], cl[i]) for i in range(n)]), named, at


CORNERS = [
    # documented examples and the layouts in which positions among enabled and among all fields differ
    (False, [(None, "-", ERR)]),
    (False, [(None, "-", ERR), (None, "-", BT)]),
    (False, [(None, "-", BT), (None, "-", ERR)]),
    (False, [(None, "ignore", PLN), (None, "-", BT)]),
    (False, [(None, "-", BT), (None, "ignore", PLN)]),
    (False, [(None, "ignore", ERR), (None, "source", ERR)]),
    (False, [(None, "ignore", ERR), (None, "ignore", ERR), (None, "source", ERR)]),
    (False, [(None, "ignore", ERR), (None, "source", ERR), (None, "-", ERR)]),
    (False, [(None, "-", ERR), (None, "ignore", ERR), (None, "source", ERR)]),
    (False, [(None, "source", ERR), (None, "ignore", ERR)]),
    (False, [(None, "not(source)", ERR), (None, "-", BT)]),
    (False, [(None, "-", ERR), (None, "not(backtrace)", BT)]),
    (False, [(None, "-", ERR), (None, "ignore", BT)]),
    (False, [(None, "ignore", ERR), (None, "-", ERR)]),
    (False, [(None, "backtrace", ERR)]),
    (False, [(None, "-", ERR), (None, "backtrace", PLN)]),
    (True, [("source", "-", ERR)]),
    (True, [("source", "-", ERR), ("backtrace", "-", BT)]),
    (True, [("other", "ignore", ERR), ("source", "-", ERR)]),
    (True, [("other", "ignore", ERR), ("more", "source", ERR)]),
    (True, [("source", "ignore", ERR), ("other", "-", ERR)]),
    (True, [("source", "not(source)", ERR), ("other", "-", ERR)]),
    (True, [("source", "-", PLN), ("other", "source", ERR)]),
    (True, [("source", "backtrace", ERR)]),
    (True, [("other", "backtrace, source", ERR)]),
]


def ambiguous_layouts(rng, limit):
    out = []
    for named in (False, True):
        for n in (2, 3):
            pats = [p for p in name_patterns(n) if "backtrace" not in p] if named else [(None,) * n]
            for names in pats:
                for at in itertools.product(list(ATTRS6) + ["backtrace, source"], repeat=n):
                    if sum(1 for a in at if ATTRS_X[a][0] is True) < 2:
                        continue
                    if any(ATTRS_X[a][1] is True for a in at):
                        continue   # keep provide()/nightly out of the must-fail build
                    out.append(Layout(named, [(names[i], at[i], ERR) for i in range(n)]))
    rng.shuffle(out)
    return out if limit is None else out[:limit]


# ---------------------------------------------------------------------------------------------
# offline oracle

def predicted_enum_defect(L, s):
    """Defect model `position among enabled fields used as position among all fields`: the field
    that is bound instead of field `s`, or None if the two positions coincide."""
    k = ignored_before(L, s)
    return (s - k) if k else None


def real_backtrace(C, i):
    return C.ty[i] in BT_SPELLINGS or C.ty[i] == "MyBt"


def classify_compile_error(c, diags):
    """Key of a compile failure of a must-compile case.  The `index-shift:` keys are given only when
    every diagnostic is the symptom that the defect model predicts for exactly this layout."""
    L, C = c.meta["_L"], c.meta["_C"]
    normal = "compile:%s:%s:%s" % (c.meta["kind"], "named" if L.named else "tuple", how(L))
    if c.meta.get("variant_ignored"):
        return normal
    st, exp, allowed = model(L)
    live = L.live()
    msgs = [(d.get("message", ""), common.diag_text(d)) for d in diags]
    bts = L.bt_explicit() or L.bt_inferred()
    b = bts[0] if bts else None
    if any("panicked" in m for m, _ in msgs):
        if (not L.named and L.n == 2 and len(live) == 1 and not any(L.src(i) is True for i in live) and b is not None
                and all("index out of bounds" in t for m, t in msgs if "panicked" in m)
                # the only other diagnostics are the consequence of the missing impl at the use site
                and all("Error` is not satisfied" in m for m, t in msgs if "panicked" not in m)):
            return K_PANIC
        return normal
    s = exp if st == "definite" else None
    ps = predicted_enum_defect(L, s) if s is not None else None
    pb = predicted_enum_defect(L, b) if (b is not None and b != s) else None
    keys = set()
    for m, t in msgs:
        sym_src = "as_dyn_error" in m or "Error` is not satisfied" in m
        sym_bt = m.startswith("mismatched types") and "Backtrace" in t
        if c.meta["kind"] == "enum":
            if sym_src and ps is not None and (L.cls(ps) != ERR or C.inst[ps] == "i32"):
                keys.add(K_ENUM)      # field ps is bound instead of the source and is not an error
            elif sym_bt and pb is not None and not real_backtrace(C, pb):
                keys.add(K_ENUM_BT)   # field pb is bound instead of the backtrace and is not a Backtrace
            else:
                return normal
        else:
            # struct: the `T: Error` bound is derived from the type of field ps instead of the source's
            if sym_src and ps is not None and (C.is_param(s) or (C.is_param(ps) and C.inst[ps] == "i32")):
                keys.add(K_BOUND)
            else:
                return normal
    if not keys:
        return normal
    return K_ENUM if K_ENUM in keys else sorted(keys)[0]


def resolve(evs, prefix):
    """-> (observed field index | None | 'unknown', raw, field ids) for one value."""
    src = None
    ids = {}
    for e in evs:
        k = e.get("kind", "")
        if not k.startswith(prefix + "."):
            continue
        if k == prefix + ".src":
            src = e.get("val")
        elif k.startswith(prefix + ".f"):
            ids[int(k[len(prefix) + 2:])] = e.get("val")
    if src is None:
        return "missing", None, ids
    if src == "None":
        return None, src, ids
    hit = [i for i, v in ids.items() if v == src]
    if len(hit) == 1:
        return hit[0], src, ids
    return "unknown", src, ids


def check_case(ctx, c, res, results, by_msig):
    L, C = c.meta["_L"], c.meta["_C"]
    ctx.count()
    if not c.trivial:
        ctx.cls(c.cls)
    pub = {k: v for k, v in c.meta.items() if not k.startswith("_")}
    if c.id in res.compile_errors:
        text = l2.err_text(res.compile_errors[c.id], 6)
        key = classify_compile_error(c, res.compile_errors[c.id])
        ctx.bump("compile_errors")
        ctx.violate(key, "supported input does not compile (%s): %s" % (c.meta["what"], l2.err_text(res.compile_errors[c.id], 1)[:600]),
                    case=pub, items=c.items, errors=text)
        return
    if c.id in res.not_run:
        ctx.bump("cases_not_run")
        return
    evs = res.events.get(c.id, [])
    bad = [e for e in evs if e.get("kind") in ("panic", "crash")]
    if bad:
        ctx.violate("panic:%s" % c.meta["kind"], "%s: generated program %s: %s" % (c.meta["what"], bad[0]["kind"], bad[0].get("val", "")[:300]),
                    case=pub, items=c.items, body=c.body, event=bad[0])
        return
    # the layout under test
    got, raw, ids = resolve(evs, "m")
    if got == "missing":
        ctx.bump("cases_short_of_events")
        return
    ctx.bump("events_compared")
    st, exp, allowed = model(L)
    if c.meta.get("variant_ignored"):
        st, exp, allowed = "definite", None, {None}
    kind = c.meta["kind"]
    base = "%s:%s:%s" % (kind, "named" if L.named else "tuple", how(L))
    detail = dict(case=pub, items=c.items, body=c.body, observed=raw, field_ids=ids, model={"status": st, "expect": exp, "allowed": sorted(allowed, key=str)})
    results[(kind, L.msig(), bool(c.meta.get("variant_ignored")))] = got
    by_msig[L.msig()] = L
    if got == "unknown":
        ctx.violate("foreign-source:" + base, "%s: source() returned %s which is none of the value's fields %s" % (c.meta["what"], raw, ids), **detail)
    elif st == "definite":
        if got != exp:
            key = "wrong-source:%s:%s" % (base, "some-for-none" if exp is None else ("none-for-some" if got is None else "other-field"))
            if kind == "enum" and exp is not None and got is not None and predicted_enum_defect(L, exp) == got:
                key = K_ENUM
            ctx.violate(key, "%s: source() is %s, the documented rules select %s" % (
                c.meta["what"], "None" if got is None else "field %d (%s)" % (got, raw), "None" if exp is None else "field %d (%s)" % (exp, ids.get(exp))), **detail)
    else:
        if got not in allowed:
            ctx.violate("wrong-source:%s:not-a-remaining-candidate" % base, "%s: source() is field %s (%s); only %s can be justified" % (
                c.meta["what"], got, raw, sorted(allowed, key=str)), **detail)
        else:
            ctx.bump("onesided_checked")
            ctx.bump("onesided_observed_none" if got is None else "onesided_observed_remaining_field")
    # filler variants
    for prefix, fexp, decl in c.meta.get("_fillers", []):
        g, r, fid = resolve(evs, prefix)
        if g == "missing":
            ctx.bump("cases_short_of_events")
            continue
        ctx.bump("events_compared")
        if g != fexp:
            ctx.violate("wrong-source:enum-sibling", "%s: sibling variant `%s`: source() is %s, expected %s" % (c.meta["what"], decl, r, "None" if fexp is None else fid.get(0)),
                        **detail)


def metamorphic(ctx, results, by_sig):
    """Adding `ignore` to a field that is not the source never changes what is returned."""
    for (kind, sig, vig), r in results.items():
        if vig or r == "unknown":
            continue
        L = by_sig[sig]
        strict = L.named or any(L.src(i) is True for i in L.live())
        sel = model(L)[2]
        for j in range(L.n):
            if L.fields[j][1] != "-" or j == r or j in sel:
                continue      # only fields that are neither the documented nor the observed source
            L2 = L.with_attr(j, "ignore")
            r2 = results.get((kind, L2.msig(), False), "absent")
            if r2 in ("absent", "unknown"):
                continue
            ctx.bump("metamorphic_pairs")
            ctx.bump("events_compared")
            if r2 == r:
                continue
            what = "%s %s: source() is %s, but %s after adding #[error(ignore)] to field %d: %s" % (kind, L.text(), r, r2, j, L2.text())
            if strict or (r is not None and r2 is not None):
                key = "metamorphic:%s:%s:%s" % (kind, "named" if L.named else "tuple", how(L))
                if kind == "enum" and r is not None and r2 is not None and predicted_enum_defect(L2, r) == r2:
                    key = K_ENUM
                ctx.violate(key, what, base=L.text(), ignored=L2.text(), before=r, after=r2)
            else:
                # inferred positional selection: whether ignored fields are counted is undocumented
                ctx.bump("metamorphic_inferred_%s" % ("lost" if r2 is None else "gained"))


# ---------------------------------------------------------------------------------------------

def run(ctx):
    rng = ctx.rng
    layouts, seen = [], set()

    def add(L):
        if L is None or L.sig() in seen or not valid(L):
            return False
        seen.add(L.sig())
        layouts.append(L)
        return True

    for named, fs in CORNERS:
        if not add(Layout(named, fs)):
            raise Inconclusive("corner layout rejected by the generator's own validity rules: %r" % (fs,))
    n_enum_space = None
    if ctx.quick():
        target = 1500
        tries = 0
        while len(layouts) < target and tries < 200000:
            tries += 1
            L, named, at = random_layout(rng)
            if add(L) and rng.random() < 0.6:
                # metamorphic partner
                st, exp, _ = model(L)
                js = [j for j in range(L.n) if L.fields[j][1] == "-" and j != exp]
                if js:
                    add(L.with_attr(rng.choice(js), "ignore"))
    else:
        n_enum_space = 0
        for L in enumerate_tuple():
            n_enum_space += 1
            add(L)
        named_all = list(enumerate_named_attrs())
        for names, at in named_all:
            n_enum_space += 1
            add(classes_for_named(names, at, rng))
        tries = 0
        extra = 0
        while extra < 2000 and tries < 400000:
            tries += 1
            L, named, at = random_layout(rng)
            if add(L):
                extra += 1
        ctx.exhaustive = False
    rng.shuffle(layouts)
    by_msig = {}

    stable, nightly = [], []
    k = 0
    reps = ctx.pick(1, 2)      # thorough: every layout both without and with type parameters
    for L in layouts:
        k += 1
        for rep in range(reps if L.n else 1):
            gs, ge = (rng.random() < 0.45, rng.random() < 0.45) if reps == 1 else (rep == 1, rep == 1)
            sc = struct_case("s%d_%d" % (k, rep), L, rng, generic=gs)
            vig = L.n > 0 and rng.random() < 0.06
            ec = enum_case("e%d_%d" % (k, rep), L, rng, generic=ge, variant_ignored=vig)
            extra = [enum_case("f%d_%d" % (k, rep), L, rng, generic=ge, variant_ignored=False)] if vig else []
            for c in [sc, ec] + extra:
                (nightly if needs_nightly(L) else stable).append(c)

    amb = ambiguous_layouts(rng, ctx.pick(40, None))
    mf = []
    for i, L in enumerate(amb):
        c = (struct_case if i % 2 == 0 else enum_case)("a%d" % i, L, rng, generic=(i % 5 == 0), rich=False)
        c.must_fail = True
        mf.append(c)
        if not ctx.quick():
            c2 = (enum_case if i % 2 == 0 else struct_case)("b%d" % i, L, rng, generic=(i % 5 == 1), rich=False)
            c2.must_fail = True
            mf.append(c2)

    ctx.rule = ("layouts: struct / enum variant (with 0-3 sibling variants of certain outcome, at a random position), named or positional, 0-3 fields; per field an attribute from "
                "{-, source, not(source), backtrace, not(backtrace), ignore} (+ `backtrace, source` and `source, not(backtrace)` in the random part), a name from {source, backtrace, other...} "
                "and a class from {error (Leaf | Box<dyn Error [+Send[+Sync]]> | type parameter = Leaf), type named Backtrace (4 spellings of std's), plain (i32 | alias of Backtrace | type parameter = i32)}; "
                "only layouts whose possibly-selected fields are errors and whose possibly-detected backtrace is a real Backtrace are emitted; quick = fixed corner list + seeded sample of 1500 layouts with "
                "`ignore` partners, thorough = every positional (attribute x class) assignment and every named (name x attribute) assignment (classes random) + 2000 seeded layouts of the extended space; "
                "every layout is derived as a struct and as an enum variant (quick: ~45% with type parameters, thorough: once without and once with), 6% of the variants additionally with a variant-level ignore; "
                "40 (quick) / all (thorough) layouts with two explicit sources must be rejected; distinct = (struct|enum, generic?, named|tuple, arity, attributes, classes, names); zero-field layouts are trivial")
    ctx.assumptions += [
        "rt::Leaf values with distinct payloads at distinct addresses make the identity of the returned object observable (payload and address must both match a field)",
        "layouts with a detectable backtrace field only compile on nightly (provide() is unstable); they are built with `RUSTUP_TOOLCHAIN=nightly` and #![feature(error_generic_member_access)], the rest with the default toolchain",
        "for positional layouts with ignored fields the documentation does not say whether the ignored fields count; only `the inferable remaining field or None` is demanded there",
        "the metamorphic `ignore` relation is demanded strictly for selection by attribute or by name; for inferred positional selection only `never a different field` is demanded",
    ]
    ctx.extra["layouts"] = len(layouts)
    if n_enum_space is not None:
        ctx.extra["enumerated_assignments"] = n_enum_space
    ctx.extra["cases_stable"] = len(stable)
    ctx.extra["cases_nightly"] = len(nightly)
    ctx.extra["cases_must_fail"] = len(mf)

    results = {}
    allcases = []
    for name, cases, header, cenv in (("src_stable", stable, l2.HEADER, None),
                                      ("src_nightly", nightly, NIGHTLY_HEADER, {"RUSTUP_TOOLCHAIN": "nightly"})):
        if not cases:
            continue
        res = l2.build_and_run(ctx, name, cases, prelude=PRELUDE, header=header, cargo_env=cenv, nshards=min(common.NCPU, max(1, len(cases) // 8)))
        ctx.extra["build_rounds_" + name] = res.rounds
        for c in cases:
            check_case(ctx, c, res, results, by_msig)
        allcases.append((cases, res))
    metamorphic(ctx, results, by_msig)

    # ambiguous selections must be rejected
    if mf:
        res = l2.build_and_run(ctx, "ambiguous", mf, prelude=PRELUDE, run=False)
        for c in mf:
            ctx.count()
            ctx.cls(("ambiguous",) + c.cls)
            pub = {k: v for k, v in c.meta.items() if not k.startswith("_")}
            errs = res.compile_errors.get(c.id)
            if not errs:
                ctx.violate("ambiguous-compiles:%s:%s" % (c.meta["kind"], "named" if c.meta["_L"].named else "tuple"),
                            "%s: two `#[error(source)]` fields are accepted instead of being a compile error" % c.meta["what"], case=pub, items=c.items)
                continue
            ctx.bump("events_compared")
            coded = [d for d in errs if (d.get("code") or {}).get("code")]
            if coded and len(coded) == len(errs):
                raise Inconclusive("must-fail case %s failed with rustc errors that are not the derive's diagnostic: %s" % (c.id, l2.err_text(errs, 2)))
            if any("panicked" in common.diag_text(d) for d in errs):
                ctx.bump("ambiguous_rejected_by_panic")
            else:
                ctx.bump("ambiguous_rejected_by_diagnostic")

    if ctx.extra.get("cases_not_run", 0) or ctx.extra.get("cases_short_of_events", 0):
        raise Inconclusive("some cases did not run to completion: not_run=%s short=%s" % (
            ctx.extra.get("cases_not_run", 0), ctx.extra.get("cases_short_of_events", 0)))

    # samples
    want = [("struct", "explicit"), ("enum", "explicit"), ("struct", "named"), ("enum", "tuple2"), ("struct", "tuple-with-ignored"), ("enum", "tuple1"), ("enum", "named")]
    for cases, res in allcases:
        for c in cases:
            if not want:
                break
            L = c.meta["_L"]
            key = (c.meta["kind"], how(L))
            if key in want and c.id not in res.compile_errors and L.n >= 2 - (how(L) == "tuple1"):
                want.remove(key)
                st, exp, allowed = model(L)
                got, raw, ids = resolve(res.events.get(c.id, []), "m")
                ctx.sample({"type": c.items.split("\n")[:2], "operation": "Error::source(&value)", "value": [l for l in c.body.split("\n") if "let v" in l][:1],
                            "observed": raw, "field_identities": ids, "expected": ("None" if exp is None else ids.get(exp)) if st == "definite" else "one of %s" % sorted(allowed, key=str)})
    for c in mf[:2]:
        ctx.sample({"type": c.items.split("\n")[:2], "operation": "cargo check", "expected": "compile error", "observed": "rejected"})
