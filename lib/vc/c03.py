"""C03 - format literals are interpreted exactly as std::fmt interprets them.

Differential runtime monitor (DESIGN.md §4 C03): every generated literal goes through
  (a) derive_more's literal parser, called directly in the in-process harness,
  (b) the real Display-like/Debug expanders (where-clause + body shape reveal argument
      resolution, trait and "has modifiers"),
and is compared with std's own parser (rustc_parse_format from nightly rustc-dev).
"""
import itertools
import re
from concurrent.futures import ProcessPoolExecutor

from . import common, inproc, oracle_pf
from .common import rs_str

ALPHABET = list("{}:.*$01#+-<^>?xa_ ") + ["é", "🦀"]
TYPES = ["", "?", "x?", "X?", "o", "x", "X", "p", "b", "e", "E"]
DERIVES = [("Display", "display"), ("Binary", "binary"), ("Octal", "octal"), ("LowerHex", "lower_hex"),
           ("UpperHex", "upper_hex"), ("LowerExp", "lower_exp"), ("UpperExp", "upper_exp"),
           ("Pointer", "pointer"), ("Debug", "debug")]
IDENT_RE = re.compile(r"^[^\W\d]\w*$", re.U)
KEYWORDS = set("as break const continue crate else enum extern false fn for if impl in let loop match mod move mut pub ref return self Self static struct super trait true type unsafe use where while async await dyn abstract become box do final macro override priv typeof unsized virtual yield try gen _".split())


def grammar_placeholders():
    args = ["", "0", "1", "x", "_0"]
    fills = ["", "<", "^", ">", "*<", "}^", "é>"]
    signs = ["", "+", "-"]
    alts = ["", "#"]
    zeros = ["", "0"]
    widths = ["", "5", "1$", "w$", "0$"]
    precs = ["", ".3", ".1$", ".p$", ".*"]
    ws = ["", " ", "\u00a0", "\u2003", "\t", " \n"]
    for a, f, s, al, z, w, p, t, sp in itertools.product(args, fills, signs, alts, zeros, widths, precs, TYPES, ws):
        spec = f + s + al + z + w + p + t
        if spec:
            yield "{" + a + ":" + spec + sp + "}"
        else:
            yield "{" + a + sp + "}"
            yield "{" + a + ":" + sp + "}"


def gen_literals(ctx):
    rng = ctx.rng
    lits = []
    allp = list(dict.fromkeys(grammar_placeholders()))
    ctx.extra["grammar_space"] = len(allp)
    n_gram = ctx.pick(len(allp), len(allp))
    gram = allp if n_gram >= len(allp) else rng.sample(allp, n_gram)
    lits += gram
    # one-edit neighbours of a sample
    base = rng.sample(allp, ctx.pick(4000, 40000))
    for s in base:
        chars = list(s)
        for _ in range(ctx.pick(6, 10)):
            op = rng.randrange(3)
            pos = rng.randrange(len(chars) + (1 if op == 0 else 0))
            c = list(chars)
            if op == 0:
                c.insert(pos, rng.choice(ALPHABET))
            elif op == 1 and len(c) > 1:
                del c[pos]
            else:
                c[min(pos, len(c) - 1)] = rng.choice(ALPHABET)
            lits.append("".join(c))
    # all short strings over the alphabet
    maxlen_full = ctx.pick(4, 5)
    for n in range(0, maxlen_full + 1):
        for t in itertools.product(ALPHABET, repeat=n):
            lits.append("".join(t))
    for _ in range(ctx.pick(60000, 1500000)):
        n = rng.choice((5, 5, 5, 6, 6)) if ctx.quick() else rng.choice((6, 6, 6, 7, 7, 8))
        lits.append("".join(rng.choice(ALPHABET) for _ in range(n)))
    # sequences of placeholders mixed with text and escapes (implicit counter matters here)
    texts = ["", "a", " ", "{{", "}}", "é", "{{}}", "x: ", "🦀"]
    small = [p for p in allp if len(p) <= 9]
    for _ in range(ctx.pick(60000, 800000)):
        k = rng.randrange(2, 7)
        parts = []
        for _ in range(k):
            parts.append(rng.choice(texts))
            r = rng.random()
            if r < 0.5:
                parts.append(rng.choice(("{}", "{}", "{:?}", "{0}", "{1}", "{x}", "{:.*}", "{:1$}", "{:.1$}", "{:w$}", "{2:x}", "{:>8}", "{:.*e}", "{_0}")))
            else:
                parts.append(rng.choice(small))
        parts.append(rng.choice(texts))
        lits.append("".join(parts))
    # fixed hostile seeds
    lits += ["{0\u00a0}", "{:\u2003}", "{x:?\u3000}", "{:>3\u00a0}", "{_0:\u000b}", "{0\u0085}", "{:x\u2028}", "{:\u00a0\u2003 }", "{0 }", "{ }", "{ 0}", "{x }", "{:? }", "{: }", "{:.*}", "{:.*}{}", "{}{:.*}{}", "{:1$.*}", "{0:.*}", "{:.*}{:.*}",
             "{18446744073709551615}", "{18446744073709551616}", "{:65535}", "{:65536}", "{:.65536}", "{:99999999999999999999}",
             "{:0$}", "{:00$}", "{:00}", "{:#0}", "{:0}", "{:+0$}", "{:x?}", "{:X?}", "{:#x?}", "{:?x}", "{:?#}", "{:xx}",
             "{:{<}", "{:}<}", "{:}}", "{:{}", "{{}", "{}}", "}{", "{{{}}}", "{{{{}}}}", "{:é<5}", "{:🦀^}", "{é}", "{_}", "{_x}", "{x_}",
             "{r#x}", "{x=}", "{x.y}", "{0.1}", "{x:y$}", "{:.}", "{:.x}", "{:.x$}", "{:-}", "{:+-}", "{:-#}", "{:#-}", "{:#?}", "{:?}",
             "{:e}", "{:E}", "{:p}", "{:b}", "{:o}", "{:q}", "{:?p}", "{:\t}", "{\n}", "{0\n}", "{0 :}", "{0: }", "{ :}", "{:  }"]
    # type identifiers std does not know (case variants and neighbours of the valid ones), bare and with modifiers,
    # as the whole literal and inside text
    for t in ("O", "B", "P", "D", "d", "s", "S", "i", "u", "c", "e?", "E?", "o?", "b?", "p?", "xx", "Xx", "xX", "XX", "?x", "?X", "??", "x??", "ox", "display", "debug", "lower_hex"):
        for a in ("", "0", "_0", "x", "1"):
            for m in ("", ">5", "#", "08", ".3", "+"):
                for pre, post in (("", ""), ("a", ""), ("", " b"), ("{{", "}}")):
                    lits.append("%s{%s:%s%s}%s" % (pre, a, m, t, post))
    return list(dict.fromkeys(lits))


# The grammar as documented in std::fmt ("Syntax").  rustc's parser accepts a little more than the
# documentation states (whitespace between the argument and `:`, a dangling `.` without precision);
# the property speaks about "std::fmt's grammar", so such literals are observed but not judged.
_ID = r"(?:[^\W\d_]\w*|_\w+)"
_ARG = r"(?:\d+|%s)" % _ID
_COUNT = r"(?:%s\$|\d+)" % _ARG
_TYPE = r"(?:x\?|X\?|\?|%s)?" % _ID
_SPEC = r"(?:.?[<^>])?[+-]?#?0?(?:%s)?(?:\.(?:%s|\*))?%s" % (_COUNT, _COUNT, _TYPE)
_FORMAT = r"\{(?:%s)?(?::%s)?\s*\}" % (_ARG, _SPEC)
DOC_GRAMMAR = re.compile(r"(?:[^{}]|\{\{|\}\}|%s)*" % _FORMAT, re.S | re.U)


def in_documented_grammar(lit):
    return DOC_GRAMMAR.fullmatch(lit) is not None


def ident_ok(n):
    return bool(IDENT_RE.match(n)) and n not in KEYWORDS


def analyse(o):
    """From an oracle 'ok' record: positional count P, ordered names, list of (argkey, trait)."""
    maxidx = -1
    names = []
    res = []
    if o["n"]:
        for pr, pc in zip(o["res"].split(";"), o["canon"].split(";")):
            pos, tr = pr.rsplit(":", 1)
            res.append((pos, tr))
            if pos[0] == "i":
                maxidx = max(maxidx, int(pos[1:]))
            else:
                if pos[1:] not in names:
                    names.append(pos[1:])
            mods = pc.split("|")[1]
            for m in re.finditer(r"[wp]\((i\d+|n[^)]*)\)", mods):
                a = m.group(1)
                if a[0] == "i":
                    maxidx = max(maxidx, int(a[1:]))
                elif a[1:] not in names:
                    names.append(a[1:])
    return maxidx + 1, names, res


# the path by which an expansion names std's formatting traits is not part of the property
FMT_TRAITS = "Display|Debug|Binary|Octal|LowerHex|UpperHex|LowerExp|UpperExp|Pointer"
PRED_RE = re.compile(r"(\w+) : (?::: )?(?:\w+ :: )*(%s)\b" % FMT_TRAITS)
# `Trait::fmt(x, f)`, `path::Trait::fmt(..)` or the fully qualified `<_ as path::Trait>::fmt(..)`
DELEG_RE = re.compile(r"\b(%s) (?:> )?:: fmt \(" % FMT_TRAITS)


def forwards_literal(t, tok):
    """The literal token is handed to a formatting macro as its format string (first argument, or second after the
    formatter expression), whatever the macro's path and the formatter binding are called."""
    i = t.find(tok)
    while i >= 0:
        head = t[max(0, i - 200):i]
        if re.search(r"\w+ ! \((?: ?[^,;{}]{1,120} ,)? ?$", head):
            return True
        i = t.find(tok, i + 1)
    return False


def where_preds(tokens):
    m = re.search(r" where (.*?) \{ ", tokens)
    if not m:
        return set()
    return set(PRED_RE.findall(m.group(1)))


def worker(args):
    idx, lits, seed = args
    import random
    rng = random.Random(seed * 7919 + idx)
    viol = []
    unrec = []
    stats = {"literals": len(lits), "std_accepts": 0, "std_rejects": 0, "with_placeholders": 0, "expansions": 0,
             "direct_agree": 0, "beyond_documented_grammar": 0, "rejected_forward_checked": 0, "transparent_checked": 0, "panics": 0}
    classes = set()
    samples = []
    ora = oracle_pf.parse_many(lits)
    have_direct = inproc.has("vc_int_fmt")
    if have_direct:
        rc, direct, err, last = inproc.run_mode("fmtparse", [inproc.hexs(s) for s in lits])
    else:
        # the parser's internal AST no longer matches the harness: expansions remain the observation point
        rc, direct, err, last = 0, [{"kind": "nodirect"}] * len(lits), "", None
        stats["direct_parser_unavailable"] = len(lits)
    if len(direct) != len(lits):
        return {"error": "fmtparse answered %d of %d (rc=%s, last=%r, stderr=%s)" % (len(direct), len(lits), rc, last, err[-500:])}
    cases = []
    plan = {}
    for i, (lit, o, d) in enumerate(zip(lits, ora, direct)):
        if d["kind"] == "panic":
            stats["panics"] += 1
            viol.append(("panic:" + d.get("msg", "")[:60], "literal parser panicked on %r: %s" % (lit, d.get("msg")),
                         {"literal": lit, "panic": d}))
            continue
        tok = rs_str(lit)
        h = int(common.digest(lit), 16)
        tr, attr = DERIVES[h % len(DERIVES)]
        if o["kind"] == "ok":
            stats["std_accepts"] += 1
            if o["n"] == 0:
                # text only: no placeholders may be recognised
                if d["kind"] == "nodirect":
                    pass
                elif d["kind"] != "ok" or d["canon"] != "":
                    viol.append(("direct:text:" + lit, "text-only literal %r: derive_more parser says %s" % (lit, d), {"literal": lit, "std": o, "derive_more": d}))
                else:
                    stats["direct_agree"] += 1
                if h % 8:
                    continue
            elif not in_documented_grammar(lit):
                stats["beyond_documented_grammar"] += 1
                classes.add(("beyond", re.sub(r"\d+", "N", re.sub(r"n[^|;:)]+", "nI", o["canon"]))))
                continue
            else:
                stats["with_placeholders"] += 1
                shape = re.sub(r"\d+", "N", re.sub(r"n[^|;:)]+", "nI", o["canon"]))
                classes.add(("acc", shape))
                # (a) direct observation
                if d["kind"] == "nodirect":
                    pass
                elif d["kind"] != "ok":
                    viol.append(("direct:unrecognised:" + shape, "std accepts %r (%s) but derive_more's parser does not recognise it" % (lit, o["canon"]),
                                 {"literal": lit, "std": o, "derive_more": d}))
                elif d["canon"] != o["canon"]:
                    viol.append(("direct:differs:" + shape, "literal %r: std sees %s, derive_more sees %s" % (lit, o["canon"], d["canon"]),
                                 {"literal": lit, "std": o, "derive_more": d}))
                else:
                    stats["direct_agree"] += 1
            P, names, res = analyse(o)
            if P > 40:
                continue
            # form A: tuple struct, positional args `_i`, names as aliases of further fields
            nf = P + len(names)
            args = ["_%d" % k for k in range(P)]
            ok_names = all(ident_ok(n) for n in names)
            if ok_names:
                args += ["%s = _%d" % (n, P + j) for j, n in enumerate(names)]
                tps = ", ".join("T%d" % k for k in range(nf))
                if nf:
                    item = "#[%s(%s)] struct S<%s>(%s);" % (attr, ", ".join([tok] + args), tps, tps)
                else:
                    item = "#[%s(%s)] struct S;" % (attr, tok)
                exp = set()
                for pos, t in res:
                    k = int(pos[1:]) if pos[0] == "i" else P + names.index(pos[1:])
                    exp.add(("T%d" % k, t))
                cid = "%d.A" % i
                cases.append((cid, tr, item))
                plan[cid] = ("A", lit, o, exp, nf, item, tr)
            # form B: named struct, names are the fields themselves
            if ok_names and names and all(not re.match(r"^_\d+$", n) and not n.startswith("__p") for n in names) and (h >> 4) % 2 == 0:
                fields = ["__p%d: T%d" % (k, k) for k in range(P)] + ["%s: T%d" % (n, P + j) for j, n in enumerate(names)]
                tps = ", ".join("T%d" % k for k in range(nf))
                item = "#[%s(%s)] struct S<%s> { %s }" % (attr, ", ".join([tok] + ["__p%d" % k for k in range(P)]), tps, ", ".join(fields))
                exp = set()
                for pos, t in res:
                    k = int(pos[1:]) if pos[0] == "i" else P + names.index(pos[1:])
                    exp.add(("T%d" % k, t))
                cid = "%d.B" % i
                cases.append((cid, tr, item))
                plan[cid] = ("B", lit, o, exp, P, item, tr)
        else:
            stats["std_rejects"] += 1
            classes.add(("rej", re.sub(r"`[^`]*`", "`_`", o.get("why", ""))[:60]))
            # a literal std rejects must reach the compiler: expansion must forward it verbatim
            if d["kind"] == "ok" or h % 16 == 0 or (d["kind"] == "nodirect" and h % 4 == 0):
                for form, item in (("R1", "#[%s(%s, _0)] struct S<T0>(T0);" % (attr, tok)),
                                   ("R0", "#[%s(%s)] struct S<T0> { x: T0, _0: u8 }" % (attr, tok))):
                    cid = "%d.%s" % (i, form)
                    cases.append((cid, tr, item))
                    plan[cid] = (form, lit, o, None, 0, item, tr)
    rc, outs, err, last = inproc.run_mode("expand", ["%s\t%s\t%s" % (cid, d, inproc.hexs(item)) for cid, d, item in cases])
    got = {o["id"]: o for o in outs}
    if len(got) != len(cases):
        return {"error": "expand answered %d of %d (rc=%s, last=%r, %s)" % (len(got), len(cases), rc, last, err[-500:])}
    for cid, (form, lit, o, exp, nf, item, tr) in plan.items():
        g = got[cid]
        stats["expansions"] += 1
        tok = rs_str(lit)
        if g["kind"] == "panic":
            stats["panics"] += 1
            viol.append(("expand-panic:" + g.get("msg", "")[:60], "expansion panicked for %s: %s" % (item, g.get("msg")), {"item": item, "derive": tr, "panic": g}))
            continue
        if form in ("R0", "R1"):
            stats["rejected_forward_checked"] += 1
            if g["kind"] == "err":
                continue
            t = g.get("tokens", "")
            if forwards_literal(t, tok):
                continue
            # not recognisably forwarded: rustc itself decides below whether the derive compiles
            unrec.append({"literal": lit, "std": o, "item": item, "derive": tr, "expansion": t})
            continue
        if g["kind"] != "ok":
            viol.append(("expand-err:" + g.get("msg", g["kind"])[:50], "std accepts %r but derive(%s) reports: %s" % (lit, tr, g.get("msg")),
                         {"literal": lit, "item": item, "derive": tr, "outcome": g, "std": o}))
            continue
        t = g["tokens"]
        have = where_preds(t)
        if have != exp:
            shape = re.sub(r"\d+", "N", re.sub(r"n[^|;:)]+", "nI", o["canon"]))
            viol.append(("resolution:" + shape, "literal %r: std resolves placeholders to %s; derive(%s) bounds %s (expected %s) for %s" % (
                lit, o["res"], tr, sorted(have), sorted(exp), item),
                {"literal": lit, "std": o, "item": item, "derive": tr, "have": sorted(have), "expected": sorted(exp), "expansion": t}))
            continue
        # single whole-literal placeholder: "has any modifier" is visible in the body shape
        if o["n"] == 1:
            total_args = nf if form == "A" else nf
            if total_args <= 1:
                stats["transparent_checked"] += 1
                # text or `{{`/`}}` escapes next to the placeholder are part of the output: never a bare delegation
                want_transparent = (o["mods"] == "-") and o.get("lits", 1) == 0
                is_transparent = ("write !" not in t and "format_args !" not in t) and DELEG_RE.search(t) is not None
                if want_transparent and is_transparent:
                    # the delegated call must use the trait the placeholder names (`{_0}` is Display whatever is derived)
                    called = set(DELEG_RE.findall(t.split(" { ", 1)[1] if " { " in t else t))
                    want_tr = o["res"].rsplit(":", 1)[1]
                    if called and called != {want_tr}:
                        viol.append(("delegated-trait:%s:%s" % (want_tr, ",".join(sorted(called))), "literal %r: std formats the placeholder with %s, derive(%s) delegates to %s::fmt: %s" % (
                            lit, want_tr, tr, "/".join(sorted(called)), item), {"literal": lit, "std": o, "item": item, "derive": tr, "expansion": t}))
                        continue
                if want_transparent != is_transparent:
                    viol.append(("modifiers:" + o["canon"].split("|", 1)[1], "literal %r: std sees modifiers=%s but derive(%s) %s: %s" % (
                        lit, o["mods"], tr, "delegates transparently" if is_transparent else "does not delegate", item),
                        {"literal": lit, "std": o, "item": item, "derive": tr, "expansion": t}))
        if len(samples) < 3 and o["n"] >= 2:
            samples.append({"literal": lit, "std": o["canon"], "std_resolution": o["res"], "derive": tr, "item": item, "bounds_observed": sorted(have)})
    return {"viol": viol, "stats": stats, "classes": classes, "samples": samples, "unrec": unrec}


def judge_unrecognised(ctx, unrec):
    """Std-rejected literals whose expansion does not visibly hand the literal to a formatting macro: the property
    only demands that such a derive fails to compile, so rustc decides (a bounded sample)."""
    from . import l2
    ctx.bump("rejected_not_visibly_forwarded", len(unrec))
    if not unrec:
        return
    seen, pick = set(), []
    for u in sorted(unrec, key=lambda u: (len(u["literal"]), u["literal"])):
        k = re.sub(r"`[^`]*`", "`_`", u["std"].get("why", ""))[:50]
        if (k, u["derive"]) in seen and len(pick) >= 48:
            continue
        seen.add((k, u["derive"]))
        pick.append(u)
        if len(pick) >= 96:
            break
    cases = []
    for i, u in enumerate(pick):
        item = "#[derive(derive_more::%s)]\n%s" % (u["derive"], u["item"].replace("struct S", "pub struct S").replace("(T0);", "(pub T0);").replace("{ x: T0, _0: u8 }", "{ pub x: T0, pub _0: u8 }"))
        cases.append(l2.Case("u%d" % i, ("rejected-literal",), item, "", expect=0, meta=u))
    errs = l2.build_negative(ctx, "rejlit", cases)
    for c in cases:
        ctx.bump("rejected_literals_decided_by_rustc")
        if c.id not in errs:
            u = c.meta
            ctx.violate("silently-accepted:" + re.sub(r"`[^`]*`", "`_`", u["std"].get("why", ""))[:50],
                        "std rejects literal %r (%s) but the derive compiles: %s" % (u["literal"], u["std"].get("why"), u["item"]), **u)


def run(ctx):
    inproc.build()
    oracle_pf.build()
    lits = gen_literals(ctx)
    ctx.rule = ("literals: sampled/complete derivations of the std::fmt placeholder grammar (argument x fill/align x sign x # x 0 x width x precision x 11 types x trailing space), "
                "one-edit neighbours, all strings up to a length bound over a 21-symbol alphabet incl. multi-byte, random placeholder sequences with text/escapes; "
                "distinct = distinct std-accepted placeholder shapes (identifiers and numbers abstracted) + distinct std rejection reasons; text-only literals are trivial")
    ctx.assumptions += ["nightly rustc_parse_format (ParseMode::Format) is the grammar of stable format_args!; unknown trait letters are rejected by format_args! itself",
                       "proc_macro2 fallback mode in the in-process harness behaves like the compiler's for token printing"]
    parts = common.chunks(lits, common.NCPU * (1 if ctx.quick() else 4))
    with ProcessPoolExecutor(max_workers=common.NCPU) as ex:
        results = list(ex.map(worker, [(i, p, ctx.seed) for i, p in enumerate(parts)]))
    for r in results:
        if "error" in r:
            raise common.Inconclusive(r["error"])
        for k, v in r["stats"].items():
            ctx.bump(k, v)
        for c in r["classes"]:
            ctx.cls(c)
        for s in r["samples"]:
            ctx.sample(s)
        for key, what, detail in r["viol"]:
            ctx.violate(key, what, **detail)
    judge_unrecognised(ctx, [u for r in results for u in r["unrec"]])
    ctx.count(ctx.extra.get("literals", 0))
    if ctx.extra.get("with_placeholders", 0) < 1000 or ctx.extra.get("expansions", 0) < 1000:
        raise common.Inconclusive("too few placeholder literals observed")
