"""L2/L0 pipeline: generated programs using the real proc-macro, executed with spies; rustc
diagnostics and the programs' event logs are the observations (DESIGN.md §2)."""
import os
import re

from . import common
from .common import Inconclusive


class Case:
    __slots__ = ("id", "cls", "items", "body", "expect", "must_fail", "meta", "trivial")

    def __init__(self, id, cls, items, body="", expect=1, must_fail=False, meta=None, trivial=False):
        self.id = id
        self.cls = cls
        self.items = items
        self.body = body
        self.expect = expect
        self.must_fail = must_fail
        self.meta = meta or {}
        self.trivial = trivial


HEADER = """#![allow(warnings)]
#![allow(clippy::all)]
#![recursion_limit = "512"]
#[allow(unused_imports)]
use rt::*;
"""


class Result:
    def __init__(self):
        self.events = {}          # case id -> list of event dicts
        self.compile_errors = {}  # case id -> [rendered messages]
        self.not_run = set()
        self.unattributed = []
        self.rounds = 0
        self.n_bins = 0
        self.warnings = {}        # case id -> [warning diags]  (only when collect_warnings)


def _layout(cases, nshards, header, prelude, collect_warnings, binprefix="shard"):
    shards = common.chunks(cases, nshards)
    files, ranges = {}, {}
    for k, part in enumerate(shards):
        lines = (header + prelude).split("\n")
        name = "%s_%02d" % (binprefix, k)
        rel = "src/bin/%s.rs" % name
        rng = []
        for c in part:
            start = len(lines) + 1
            lines.append("pub mod c_%s {" % c.id)
            lines.append("    #[allow(unused_imports)] use super::*;")
            lines.extend(c.items.split("\n"))
            lines.append("    pub fn run() {")
            lines.extend(c.body.split("\n"))
            lines.append("    }")
            lines.append("}")
            rng.append((start, len(lines), c.id))
        lines.append("fn main() {")
        lines.append("    rt::init();")
        for c in part:
            lines.append('    rt::case("%s", c_%s::run);' % (c.id, c.id))
        lines.append("    rt::finish();")
        lines.append("}")
        files[rel] = "\n".join(lines) + "\n"
        ranges[rel] = rng
    return files, ranges


def _attribute(d, cdir, ranges):
    """Case ids a diagnostic belongs to (by the outermost user-code line of its spans)."""
    ids = set()
    for fn, line, primary in common.diag_lines(d):
        if fn is None or line is None:
            continue
        rel = fn if not os.path.isabs(fn) else os.path.relpath(fn, cdir)
        for (a, b, cid) in ranges.get(rel, ()):
            if a <= line <= b:
                ids.add(cid)
    return ids


def build_and_run(ctx, name, cases, nshards=None, prelude="", run=True, max_rounds=6, header=HEADER,
                  collect_warnings=False, dm_features=("full",), timeout=3600, extra_toml="", env=None, cargo_env=None):
    """Build `cases` into a crate of shard binaries against $REPO, run them, return Result."""
    res = Result()
    cdir = os.path.join(ctx.workdir, name)
    live = list(cases)
    ids = [c.id for c in cases]
    if len(set(ids)) != len(ids):
        raise Inconclusive("duplicate case ids in workload " + name)
    # one shard per core, but never more than ~250 cases in one rustc process: sixteen huge shards compiled at once
    # were killed by the kernel's OOM killer on a loaded 62 GB machine (that run was INCONCLUSIVE, not a violation)
    nshards = nshards or min(256, max(min(common.NCPU, max(1, len(cases) // 8)), -(-len(cases) // 250)))
    arts = None
    # package and binary names are unique per (property, tier, workload, repo copy): all generated
    # crates share one target directory, where equally named binaries would overwrite each other
    pkg = re.sub(r"\W", "_", ("w_%s_%s_%s%s" % (ctx.pid, ctx.tier, name, common.repo_tag())).lower())
    while True:
        res.rounds += 1
        files, ranges = _layout(live, nshards, header, prelude, collect_warnings, binprefix=pkg)
        common.make_crate(cdir, pkg, files, dm_features=dm_features, extra_toml=extra_toml)
        rc, diags, arts, err = common.cargo_json(cdir, ("build", "--bins") if run else ("check", "--bins"), timeout=timeout, env=cargo_env)
        errors = [d for d in diags if d.get("level") == "error" and not d.get("message", "").startswith("aborting due to")
                  and not d.get("message", "").startswith("could not compile")]
        if collect_warnings:
            for d in diags:
                if d.get("level") == "warning" and "warning emitted" not in d.get("message", "") and "warnings emitted" not in d.get("message", ""):
                    for cid in _attribute(d, cdir, ranges) or {"#unattributed"}:
                        res.warnings.setdefault(cid, []).append(d)
        if rc == 0:
            break
        if not errors:
            raise Inconclusive("cargo failed without compiler errors for %s: %s" % (name, err[-2000:]))
        bad = set()
        for d in errors:
            who = _attribute(d, cdir, ranges)
            if not who:
                res.unattributed.append(common.diag_text(d))
            for cid in who:
                res.compile_errors.setdefault(cid, []).append(d)
                bad.add(cid)
        if not bad:
            raise Inconclusive("compile errors in %s could not be attributed to a case:\n%s" % (name, "\n".join(res.unattributed)[-3000:]))
        live = [c for c in live if c.id not in bad]
        if res.rounds >= max_rounds or not live:
            if live:
                raise Inconclusive("still failing to build %s after %d rounds" % (name, res.rounds))
            break
    res.n_bins = len(arts or {})
    if not run or not live:
        for c in live:
            res.events.setdefault(c.id, [])
        return res
    names = sorted(n for n in arts if n.startswith(pkg + "_"))
    out = common.run_bins(arts, names, os.path.join(cdir, "out"), env=env)
    for n, (rc, log, errtxt) in out.items():
        if not os.path.exists(log):
            raise Inconclusive("shard %s of %s produced no event log (rc=%s): %s" % (n, name, rc, errtxt[-500:]))
        evs = common.read_events(log)
        ended = any(e.get("kind") == "end" for e in evs)
        cur_open = None
        for e in evs:
            cid = e.get("case")
            if cid == "#end":
                continue
            res.events.setdefault(cid, []).append(e)
            if e.get("kind") == "begin":
                cur_open = cid
            elif e.get("kind") == "done":
                cur_open = None
        if rc != 0 or not ended:
            # the process died: the open case is the culprit, later ones did not run
            if cur_open is not None:
                res.events.setdefault(cur_open, []).append({"case": cur_open, "kind": "crash", "val": "process exit %s: %s" % (rc, errtxt[-300:])})
    for c in live:
        evs = res.events.get(c.id)
        if not evs or not any(e.get("kind") == "done" or e.get("kind") == "crash" for e in evs):
            res.not_run.add(c.id)
    return res


def err_text(diags, n=3):
    return "\n".join(common.diag_text(d) for d in diags[:n])[-2500:]


def check_cmp_events(ctx, cases, res, keyfn=None, known=None):
    """Generic oracle for got/want event logs: every planned event must be present and equal."""
    byid = {c.id: c for c in cases}
    for c in cases:
        if c.must_fail:
            continue
        ctx.count()
        if not c.trivial:
            ctx.cls(c.cls)
        if c.id in res.compile_errors:
            ctx.violate("compile:" + str(c.cls), "supported input does not compile (%s): %s" % (c.meta.get("what", c.id), err_text(res.compile_errors[c.id], 1)[:700]),
                        case=c.meta, items=c.items, errors=err_text(res.compile_errors[c.id]))
            continue
        if c.id in res.not_run:
            ctx.bump("cases_not_run")
            continue
        evs = res.events.get(c.id, [])
        ncmp = 0
        for e in evs:
            k = e.get("kind")
            if "got" in e and "want" in e:
                ncmp += 1
                ctx.bump("events_compared")
                if e["got"] != e["want"]:
                    key = keyfn(c, e) if keyfn else "mismatch:%s:%s" % (c.cls, e.get("kind"))
                    ctx.violate(key, "%s [%s]: got %r, reference %r" % (c.meta.get("what", c.id), e.get("kind"), e["got"][:300], e["want"][:300]),
                                case=c.meta, items=c.items, body=c.body, event=e)
            elif k in ("panic", "crash"):
                ctx.violate("panic:%s" % (c.cls,), "%s: generated program %s: %s" % (c.meta.get("what", c.id), k, e.get("val", "")[:300]),
                            case=c.meta, items=c.items, body=c.body, event=e)
            elif "val" in e:
                ncmp += 1
        if ncmp < c.expect and not any(e.get("kind") in ("panic", "crash") for e in evs):
            ctx.bump("cases_short_of_events")
    if ctx.extra.get("cases_not_run", 0) or ctx.extra.get("cases_short_of_events", 0):
        raise Inconclusive("some cases did not run to completion: not_run=%s short=%s" % (
            ctx.extra.get("cases_not_run", 0), ctx.extra.get("cases_short_of_events", 0)))


def build_negative(ctx, name, cases, prelude="", header=HEADER, timeout=3600, raw_files=None):
    """Compile every case as its OWN binary (its own rustc process), so that an error in one case
    cannot hide another case; returns {case id: [error diags]} (missing id = it compiled).
    `raw_files` maps case id -> complete source text (used for the repo's compile_fail corpus)."""
    cdir = os.path.join(ctx.workdir, name)
    pkg = re.sub(r"\W", "_", ("n_%s_%s_%s%s" % (ctx.pid, ctx.tier, name, common.repo_tag())).lower())
    files = {}
    ids = {}
    for c in cases:
        bn = "%s_%s" % (pkg, c.id)
        ids[bn] = c.id
        if raw_files and c.id in raw_files:
            files["src/bin/%s.rs" % bn] = raw_files[c.id]
        else:
            files["src/bin/%s.rs" % bn] = header + prelude + "\n" + c.items + "\nfn main() {}\n"
    common.make_crate(cdir, pkg, files)
    rc, diags, arts, err = common.cargo_json(cdir, ("check", "--bins", "--keep-going"), timeout=timeout)
    out = {}
    for d in diags:
        if d.get("level") != "error":
            continue
        m = d.get("message", "")
        if m.startswith("aborting due to") or m.startswith("could not compile"):
            continue
        cid = ids.get(d.get("_target"))
        if cid is None:
            continue
        out.setdefault(cid, []).append(d)
    if rc == 0 and out:
        raise Inconclusive("cargo reported success although errors were emitted")
    if rc != 0 and not out:
        raise Inconclusive("negative build of %s failed without attributable errors: %s" % (name, err[-1500:]))
    return out
