"""C16 - format arguments are split where Rust's expression grammar splits them.

Runtime monitor: a seeded grammar-based generator produces comma-separated expression lists; the
in-process harness runs derive_more's argument scanner (`crate::parsing::Expr`, the code used by
every `#[display("..", args)]`-style attribute) and, as reference, syn's full expression parser on
the same tokens; it also places the list into a real `#[display]` attribute and observes (a) whether
the positional index after the list resolves to the probe field (bound appears) and (b) whether the
argument tokens are re-emitted verbatim into the `write!` call.
"""
import re
from concurrent.futures import ProcessPoolExecutor

from . import common, inproc

IDENTS = ["a", "b", "c", "x", "y", "self_", "foo", "bar", "n", "_0", "_1", "field", "r#type", "T", "K", "V", "N"]
TYPES0 = ["u8", "i32", "usize", "f64", "T", "K", "V", "String", "Self", "()", "&'static str", "&T", "[u8; 4]", "(A, B)", "*const u8", "dyn Tr", "!"]
FIXED = [
    "ident", "[a, b, c, d]", "counter += 1", "async { fut.await }", "a < b", "a > b", "{ let x = (a, b); }", "invoke(a, b)",
    "foo as f64", "|a, b| a + b", "obj.k", "for pat in expr { break pat; }", "if expr { true } else { false }", "vector[2]", "1",
    "\"foo\"", "loop { break i; }", "format!(\"{}\", q)", "match n { Some(n) => {}, None => {} }", "x.foo::<T>(a, b)",
    "x.foo::<T<[T<T>; if a < b { 1 } else { 2 }]>, { a < b }>(a, b)", "(a + b)", "i32::MAX", "1..2", "&a", "[0u8; N]",
    "(a, b, c, d)", "<Ty as Trait>::T", "<Ty<Ty<T>, { a < b }> as Trait<T>>::T",
    # hostile additions
    "x as M<K, V>", "x as Vec<(A, B)>", "a | b", "a || b", "a | b | c", "|x| x | 1", "|| a | b", "move |a, b| (a, b)",
    "|a: M<K, V>, b| -> M<K, V> { a }", "f::<fn(A, B) -> C>()", "x.f::<fn(A) -> B, C>(d)", "a << b", "a >> b", "a >>= b", "a <<= 1",
    "a < b && c > d", "(a < b, c > d)", "a as u8 < b", "<T>::f(a, b)", "<[T; 2] as Tr<A, B>>::f", "Vec::<(A, B)>::new()",
    "S::<A, B> { a: 1, b }", "S { a, b }", "f(a)(b, c)", "x?.y(a, b)?", "x.await", "-a", "!a", "*a", "&mut a", "a..", "..b", "..=b", "..",
    "a == b", "a != b", "a <= b", "a >= b", "a - -b", "a & b", "a && b", "a ^ b", "a % b", "vec![a, b]", "m! { a, b }", "m![a; b]",
    "'x'", "b'x'", "1.5e3", "0xffu8", "r#\"a, b\"#", "b\"a,b\"", "x.0", "x.0.1", "t.1 as u8", "unsafe { f(a, b) }", "'l: loop { break 'l a; }",
    "while a < b { a += 1; }", "if let Some((a, b)) = x { a } else { b }", "match x { A | B => 1, _ => 2 }", "return", "break",
    "|(a, b): (u8, u8)| a", "|&x| x", "|x| |y| x + y", "|a| a < b", "f(|a, b| a, c)", "const { 1 + 2 }", "&raw const a", "a as *const M<K, V>",
    "<M<K, V>>::default()", "M::<K, V>::default()", "x.f::<{ N + 1 }>()", "f::<'static, T>(a)", "a = b", "a.b = c", "[a < b, c > d]",
    "x.iter().map(|v| v * 2).collect::<Vec<_>>()", "a as fn(u8, u8) -> u8", "x as <T as Tr>::Out", "(|| a)()", "a as u8 as u16",
    "a < (b as M<K, V>)", "x.f::<A>().g::<B, C>(d)", "a::b::<C, D>::e", "core::cmp::max::<u8>(a, b)",
]


class Gen:
    def __init__(self, rng):
        self.r = rng

    def ident(self):
        return self.r.choice(IDENTS)

    def ty(self, d=0):
        r = self.r
        k = r.randrange(10)
        if d > 2 or k < 4:
            return r.choice(TYPES0)
        if k == 4:
            return "M<%s, %s>" % (self.ty(d + 1), self.ty(d + 1))
        if k == 5:
            return "Vec<%s>" % self.ty(d + 1)
        if k == 6:
            return "(%s, %s)" % (self.ty(d + 1), self.ty(d + 1))
        if k == 7:
            return "fn(%s, %s) -> %s" % (self.ty(d + 1), self.ty(d + 1), self.ty(d + 1))
        if k == 8:
            return "<%s as Tr<%s, %s>>::Out" % (self.ty(d + 1), self.ty(d + 1), self.ty(d + 1))
        return "[%s; %s]" % (self.ty(d + 1), r.choice(["2", "N", "{ N + 1 }"]))

    def lit(self):
        return self.r.choice(["0", "1", "42u8", "1.5", "\"s\"", "\"a, b\"", "'c'", "','", "true", "b'x'", "r\"x,y\"", "0x1f", "1_000"])

    def atom(self, d):
        r = self.r
        k = r.randrange(12)
        if k < 4:
            return self.ident()
        if k < 6:
            return self.lit()
        if k == 6:
            return "%s::%s" % (r.choice(["i32", "core::u8", "Self", "crate::m"]), r.choice(["MAX", "MIN", "X"]))
        if k == 7:
            return "(%s)" % self.expr(d + 1)
        if k == 8:
            return "(%s, %s)" % (self.expr(d + 1), self.expr(d + 1))
        if k == 9:
            return "[%s, %s]" % (self.expr(d + 1), self.expr(d + 1))
        if k == 10:
            return "self.%s" % r.choice(["x", "0", "f"])
        return "<%s as Tr<%s, %s>>::C" % (self.ty(), self.ty(), self.ty())

    def expr(self, d=0):
        r = self.r
        if d >= 4:
            return self.atom(d)
        k = r.randrange(40)
        e = self.expr
        if k < 6:
            return self.atom(d)
        if k < 9:
            op = r.choice(["+", "-", "*", "/", "%", "^", "&", "|", "&&", "||", "<<", ">>", "==", "!=", "<", ">", "<=", ">="])
            left = self.operand(d + 1)
            right = self.operand(d + 1)
            return "%s %s %s" % (left, op, right)
        if k == 9:
            return "%s%s" % (r.choice(["-", "!", "*", "&", "&mut "]), self.operand(d + 1))
        if k == 10:
            return "%s(%s)" % (self.ident(), ", ".join(e(d + 1) for _ in range(r.randrange(0, 4))))
        if k == 11:
            return "%s.%s(%s)" % (self.postfix_base(d + 1), self.ident(), ", ".join(e(d + 1) for _ in range(r.randrange(0, 3))))
        if k == 12:
            return "%s.%s::<%s>(%s)" % (self.postfix_base(d + 1), self.ident(), ", ".join(self.ty() for _ in range(r.randrange(1, 4))),
                                        ", ".join(e(d + 1) for _ in range(r.randrange(0, 3))))
        if k == 13:
            return "%s::<%s>(%s)" % (r.choice(["f", "m::g", "Vec", "S::new"]), ", ".join(self.ty() for _ in range(r.randrange(1, 4))),
                                     ", ".join(e(d + 1) for _ in range(r.randrange(0, 3))))
        if k == 14:
            return "%s as %s" % (self.operand(d + 1), self.ty())
        if k == 15:
            return "<%s as Tr<%s>>::f(%s)" % (self.ty(), ", ".join(self.ty() for _ in range(r.randrange(1, 3))), e(d + 1))
        if k in (16, 17):
            # closures
            params = []
            for _ in range(r.randrange(0, 4)):
                p = r.choice(["a", "b", "_", "(p, q)", "&v", "mut z"])
                if r.random() < 0.4:
                    p += ": " + self.ty()
                params.append(p)
            head = ("move " if r.random() < 0.2 else "") + "|%s|" % ", ".join(params)
            if r.random() < 0.3:
                return "%s -> %s { %s }" % (head, self.ty(), e(d + 1))
            return "%s %s" % (head, e(d + 1))
        if k == 18:
            return r.choice(["%s..%s", "%s..=%s"]) % (self.operand(d + 1), self.operand(d + 1))
        if k == 19:
            return "{ let %s = (%s, %s); %s }" % (self.ident().replace("r#", "r"), e(d + 1), e(d + 1), e(d + 1))
        if k == 20:
            return "if %s { %s } else { %s }" % (self.cond(d + 1), e(d + 1), e(d + 1))
        if k == 21:
            return "match %s { Some(v) => %s, None => %s }" % (self.cond(d + 1), e(d + 1), e(d + 1))
        if k == 22:
            return "%s!(%s)" % (r.choice(["format", "vec", "m", "concat"]), ", ".join(e(d + 1) for _ in range(r.randrange(0, 3))))
        if k == 23:
            return "S%s { a: %s, b: %s }" % (r.choice(["", "::<A, B>"]), e(d + 1), e(d + 1))
        if k == 24:
            return "%s[%s]" % (self.postfix_base(d + 1), e(d + 1))
        if k == 25:
            return "%s%s" % (self.postfix_base(d + 1), r.choice(["?", ".await", ".0", ".field"]))
        if k == 26:
            return "[%s; %s]" % (e(d + 1), r.choice(["N", "4", "{ N }"]))
        if k == 27:
            return "loop { break %s; }" % e(d + 1)
        if k == 28:
            return "%s < %s" % (self.operand(d + 1), self.operand(d + 1))
        if k == 29:
            return "%s > %s" % (self.operand(d + 1), self.operand(d + 1))
        if k == 30:
            return "%s %s %s" % (self.operand(d + 1), r.choice(["<<", ">>", "|", "||"]), self.operand(d + 1))
        if k == 31:
            return "%s as %s" % (self.operand(d + 1), r.choice(["M<K, V>", "Vec<(A, B)>", "fn(A, B) -> C", "*const M<K, V>", "<T as Tr<A, B>>::Out"]))
        if k == 32:
            return "%s::<%s>::%s(%s)" % (r.choice(["M", "Vec", "a::B"]), ", ".join(self.ty() for _ in range(r.randrange(1, 3))), self.ident().replace("r#", ""), e(d + 1))
        if k == 33:
            return "x.f::<{ %s }, %s>(%s)" % (e(d + 1), self.ty(), e(d + 1))
        if k == 34:
            return "unsafe { %s }" % e(d + 1)
        if k == 35:
            return "(%s)(%s)" % (e(d + 1), e(d + 1))
        if k == 36:
            return "%s %s %s" % (self.ident(), r.choice(["=", "+=", "<<=", ">>=", "|=", "&="]), e(d + 1)) if d > 0 else "(%s += %s)" % (self.ident(), e(d + 1))
        if k == 37:
            return "for p in %s { %s; }" % (self.cond(d + 1), e(d + 1))
        if k == 38:
            return "async move { %s }" % e(d + 1)
        return r.choice(FIXED)

    def cond(self, d):
        # expression in a no-struct-literal position
        x = self.operand(d)
        return x

    def operand(self, d):
        # keep precedence simple: atoms, calls or parenthesised expressions
        r = self.r
        k = r.randrange(6)
        if k < 3:
            return self.atom(d)
        if k == 3:
            return "%s(%s)" % (self.ident(), ", ".join(self.expr(d + 1) for _ in range(r.randrange(0, 3))))
        if k == 4:
            return "(%s)" % self.expr(d + 1)
        return "%s.%s" % (self.ident(), r.choice(["x", "0", "len()"]))

    def postfix_base(self, d):
        r = self.r
        k = r.randrange(4)
        if k < 2:
            return self.ident()
        if k == 2:
            return "(%s)" % self.expr(d + 1)
        return "%s(%s)" % (self.ident(), self.expr(d + 1))

    def arglist(self):
        r = self.r
        n = r.choice((1, 1, 2, 2, 2, 3, 3, 4))
        parts = []
        for i in range(n):
            x = self.expr(0) if r.random() < 0.8 else r.choice(FIXED)
            if r.random() < 0.15:
                x = "%s = %s" % (r.choice(["n", "name", "al", "w"]) + str(i), x)
            parts.append(x)
        s = ", ".join(parts) if r.random() < 0.7 else ",".join(parts)
        if r.random() < 0.25:
            s += ","
        return s


def shape_of(src):
    s = re.sub(r'"[^"]*"|\'[^\']\'', "L", src)
    s = re.sub(r"\b[a-z_][a-z_0-9#]*\b", "i", s)
    s = re.sub(r"\b[A-Z][A-Za-z0-9]*\b", "T", s)
    s = re.sub(r"\d[\w.]*", "0", s)
    return re.sub(r"\s+", "", s)


def worker(args):
    idx, seed, count, fixed = args
    import random
    g = Gen(random.Random(seed * 1000003 + idx))
    lists = list(fixed)
    while len(lists) < count:
        lists.append(g.arglist())
    rc, outs, err, last = inproc.run_mode("args", [inproc.hexs(s) for s in lists])
    if rc != 0 or len(outs) != len(lists):
        return {"error": "args mode answered %d of %d (rc=%s, last=%r) %s" % (len(outs), len(lists), rc, last, err[-400:])}
    stats = {"lists": len(lists), "syn_rejected": 0, "compared": 0, "probe_checked": 0, "reemit_checked": 0, "multi_arg": 0}
    viol, classes, samples = [], set(), []
    for src, o in zip(lists, outs):
        k = o["kind"]
        if k in ("synreject", "lexerr"):
            stats["syn_rejected"] += 1
            continue
        if k == "panic":
            viol.append(("panic:" + o.get("msg", "")[:50], "argument scanner panicked on `%s`: %s" % (src, o.get("msg")), {"args": src, "panic": o}))
            continue
        stats["compared"] += 1
        want = o["want"]
        if len(want) > 1:
            stats["multi_arg"] += 1
        classes.add(shape_of(src))
        if k == "err":
            viol.append(("reject:" + shape_of(src)[:60], "derive_more cannot parse the argument list `%s` that Rust splits into %d expression(s): %s" % (src, len(want), o.get("msg")),
                         {"args": src, "outcome": o}))
            continue
        got = o["got"]
        # whitespace-insensitive: syn re-prints `x.0.1` as `x . 0 . 1` while the lexer keeps `0.1`
        if [g_[0].replace(" ", "") for g_ in got] != [w[0].replace(" ", "") for w in want]:
            flags = [f for f in o.get("flags", "").split(",") if f]
            if flags and o.get("snap") is not None and o["snap"] == got:
                # predicted by the recorded defect model: same wrong split as the frozen scanner,
                # on a list containing a catalogued construct
                stats["known_" + flags[0]] = stats.get("known_" + flags[0], 0) + 1
                viol.append(("known:" + flags[0], "`%s` is split by Rust into %s but by derive_more into %s" % (src, [w[0] for w in want], [g_[0] for g_ in got]),
                             {"args": src, "rust": want, "derive_more": got, "flags": flags}))
                continue
            viol.append(("split:" + shape_of(src)[:60], "`%s` is split by Rust into %s but by derive_more into %s" % (src, [w[0] for w in want], [g_[0] for g_ in got]),
                         {"args": src, "rust": want, "derive_more": got}))
            continue
        if [g_[1] for g_ in got] != [w[1] for w in want]:
            viol.append(("ident:" + shape_of(src)[:60], "`%s`: plain-identifier classification differs: Rust %s, derive_more %s" % (src, want, got),
                         {"args": src, "rust": want, "derive_more": got}))
            continue
        # end-to-end observations are meaningful only when no argument carries a `name =` alias
        # at top level that syn would read as an assignment (both agree on the split there).
        stats["probe_checked"] += 1
        if o["probe"] not in ("bound",):
            viol.append(("probe:" + shape_of(src)[:60], "`#[display(\"{%d:?}\", %s, __probe)]`: index %d does not reach the probe field (%s)" % (len(want), src, len(want), o["probe"]),
                         {"args": src, "outcome": o}))
            continue
        if o.get("alias") in ("differs", "panic"):
            viol.append(("alias-spacing:" + shape_of(src.split(",")[0])[:40], "`al=<expr>` and `al = <expr>` expand differently for the first argument of `%s` (%s)" % (src, o.get("alias")), {"args": src, "outcome": o}))
        elif o.get("alias") == "same":
            stats["alias_spacing_checked"] = stats.get("alias_spacing_checked", 0) + 1
        stats["reemit_checked"] += 1
        if o["reemit"] != "verbatim":
            viol.append(("reemit:" + shape_of(src)[:60], "arguments `%s` are not handed to write! token for token (%s)" % (src, o["reemit"]), {"args": src, "outcome": o}))
            continue
        if len(samples) < 2 and len(want) >= 3:
            samples.append({"args": src, "split": [w[0] for w in want]})
    return {"viol": viol, "stats": stats, "classes": classes, "samples": samples}


def run(ctx):
    inproc.build()
    total = ctx.pick(60000, 2000000)
    nparts = common.NCPU * (1 if ctx.quick() else 4)
    per = total // nparts
    # the fixed corpus: every expression alone, every ordered pair, with and without trailing comma
    fixed = list(FIXED)
    for a in FIXED:
        for b in ctx.rng.sample(FIXED, ctx.pick(6, 40)):
            fixed.append("%s, %s" % (a, b))
            fixed.append("%s,%s," % (b, a))
    fparts = common.chunks(fixed, nparts)
    while len(fparts) < nparts:
        fparts.append([])
    ctx.rule = ("seeded grammar-based generator of Rust expression lists (calls, turbofish, casts to generic types, qualified paths, closures with typed params and return types, "
                "</>/<</>>/|/|| operators, ranges, blocks, control flow, macros, struct literals; depth <= 4; 1-4 expressions; aliases; trailing comma) plus the unit-test corpus and hostile "
                "additions in singles and ordered pairs; distinct = distinct token shapes (identifiers, type names and literals abstracted) among lists syn accepts; a list of one bare identifier is trivial")
    ctx.assumptions += ["syn 2 with feature `full` parses expression lists exactly as rustc does for the generated forms"]
    with ProcessPoolExecutor(max_workers=common.NCPU) as ex:
        results = list(ex.map(worker, [(i, ctx.seed, per, fparts[i]) for i in range(nparts)]))
    for r in results:
        if "error" in r:
            raise common.Inconclusive(r["error"])
        for k, v in r["stats"].items():
            ctx.bump(k, v)
        for c in r["classes"]:
            if c != "i":
                ctx.cls(c)
        for s in r["samples"]:
            ctx.sample(s)
        for key, what, detail in r["viol"]:
            ctx.violate(key, what, **detail)
    ctx.count(ctx.extra.get("compared", 0))
    if ctx.extra.get("compared", 0) < total * 0.5:
        raise common.Inconclusive("syn rejected too many generated lists (%d of %d compared)" % (ctx.extra.get("compared", 0), total))
