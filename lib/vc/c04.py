"""C04 - inferred formatting bounds on generics are sufficient and not excessive.

Every case is built from an AST owned by the generator (type parameters, field types, format
attributes with their placeholders and arguments), so the generator knows - without parsing any
literal - which field is formatted under which trait.  The reference predicate set is the
documented rule (display.md / debug.md, "Generic data types" and "Custom trait bounds"):

    { field type : trait }  over formatted fields whose type mentions a type parameter
                            (trait named by the placeholder that refers to the field directly, by
                            position, or through a bare-identifier argument / alias of one; the
                            derived trait for implicit single-field delegation; `Debug` for
                            attribute-free fields of derive(Debug))
    + the user's `bound(...)` predicates (+ the where-clause written on the type itself).

Two observations (DESIGN.md section 4, C04):

  L1 (broad)    the where-clause of the in-process expansion (real working-tree sources) is parsed
                and compared AS A SET with the reference set.  Observed predicates that mention no
                type parameter (`u8: Display`) constrain nothing and are only counted.
  L2 (deciding) generated crates built with the real proc-macro and NO user bounds beyond the
                ones the property demands: they must compile; at run time
                `impls!(Foo<NoFmt, ..>: Trait)` is logged for assignments of `rt::NoFmt` to the type
                parameters next to the conjunction of the reference predicates evaluated by rustc
                itself on the same assignment, and a value is formatted and compared with plain
                `format!` / the std `Formatter::debug_*` builders using the same literal.
                A small second crate ("neg") holds inputs that must NOT compile (`{1}` with a single
                argument) and one or two fixed witnesses per known defect.

Known defects of the tree this monitor was written against (each is matched by a predictive model: the
observed where-clause must equal the reference minus exactly the predicates the defect drops, or the
fixed witness must fail with exactly the expected rustc error; anything else is an ordinary violation):
  known:display-enum-level-bound-dropped            `#[display(bound(..))]` on an enum is ignored (display.rs expand_enum)
  known:display-bound-without-own-format-dropped    `bound(..)` on a struct/variant without its own format is ignored
                                                    (display.rs generate_bounds chains the user bounds only in the `Some(attr)` arm)
  known:named-field-underscore-index                a NAMED field called `_0` gets no bound (mod.rs bounded_types treats `_<n>` as positional)
  known:debug-field-attr-on-concrete-field          derive(Debug): a field attribute on a parameter-free field that mentions a generic
                                                    field yields no bound (debug.rs generate_bounds returns early on the host field's type)
  known:ref-field-bound-captures-sibling            `&'a T: X` next to `T: X`: the body does not borrow-check (rustc resolves `&'_ T: X`
                                                    through the where-clause `&'a T: X`); compile-only, the where-clause is the documented one
"""
import itertools
import random
import re
from concurrent.futures import ProcessPoolExecutor

from . import common, inproc, l2
from .common import Inconclusive, rs_str
from .l2 import Case

ALL9 = ("Display", "Debug", "Binary", "Octal", "LowerHex", "UpperHex", "LowerExp", "UpperExp", "Pointer")
S_ALL = frozenset(ALL9)
S_INT = S_ALL - {"Pointer"}
S_DBG = frozenset(["Debug"])
S_TXT = frozenset(["Display", "Debug"])
ATTR = {"Display": "display", "Debug": "debug", "Binary": "binary", "Octal": "octal", "LowerHex": "lower_hex",
        "UpperHex": "upper_hex", "LowerExp": "lower_exp", "UpperExp": "upper_exp", "Pointer": "pointer"}
TYCH = {"Display": [""], "Debug": ["?", "?", "?", "x?", "X?"], "Binary": ["b"], "Octal": ["o"], "LowerHex": ["x"],
        "UpperHex": ["X"], "LowerExp": ["e"], "UpperExp": ["E"], "Pointer": ["p"]}
FMTPATH = "derive_more::core::fmt::"

# known defects of the unchanged tree (see the final report of the C04 monitor); every one is a
# predictive model: "these reference predicates, and only these, are absent"
D_BOUND_E = "known:display-enum-level-bound-dropped"
D_BOUND_C = "known:display-bound-without-own-format-dropped"
D_US0 = "known:named-field-underscore-index"
D_HOST = "known:debug-field-attr-on-concrete-field"
DEFECTS = (D_BOUND_E, D_BOUND_C, D_US0, D_HOST)
# sufficiency-only defect (the where-clause is the documented one, rustc then rejects the body)
D_REF = "known:ref-field-bound-captures-sibling"

# ---------------------------------------------------------------------------------------------
# field types

# name -> (template, traits a placeholder may use on it in a compiled case, usable in compiled cases)
GFORMS = {
    "bare": ("{P}", S_ALL, True),
    "ref": ("&'a {P}", S_ALL, True),
    "arr": ("[{P}; 2]", S_DBG, True),
    "arrn": ("[{P}; N]", S_DBG, True),
    "tup": ("({P}, u8)", S_DBG, True),
    "vec": ("Vec<{P}>", S_DBG, True),
    "optref": ("Option<&'a {P}>", S_DBG, True),
    "assoc": ("<{P} as Tr>::Assoc", S_ALL, True),
    "fnptr": ("fn({P}) -> u8", frozenset(["Debug", "Pointer"]), True),
    "fn2": ("fn({P}) -> {Q}", frozenset(["Debug", "Pointer"]), True),
    "fnret": ("fn(u8) -> {P}", frozenset(["Debug", "Pointer"]), True),
    "boxdyn": ("Box<dyn Tr2<{P}>>", frozenset(["Debug", "Display", "Pointer"]), True),
    "phantom": ("::core::marker::PhantomData<{P}>", S_DBG, True),
    # expansion-only forms (never compiled): the rest of the type grammar the property quantifies over
    "ptr": ("*const {P}", S_ALL, False),
    "slice": ("&'a [{P}]", S_ALL, False),
    "paren": ("({P})", S_ALL, False),
    "nested": ("Vec<Option<{P}>>", S_ALL, False),
    "box": ("Box<{P}>", S_ALL, False),
    "abs": ("::std::vec::Vec<{P}>", S_ALL, False),
    "map": ("::std::collections::HashMap<u8, {P}>", S_ALL, False),
    "dynfn": ("Box<dyn Fn({P}) -> u8>", S_ALL, False),
    "dynfnret": ("Box<dyn Fn(u8) -> {P}>", S_ALL, False),
    "proj": ("{P}::Assoc", S_ALL, False),
    "refmut": ("&'a mut {P}", S_ALL, False),
    "fnref": ("fn(&{P})", S_ALL, False),

    "dynplus": ("Box<dyn Tr2<{P}> + Send + 'a>", S_ALL, False),
    "assocbind": ("Box<dyn Iterator<Item = {P}>>", S_ALL, False),
    "nestassoc": ("Option<<{P} as Tr>::Assoc>", S_ALL, False),
    "tup3": ("(u8, ({P},), i32)", S_ALL, False),
    "two": ("Result<{P}, {Q}>", S_ALL, False),
    # a qualified path whose self type is concrete: the parameter occurs only in the trait's arguments
    "qselfargs": ("<u8 as TrG<{P}>>::Out", S_ALL, False),
    "qselfargs2": ("<Vec<u8> as TrG<Option<{P}>>>::Out", S_ALL, False),
    "qselfboth": ("<{P} as TrG<{Q}>>::Out", S_ALL, False),
    "pathargs": ("a::b::Wrap<u8, {P}>::Inner", S_ALL, False),
    "dynassoc": ("&'a dyn TrG<u8, Out = {P}>", S_ALL, False),
}
L2_FORMS = [k for k, v in GFORMS.items() if v[2]]
ALL_FORMS = list(GFORMS)
NEEDS_TR = ("assoc", "proj", "nestassoc")

# concrete (parameter-free) field types: (type, allowed traits, value expression)
CONCRETE = [
    ("u8", S_INT, "7u8"), ("i32", S_INT, "-17i32"), ("usize", S_INT, "3usize"), ("&'static str", frozenset(["Display", "Debug", "Pointer"]), "\"h\\u{e9}\""),
    ("f64", frozenset(["Display", "Debug", "LowerExp", "UpperExp"]), "2.5f64"), ("Spy", S_ALL, "Spy(77)"),
    ("Vec<u8>", S_DBG, "vec![1u8, 2]"), ("[u8; 2]", S_DBG, "[3u8, 4]"), ("(u8, i32)", S_DBG, "(5u8, -6i32)"),
    ("fn(u8) -> i32", frozenset(["Debug", "Pointer"]), "(never::<u8, i32> as fn(u8) -> i32)"),
    ("Box<dyn Tr2<u8>>", frozenset(["Debug", "Display", "Pointer"]), "(Box::new(Imp(8)) as Box<dyn Tr2<u8>>)"),
    ("::core::marker::PhantomData<u8>", S_DBG, "::core::marker::PhantomData"),
    ("<u8 as Tr>::Assoc", S_INT, "9u8"), ("Option<&'static u8>", S_DBG, "Some(&1u8)"),
]

# instantiation candidates for type parameters in compiled cases
CANDS = {
    "Spy": ("Spy", S_ALL, ["Spy(11)", "Spy(12)", "Spy(13)"]),
    "i32": ("i32", S_INT, ["-17i32", "305i32", "0i32"]),
    "f64": ("f64", frozenset(["Display", "Debug", "LowerExp", "UpperExp"]), ["2.5f64", "-0.125f64", "1e10f64"]),
    "str": ("&'static str", frozenset(["Display", "Debug", "Pointer"]), ["\"h\\u{e9}\"", "\"\"", "\"a b\""]),
    "String": ("String", S_TXT, ["String::from(\"s1\")", "String::from(\"\\n\")", "String::new()"]),
    "char": ("char", S_TXT, ["'c'", "'\\u{e9}'", "'\\''"]),
    "bool": ("bool", S_TXT, ["true", "false", "true"]),
}

PRELUDE = """
pub trait Tr { type Assoc; }
pub trait Tr2<T>: ::core::fmt::Debug + ::core::fmt::Display {}
pub trait Tr3 { fn id3(&self) -> u32; }
#[derive(Debug)]
pub struct Imp(pub u32);
impl ::core::fmt::Display for Imp {
    fn fmt(&self, f: &mut ::core::fmt::Formatter<'_>) -> ::core::fmt::Result { write!(f, "imp{}", self.0) }
}
impl<T> Tr2<T> for Imp {}
macro_rules! c04_impls { ($($t:ty),*) => {$(
    impl Tr for $t { type Assoc = $t; }
    impl Tr3 for $t { fn id3(&self) -> u32 { 3 } }
)*}; }
c04_impls!(Spy, NoFmt, u8, usize, i32, f64, &'static str, String, char, bool);
pub fn never<A, R>(_: A) -> R { loop {} }
pub fn leak<T>(t: T) -> &'static T { Box::leak(Box::new(t)) }
pub struct FnDbg<F: Fn(&mut ::core::fmt::Formatter<'_>) -> ::core::fmt::Result>(pub F);
impl<F: Fn(&mut ::core::fmt::Formatter<'_>) -> ::core::fmt::Result> ::core::fmt::Debug for FnDbg<F> {
    fn fmt(&self, f: &mut ::core::fmt::Formatter<'_>) -> ::core::fmt::Result { (self.0)(f) }
}
"""

NAMED_POOL = ["a", "b", "c", "x", "y", "field", "inner", "r#type", "r#struct", "r#true", "r#false", "w", "_f"]
ALIAS_POOL = ["al", "k", "q", "n1", "_z"]
TEXTS = ["", "", " ", "a", "{{", "}}", "\u00e9", ": ", "-", "{{}}"]


TOK_RE = re.compile(r"'\w+|\w+|::|->|=>|\S")


def toks(s):
    return TOK_RE.findall(s)


def norm(s):
    """Token text without insignificant whitespace (one blank between adjacent words/lifetimes)."""
    out = []
    prev_word = False
    for t in toks(s):
        w = t[0] == "'" or t[0].isalnum() or t[0] == "_"
        if w and prev_word:
            out.append(" ")
        out.append(t)
        prev_word = w
    return "".join(out)


class Fld:
    __slots__ = ("ident", "lname", "ty", "mentions", "form", "allowed", "cval", "fattr")

    def __init__(self, ident, ty, mentions, form, allowed, cval=None):
        self.ident = ident                    # identifier usable in argument expressions (`_0`, `r#type`)
        self.lname = ident[2:] if ident.startswith("r#") else ident   # name inside a literal
        self.ty = ty
        self.mentions = frozenset(mentions)
        self.form = form
        self.allowed = allowed
        self.cval = cval
        self.fattr = None                     # derive(Debug): None | "skip" | Fmt


def mk_type(rng, params, compiled, generic):
    if generic:
        form = rng.choice(L2_FORMS if compiled else ALL_FORMS)
        tmpl, allowed, _ = GFORMS[form]
        p = rng.choice(params)
        q = rng.choice(params)
        ty = tmpl.replace("{P}", p).replace("{Q}", q)
        m = {p} | ({q} if "{Q}" in tmpl else set())
        return ty, m, form, (allowed if compiled else S_ALL), None
    ty, allowed, val = rng.choice(CONCRETE)
    return ty, (), "conc", (allowed if compiled else S_ALL), val


def mk_fields(rng, params, compiled, named, n, min_generic=1, usize_p=0.25, names=None, us0=False):
    out = []
    pool = [x for x in NAMED_POOL if not (compiled and x in ("r#true", "r#false")) and not (names and x in names)]
    rng.shuffle(pool)
    gen_idx = set(rng.sample(range(n), min(n, max(min_generic, sum(rng.random() < 0.6 for _ in range(n))))))
    if us0:
        gen_idx.add(0)
    for i in range(n):
        if named:
            ident = names[i] if names and i < len(names) else pool.pop()
            if us0 and i == 0:
                ident = rng.choice(["_0", "_1", "_07"])
        else:
            ident = "_%d" % i
        if i in gen_idx:
            ty, m, form, allowed, val = mk_type(rng, params, compiled, True)
        elif rng.random() < usize_p:
            ty, m, form, allowed, val = "usize", (), "conc", (S_INT if compiled else S_ALL), "3usize"
        else:
            ty, m, form, allowed, val = mk_type(rng, params, compiled, False)
        out.append(Fld(ident, ty, m, form, allowed, val))
    return out


# ---------------------------------------------------------------------------------------------
# format attributes

class Arg:
    __slots__ = ("alias", "text", "kind", "fi", "allowed")

    def __init__(self, text, kind, fi, allowed, alias=None):
        self.alias, self.text, self.kind, self.fi, self.allowed = alias, text, kind, fi, allowed


class Fmt:
    """`"<lit>", <args>` plus what the generator knows about it."""
    __slots__ = ("lit", "args", "formatted", "need", "feat", "ptr_direct", "uses_variant")

    def __init__(self):
        self.lit = ""
        self.args = []           # Arg
        self.formatted = []      # (field index, trait, site)
        self.need = []           # field indices used through `.id3()` (user bound required)
        self.feat = set()
        self.ptr_direct = []     # field indices named directly in a `{name:p}` placeholder
        self.uses_variant = False

    def text(self):
        parts = [rs_str(self.lit)]
        for a in self.args:
            parts.append(("%s = %s" % (a.alias, a.text)) if a.alias else a.text)
        return ", ".join(parts)


def value_arg(rng, fields, targetable, compiled, allow_bound, variant_ok):
    """A new argument expression carrying a value to print."""
    r = rng.random()
    fi = rng.choice(targetable) if targetable else None
    if fi is not None and r < 0.62:
        f = fields[fi]
        return Arg(f.ident, "field", fi, f.allowed)
    if fi is not None and r < 0.74:
        return Arg("::core::mem::size_of_val(%s)" % fields[fi].ident, "free", fi, S_INT)
    if fi is not None and r < 0.86 and allow_bound and fields[fi].form in ("bare", "ref", "assoc", "conc"):
        f = fields[fi]
        if f.form != "conc" or f.ty in ("u8", "i32", "usize", "f64", "Spy", "&'static str"):
            return Arg("%s.id3()" % f.ident, "bound", fi, S_INT)
    if variant_ok and r < 0.93:
        return Arg("_variant", "variant", None, frozenset(["Display"]))
    k = rng.randrange(4)
    has_kw = [f for f in fields if f.lname in ("true", "false")]
    if has_kw and rng.random() < 0.8:
        return Arg(rng.choice(has_kw).lname, "lit", None, S_TXT)
    if k == 0:
        return Arg("42", "lit", None, S_INT)
    if k == 1:
        return Arg("\"txt\"", "lit", None, S_TXT)
    return Arg(rng.choice(["true", "false"]), "lit", None, S_TXT)


def usize_arg(rng, fields):
    us = [i for i, f in enumerate(fields) if f.ty == "usize"]
    if us and rng.random() < 0.6:
        i = rng.choice(us)
        if rng.random() < 0.7:
            return Arg(fields[i].ident, "usz", i, S_INT)
        return Arg("*" + fields[i].ident, "uszx", i, S_INT)
    return Arg(rng.choice(["3", "7", "0", "12"]), "uszl", None, S_INT)


def gen_fmt(rng, fields, compiled, targetable=None, prefer=None, allow_bound=True, variant=None, maxph=4, own=None):
    """variant: None | "must" (shared wrapping format: `{_variant}` is used at least once, and `_variant`
    may also be passed as an argument)."""
    fm = Fmt()
    n = len(fields)
    targetable = list(range(n)) if targetable is None else list(targetable)
    pick_pool = list(targetable) + (list(prefer) * 3 if prefer else [])
    gen_pool = [i for i in pick_pool if fields[i].mentions]
    # `{true}` would name a keyword inside a literal; such fields are only passed as arguments
    direct_pool = [i for i in pick_pool if fields[i].lname not in ("true", "false")]
    kinds_w = ["imp"] * 4 + ["exp"] * 2 + ["direct"] * 5 + ["alias"] * 2 + ["imp_star", "exp_star", "direct_star"]
    if not direct_pool:
        kinds_w = ["imp"] * 3 + ["exp", "alias", "imp_star"]
    kinds = [rng.choice(kinds_w) for _ in range(rng.randint(1, maxph))]
    # the literals people write most: one bare placeholder and nothing else (`"{_0}"`, `"{}"`, `"{x:?}"`);
    # these are the ones the derive turns into a direct `Trait::fmt` call
    simple = variant is None and rng.random() < 0.12
    if simple:
        kinds = [rng.choice([k for k in kinds_w if not k.endswith("_star")])]
        fm.feat.add("bare-literal")
    if variant == "must":
        kinds.insert(rng.randrange(len(kinds) + 1), "variant")

    def target_field(pool=None):
        pool = pool or pick_pool
        g = [i for i in pool if fields[i].mentions]
        return rng.choice(g if g and rng.random() < 0.75 else pool)

    def new_value(variant_ok=True):
        pool = [target_field()] if pick_pool else []
        return value_arg(rng, fields, pool, compiled, allow_bound, variant_ok and variant is not None)

    # pass 1: positional arguments consumed by the implicit counter, in order
    pos = []
    for k in kinds:
        if k == "imp":
            pos.append(new_value())
        elif k == "imp_star":
            pos.append(usize_arg(rng, fields))
            pos.append(new_value(False))
        elif k in ("exp_star", "direct_star"):
            pos.append(usize_arg(rng, fields))
    if any(k in ("exp", "exp_star") for k in kinds) and (not any(a.kind != "variant" for a in pos) or rng.random() < 0.5):
        pos.append(new_value(False))          # referenced explicitly only
    used = [False] * len(pos)
    named = []                           # aliased arguments, created on demand
    direct_used = set()                  # field names already written into the literal: an alias must not capture them

    def alias_for(arg_factory, want_usize=False):
        cands = [a for a in named if (a.kind in ("usz", "uszx", "uszl")) == want_usize]
        if cands and rng.random() < 0.4:
            return rng.choice(cands)
        taken = set(a.alias for a in named)
        names = [x for x in ALIAS_POOL if x not in taken]
        a = arg_factory()
        # an alias may shadow the name of a field (tests/display.rs: `#[display("{_0}", _0 = _1)]`)
        shadow = [f.lname for i, f in enumerate(fields) if i != a.fi and f.lname not in taken and f.lname not in direct_used
                  and not f.ident.startswith("r#")]
        if shadow and rng.random() < 0.2:
            a.alias = rng.choice(shadow)
            fm.feat.add("shadow")
        elif names:
            a.alias = rng.choice(names)
        else:
            a.alias = "al%d" % len(named)
        named.append(a)
        return a

    def count_ref():
        """text of a `$` count reference (argument index or name)"""
        r = rng.random()
        us = [i for i, f in enumerate(fields) if f.ty == "usize"]
        if r < 0.35:
            js = [j for j, a in enumerate(pos) if a.kind in ("usz", "uszx", "uszl")]
            if not js or rng.random() < 0.4:
                pos.append(usize_arg(rng, fields))
                used.append(True)
                js = [len(pos) - 1]
            j = rng.choice(js)
            used[j] = True
            fm.feat.add("$pos")
            return "%d$" % j
        if r < 0.65 and us:
            f = fields[rng.choice(us)]
            if not any(a.alias == f.lname for a in named) and not f.ident.startswith("r#"):
                fm.feat.add("$field")
                direct_used.add(f.lname)
                return "%s$" % f.lname
        a = alias_for(lambda: usize_arg(rng, fields), want_usize=True)
        fm.feat.add("$alias")
        return "%s$" % a.alias

    texts = [""] if simple else TEXTS
    pieces = [rng.choice(texts)]
    counter = 0
    for k in kinds:
        site = k
        star = k.endswith("_star")
        arg = None          # Arg the placeholder prints
        argtxt = ""
        if k == "variant":
            fm.uses_variant = True
            pieces.append("{_variant}")
            pieces.append(rng.choice(TEXTS))
            continue
        if star:
            used[counter] = True
            counter += 1
            fm.feat.add(".*")
        if k in ("imp", "imp_star"):
            arg = pos[counter]
            used[counter] = True
            counter += 1
            site = "implicit"
        elif k in ("exp", "exp_star"):
            js = [j for j in range(len(pos)) if not (star and pos[j].kind == "variant")]
            un = [j for j in js if not used[j] and j >= counter]
            j = rng.choice(un) if un and rng.random() < 0.7 else rng.choice(js)
            # arguments still waiting for the implicit counter may be referenced explicitly as well
            arg = pos[j]
            used[j] = True
            argtxt = str(j)
            site = "index"
        elif k in ("direct", "direct_star"):
            fi = target_field(direct_pool)
            f = fields[fi]
            sh = [a for a in named if a.alias == f.lname]
            if sh:
                arg = sh[0]          # the alias wins over the field of the same name
                site = "shadow"
            else:
                arg = Arg(f.ident, "field", fi, f.allowed)
                site = "direct"
                direct_used.add(f.lname)
            argtxt = f.lname
        elif k == "alias":
            arg = alias_for(lambda: new_value(False))
            argtxt = arg.alias
            site = "shadow" if any(f.lname == arg.alias for f in fields) else "alias"
        spec = ""
        if arg.kind == "variant":
            trait = "Display"            # `_variant` accepts no format specifiers
        else:
            allowed = sorted(arg.allowed) if (compiled or arg.kind != "field") else list(ALL9)
            trait = rng.choice(allowed)
            if simple and own in allowed and rng.random() < 0.5:
                trait = own
            if (rng.random() < 0.45 and not simple) or star:
                if rng.random() < 0.35:
                    spec += rng.choice(["<", "^", ">", "*<", "_>", "\u00e9^", "0>"])
                if rng.random() < 0.2:
                    spec += rng.choice(["+", "-"])
                if rng.random() < 0.2:
                    spec += "#"
                if rng.random() < 0.2:
                    spec += "0"
                w = rng.random()
                if w < 0.25:
                    spec += rng.choice(["5", "12", "1"])
                elif w < 0.5:
                    spec += count_ref()
                if star:
                    spec += ".*"
                else:
                    p = rng.random()
                    if p < 0.15:
                        spec += rng.choice([".3", ".0", ".10"])
                    elif p < 0.35:
                        spec += "." + count_ref()
            spec += rng.choice(TYCH[trait])
        ws = ""
        if arg.kind != "variant" and not simple and rng.random() < 0.12 and (argtxt or spec):
            ws = rng.choice([" ", "  ", "\t"])
            fm.feat.add("ws")
        colon = ":" + spec if (spec or (arg.kind != "variant" and rng.random() < 0.1)) else ""
        pieces.append("{" + argtxt + colon + ws + "}")
        pieces.append(rng.choice(texts))
        if arg.kind == "field":
            fm.formatted.append((arg.fi, trait, site))
        elif arg.kind == "variant":
            fm.uses_variant = True
        fm.feat.add(site)
        fm.feat.add("t:" + ("Display" if trait == "Display" else "Debug" if trait == "Debug" else "Pointer" if trait == "Pointer" else "num"))
    # every positional argument must be used (std rejects unused ones): print the leftovers
    for j, a in enumerate(pos):
        if not used[j]:
            trait = rng.choice(sorted(a.allowed)) if (compiled or a.kind != "field") else rng.choice(ALL9)
            if a.kind == "variant":
                trait = "Display"
                fm.uses_variant = True
            pieces.append("{%d%s}" % (j, (":" + rng.choice(TYCH[trait])) if trait != "Display" else ""))
            if a.kind == "field":
                fm.formatted.append((a.fi, trait, "index"))
            fm.feat.add("index")
    fm.lit = "".join(pieces)
    fm.args = pos + named
    for a in fm.args:
        if a.kind == "bound":
            fm.need.append(a.fi)
            fm.feat.add("expr-bound")
        elif a.kind == "free":
            fm.feat.add("expr-free")
        elif a.kind == "lit" and a.text in ("true", "false"):
            fm.feat.add("kw")
    return fm


def fix_shadowing(fm, fields):
    """Direct placeholders recorded before an alias of the same name was created really resolve to the
    alias (std and the derive agree: a named argument wins).  Recompute `formatted` for them."""
    al = {a.alias: a for a in fm.args if a.alias}
    out = []
    ptr = []
    for (fi, tr, site) in fm.formatted:
        if site == "direct" and fields[fi].lname in al:
            a = al[fields[fi].lname]
            if a.kind == "field":
                out.append((a.fi, tr, "shadow"))
            continue
        out.append((fi, tr, site))
        if site == "direct" and tr == "Pointer":
            ptr.append(fi)
    fm.formatted = out
    fm.ptr_direct = ptr


# ---------------------------------------------------------------------------------------------
# items

class Cont:
    """A struct body or an enum variant."""
    __slots__ = ("name", "kind", "fields", "fmt", "bounds", "bound_first")

    def __init__(self, name, kind, fields):
        self.name, self.kind, self.fields = name, kind, fields
        self.fmt = None
        self.bounds = []      # [(lhs, rhs)] user predicates attached here
        self.bound_first = False


class Item:
    __slots__ = ("derive", "is_enum", "conts", "shared", "shared_mode", "ebounds", "decl_where", "inline", "params",
                 "lifetime", "constn", "preds", "feat", "compiled", "common")

    def __init__(self):
        self.conts = []
        self.shared = None
        self.shared_mode = "none"
        self.ebounds = []
        self.decl_where = []
        self.inline = {}
        self.preds = {}
        self.feat = set()
        self.common = 0


def bound_attrs(attr, bounds, rng):
    if not bounds:
        return []
    kw = rng.choice(["bound", "bound", "bounds"])
    if len(bounds) > 1 and rng.random() < 0.4:
        return ["#[%s(%s(%s))]" % (attr, kw, "%s: %s" % b) for b in bounds]
    return ["#[%s(%s(%s))]" % (attr, kw, ", ".join("%s: %s" % b for b in bounds))]


def render(it, rng, with_derive):
    attr = ATTR[it.derive]
    lines = []
    if with_derive:
        lines.append("#[derive(derive_more::%s)]" % it.derive)

    def cont_attrs(c):
        a = []
        if c.fmt is not None:
            a.append("#[%s(%s)]" % (attr, c.fmt.text()))
        b = bound_attrs(attr, c.bounds, rng)
        return (b + a) if c.bound_first else (a + b)

    def body(c):
        vis = "" if it.is_enum else "pub "
        fs = []
        for f in c.fields:
            pre = ""
            if f.fattr == "skip":
                pre = "#[debug(%s)] " % rng.choice(["skip", "skip", "ignore"])
            elif f.fattr is not None:
                pre = "#[debug(%s)] " % f.fattr.text()
            fs.append(pre + vis + (("%s: %s" % (f.ident, f.ty)) if c.kind == "named" else f.ty))
        if c.kind == "named":
            return " { %s }" % ", ".join(fs)
        if c.kind == "tuple":
            return "(%s)" % ", ".join(fs)
        return ""

    gens = []
    if it.lifetime:
        gens.append("'a")
    for p in it.params:
        gens.append(p + (": " + it.inline[p] if p in it.inline else ""))
    if it.constn:
        gens.append("const N: usize")
    g = "<%s>" % ", ".join(gens) if gens else ""
    wh = (" where %s" % ", ".join("%s: %s" % w for w in it.decl_where)) if it.decl_where else ""
    if not it.is_enum:
        c = it.conts[0]
        lines += cont_attrs(c)
        b = body(c)
        if c.kind == "named":
            lines.append("pub struct S%s%s%s" % (g, wh, b))
        else:
            lines.append("pub struct S%s%s%s;" % (g, b, wh))
    else:
        ea = []
        if it.shared is not None:
            ea.append("#[%s(%s)]" % (attr, it.shared.text()))
        eb = bound_attrs(attr, it.ebounds, rng)
        lines += (eb + ea) if rng.random() < 0.5 else (ea + eb)
        vs = []
        for c in it.conts:
            vs.append(" ".join(cont_attrs(c) + [c.name + body(c)]))
        lines.append("pub enum E%s%s { %s }" % (g, wh, ", ".join(vs)))
    return "\n".join(lines)


def add_pred(it, lhs, rhs, origin, site, fmt):
    k = (norm(lhs), norm(rhs))
    e = it.preds.setdefault(k, {"origins": set(), "sites": set(), "src": (lhs, rhs), "fmt": fmt})
    e["origins"].add(origin)
    e["sites"].add(site)


# Set to True if the derive is changed to bound the referent of a reference field (`T: Display` instead of
# `&'a T: Display`; equivalent for every trait but Pointer and the obvious repair of D_REF).  The documented
# form (display.md/debug.md list `&'a T1: Pointer`, `Vec<T3>: Debug`) is the field type itself.
PEEL_REFS = False


def add_bound(it, ty, trait, origin, site):
    if PEEL_REFS and trait != "Pointer":
        while True:
            m = re.match(r"^&\s*(?:'\w+\s+)?(?:mut\s+)?(.*)$", ty)
            if not m:
                break
            ty = m.group(1)
    add_pred(it, ty, FMTPATH + trait, origin, site, True)


def add_fmt_preds(it, c, fm, fields, origin, sitepfx, fieldmap=None):
    """Reference predicates of one format attribute interpreted over `fields`."""
    for x in fm.feat:
        if x in (".*", "ws", "shadow", "kw", "expr-bound", "expr-free", "bare-literal"):
            it.feat.add(x)
        elif x.startswith("$"):
            it.feat.add("$")
    for (fi, tr, site) in fm.formatted:
        f = fields[fieldmap[fi]] if fieldmap is not None else fields[fi]
        if not f.mentions:
            continue
        o = origin
        if o == "ok" and c.kind == "named" and re.match(r"^_\d+$", f.lname):
            o = D_US0
        add_bound(it, f.ty, tr, o, sitepfx + site)


def finish_generics(it, rng):
    tys = [f.ty for c in it.conts for f in c.fields]
    mentioned = set()
    for c in it.conts:
        for f in c.fields:
            mentioned |= f.mentions
    it.params = sorted(mentioned)
    it.lifetime = any("'a" in t for t in tys)
    it.constn = any(re.search(r"\bN\b", t) for t in tys)
    need_tr = set()
    for c in it.conts:
        for f in c.fields:
            if f.form in NEEDS_TR:
                need_tr |= set(re.findall(r"\bT\d\b", f.ty.split(" as ")[0] if " as " in f.ty else f.ty.split("::")[0]))
    for p in sorted(need_tr):
        if rng.random() < 0.6:
            it.inline[p] = "Tr"
        else:
            it.decl_where.append((p, "Tr"))
            add_pred(it, p, "Tr", "ok", "declared-where", False)


def user_bounds_for(rng, fm_list_fields, compiled):
    """[(lhs, rhs)] required by `.id3()` expressions: the parameter (or the projection) gets `Tr3`."""
    out = []
    for fm, fields in fm_list_fields:
        for fi in fm.need:
            f = fields[fi]
            if not f.mentions:
                continue
            if f.form == "assoc":
                b = (f.ty, "Tr3")
            else:
                b = (sorted(f.mentions)[0], "Tr3")
            if b not in out:
                out.append(b)
    return out


def extra_bound(rng, params):
    p = rng.choice(params)
    return (p, rng.choice(["Tr3", "::core::fmt::Debug", "Clone", "::core::fmt::Display + Clone", "Tr3"]))


def gen_display_item(rng, derive, compiled, defect=None):
    it = Item()
    it.derive = derive
    it.compiled = compiled
    params = ["T0", "T1", "T2", "T3"][:rng.randint(1, 4)]
    it.is_enum = rng.random() < 0.5
    allow_unit = derive == "Display"
    if not it.is_enum:
        named = rng.random() < 0.5
        if rng.random() < 0.15 and defect != D_US0:
            # implicit single-field delegation
            fields = mk_fields(rng, params, compiled, named, 1, usize_p=0)
            if compiled and derive not in fields[0].allowed:
                fields[0] = Fld(fields[0].ident, "T0", {"T0"}, "bare", S_ALL)
            c = Cont("S", "named" if named else "tuple", fields)
            it.conts = [c]
            f = fields[0]
            if f.mentions:
                add_bound(it, f.ty, derive, "ok", "delegate")
            it.feat.add("delegate")
            if defect == D_BOUND_C:
                c.bounds = [extra_bound(rng, sorted(f.mentions) or ["T0"])] if f.mentions else []
                for b in c.bounds:
                    add_pred(it, b[0], b[1], D_BOUND_C, "user-bound", "fmt::" in b[1])
        else:
            n = rng.randint(1, 4)
            fields = mk_fields(rng, params, compiled, named, n, us0=(defect == D_US0 and named))
            c = Cont("S", "named" if named else "tuple", fields)
            tg = None
            if defect == D_US0 and named:
                tg = [0]
            c.fmt = gen_fmt(rng, fields, compiled, targetable=tg, own=derive)
            fix_shadowing(c.fmt, fields)
            it.conts = [c]
            add_fmt_preds(it, c, c.fmt, fields, "ok", "")
            c.bounds = user_bounds_for(rng, [(c.fmt, fields)], compiled)
            ps = sorted(set().union(*[f.mentions for f in fields]))
            if rng.random() < 0.25 and ps:
                c.bounds.append(extra_bound(rng, ps))
            c.bound_first = rng.random() < 0.5
            for b in c.bounds:
                add_pred(it, b[0], b[1], "ok", "user-bound", "fmt::" in b[1])
            it.feat.add("struct-fmt")
    else:
        mode = rng.choice(["none", "none", "default", "default", "wrap", "wrap", "transp"])
        it.shared_mode = mode
        nv = rng.randint(1, 4)
        style = rng.choice(["tuple", "named"])
        ncommon = 0
        if mode == "default":
            ncommon = rng.choice([0, 1, 1, 2])
        elif mode == "wrap":
            ncommon = rng.choice([0, 1, 1])
        it.common = ncommon
        common_names = ["x", "y"][:ncommon]
        conts = []
        for vi in range(nv):
            own = rng.random() < (0.5 if mode != "none" else 0.7)
            if mode == "default" and vi == 0:
                own = False           # at least one variant takes the shared format
            if mode in ("none", "transp", "wrap"):
                applies = mode == "wrap"
                if own:
                    n = rng.randint(max(1, ncommon) if applies else 0, 3)
                else:
                    n = 1 if (ncommon or not allow_unit or rng.random() < 0.7) else 0
            else:
                applies = not own
                if own:
                    n = rng.randint(0, 3)
                else:
                    n = rng.randint(max(ncommon, 0 if allow_unit else 1), 3)
                    if n == 0 and not allow_unit:
                        n = 1
            kind = style if (applies or rng.random() < 0.5) else rng.choice(["tuple", "named"])
            if n == 0:
                kind = rng.choice(["unit", "unit", "tuple", "named"]) if own else "unit"
            fields = mk_fields(rng, params, compiled, kind == "named", n, min_generic=1 if n else 0,
                               names=common_names if applies else None) if n else []
            c = Cont("V%d" % vi, kind, fields)
            if own:
                if n == 0 and kind == "unit" and rng.random() < 0.5:
                    c.fmt = Fmt()
                    c.fmt.lit = rng.choice(["unit", "u {{}}", ""])
                else:
                    c.fmt = gen_fmt(rng, fields, compiled, maxph=3, own=derive)
                    fix_shadowing(c.fmt, fields)
                add_fmt_preds(it, c, c.fmt, fields, "ok", "variant:")
                c.bounds = user_bounds_for(rng, [(c.fmt, fields)], compiled)
                ps = sorted(set().union(*[f.mentions for f in fields])) if fields else []
                if rng.random() < 0.15 and ps:
                    c.bounds.append(extra_bound(rng, ps))
                c.bound_first = rng.random() < 0.5
                for b in c.bounds:
                    add_pred(it, b[0], b[1], "ok", "user-bound", "fmt::" in b[1])
            elif mode != "default":
                if n == 1 and fields[0].mentions:
                    if compiled and derive not in fields[0].allowed:
                        fields[0] = Fld(fields[0].ident, "T0", {"T0"}, "bare", S_ALL)
                    add_bound(it, fields[0].ty, derive, "ok", "variant-delegate")
            conts.append((c, applies))
        it.conts = [c for c, _ in conts]
        if not any(f.mentions for c in it.conts for f in c.fields):
            return gen_display_item(rng, derive, compiled, defect)
        if mode != "none":
            app = [c for c, a in conts if a]
            if mode == "transp":
                it.shared = Fmt()
                it.shared.lit = "{_variant}"
                it.shared.uses_variant = True
            else:
                pseudo = []
                for i in range(ncommon):
                    allowed = S_ALL
                    for c in app:
                        allowed = allowed & c.fields[i].allowed
                    ident = common_names[i] if style == "named" else "_%d" % i
                    pseudo.append(Fld(ident, "?", {"?"}, "pseudo", allowed if compiled else S_ALL))
                it.shared = gen_fmt(rng, pseudo, compiled, allow_bound=False, variant=("must" if mode == "wrap" else None), maxph=3, own=derive)
                fix_shadowing(it.shared, pseudo)
                for c in app:
                    add_fmt_preds(it, c, it.shared, c.fields, "ok", "shared-%s:" % mode, fieldmap=list(range(ncommon)))
            it.feat.add("shared-" + mode)
        if defect == D_BOUND_E:
            ps = sorted(set().union(*[f.mentions for c in it.conts for f in c.fields]))
            it.ebounds = [extra_bound(rng, ps)]
            for b in it.ebounds:
                add_pred(it, b[0], b[1], D_BOUND_E, "user-bound", "fmt::" in b[1])
        elif defect == D_BOUND_C:
            cs = [c for c in it.conts if c.fmt is None and c.fields and any(f.mentions for f in c.fields)]
            if cs:
                c = rng.choice(cs)
                c.bounds = [extra_bound(rng, sorted(set().union(*[f.mentions for f in c.fields])))]
                for b in c.bounds:
                    add_pred(it, b[0], b[1], D_BOUND_C, "user-bound", "fmt::" in b[1])
        it.feat.add("enum")
    finish_generics(it, rng)
    return it


def gen_debug_item(rng, compiled, defect=None):
    it = Item()
    it.derive = "Debug"
    it.compiled = compiled
    params = ["T0", "T1", "T2", "T3"][:rng.randint(1, 4)]
    it.is_enum = rng.random() < 0.5
    nv = rng.randint(1, 4) if it.is_enum else 1
    allfm = []
    for vi in range(nv):
        n = rng.randint(1, 4) if (vi == 0 or rng.random() < 0.85) else 0
        kind = rng.choice(["tuple", "named"]) if n else "unit"
        fields = mk_fields(rng, params, compiled, kind == "named", n, min_generic=1 if vi == 0 else 0,
                           us0=(defect == D_US0 and kind == "named" and vi == 0)) if n else []
        c = Cont("V%d" % vi if it.is_enum else "S", kind, fields)
        it.conts.append(c)
        if not n:
            continue
        if rng.random() < 0.25:
            tg = [0] if (defect == D_US0 and kind == "named" and vi == 0) else None
            c.fmt = gen_fmt(rng, fields, compiled, targetable=tg, own="Debug")
            fix_shadowing(c.fmt, fields)
            add_fmt_preds(it, c, c.fmt, fields, "ok", "container:")
            allfm.append((c.fmt, fields))
            it.feat.add("container-fmt")
            continue
        conc = [i for i, f in enumerate(fields) if not f.mentions]
        for i, f in enumerate(fields):
            r = rng.random()
            if r < 0.2:
                f.fattr = "skip"
                it.feat.add("skip")
            elif r < 0.5:
                if f.mentions:
                    fm = gen_fmt(rng, fields, compiled, prefer=[i], maxph=3)
                    origin = "ok"
                    it.feat.add("field-fmt")
                elif defect == D_HOST and vi == 0 and any(g.mentions for g in fields):
                    gi = [j for j, g in enumerate(fields) if g.mentions]
                    fm = gen_fmt(rng, fields, compiled, targetable=gi, maxph=2)
                    origin = D_HOST
                else:
                    fm = gen_fmt(rng, fields, compiled, targetable=conc, prefer=[i], maxph=2)
                    origin = "ok"
                    it.feat.add("field-fmt-concrete")
                fix_shadowing(fm, fields)
                f.fattr = fm
                add_fmt_preds(it, c, fm, fields, origin, "field:")
                allfm.append((fm, fields))
            elif f.mentions:
                add_bound(it, f.ty, "Debug", "ok", "field-default")
                it.feat.add("field-default")
    if not any(f.mentions for c in it.conts for f in c.fields):
        return gen_debug_item(rng, compiled, defect)
    ub = user_bounds_for(rng, allfm, compiled)
    ps = sorted(set().union(*[f.mentions for c in it.conts for f in c.fields]))
    if rng.random() < 0.25:
        ub.append(extra_bound(rng, ps))
    if it.is_enum:
        it.ebounds = ub
    else:
        it.conts[0].bounds = ub
        it.conts[0].bound_first = rng.random() < 0.5
    for b in ub:
        add_pred(it, b[0], b[1], "ok", "user-bound", "fmt::" in b[1])
    it.feat.add("enum" if it.is_enum else "struct")
    finish_generics(it, rng)
    return it


def gen_item(rng, compiled, defect=None):
    if defect == D_HOST:
        derive = "Debug"
    elif defect in (D_BOUND_E, D_BOUND_C):
        derive = rng.choice([d for d in ALL9 if d != "Debug"])
    else:
        derive = rng.choice(ALL9 + ("Display", "Display", "Debug", "Debug", "Debug"))
    for _ in range(50):
        it = gen_debug_item(rng, compiled, defect) if derive == "Debug" else gen_display_item(rng, derive, compiled, defect)
        if compiled and ref_hazard(it):
            continue
        if defect is None or any(defect in e["origins"] for e in it.preds.values()):
            return it
    if compiled and ref_hazard(it):
        raise Inconclusive("generator: could not avoid the &'a T / T combination")
    return it


def ref_hazard(it):
    """`&'a P: X` next to `P: X`: rustc resolves the sibling's `&'_ P: X` obligation through the where-clause
    `&'a P: X` instead of std's `impl X for &T` and demands `'_: 'a` (known defect D_REF)."""
    for (lhs, rhs), e in it.preds.items():
        m = re.match(r"^&'a (T\d)$", e["src"][0])
        if m and (m.group(1), rhs) in it.preds:
            return True
    return False


def item_class(it):
    sites = sorted(set(s.split(":")[-1] for e in it.preds.values() for s in e["sites"]))
    feats = sorted(f for f in it.feat if not f.startswith("t:") and f not in sites)
    d = it.derive if it.derive in ("Display", "Debug", "Pointer") else "NumLike"
    return (d, "enum:" + it.shared_mode if it.is_enum else "struct", tuple(sites), tuple(feats))


def pred_classes(it):
    """(derive kind, field type form, site, trait kind) of every reference predicate."""
    d = it.derive if it.derive in ("Display", "Debug", "Pointer") else "NumLike"
    forms = {}
    for c in it.conts:
        for f in c.fields:
            forms[norm(f.ty)] = f.form
    out = set()
    for (lhs, rhs), e in it.preds.items():
        tr = rhs.rsplit("::", 1)[-1] if e["fmt"] else "user"
        tk = tr if tr in ("Display", "Debug", "Pointer", "user") else "num"
        for sfull in e["sites"]:
            out.add((d, forms.get(lhs, "bound"), sfull.split(":")[-1], tk))
    return out


# ---------------------------------------------------------------------------------------------
# L1: where-clause of the in-process expansion

def split_top(tokens, sep):
    out, cur, depth = [], [], 0
    for t in tokens:
        if t in ("<", "(", "["):
            depth += 1
        elif t in (">", ")", "]"):
            depth -= 1
        if t == sep and depth == 0:
            out.append(cur)
            cur = []
        else:
            cur.append(t)
    if cur:
        out.append(cur)
    return out


def where_set(tokens):
    """{(lhs, rhs)} (normalised token text) of the impl's where-clause, or None when the header is not understood."""
    head = tokens.split(" { ", 1)[0]
    if " for " not in head:
        return None
    if " where " not in head:
        return set()
    w = toks(head.split(" where ", 1)[1])
    res = set()
    for p in split_top(w, ","):
        if not p:
            continue
        parts = split_top(p, ":")
        if len(parts) < 2:
            return None
        res.add((norm(" ".join(parts[0])), norm(" : ".join(" ".join(x) for x in parts[1:]))))
    return res


FMT_TRAIT_PATH_RE = re.compile(r"(?<![\w:])(?:::)?(?:\w+::)*fmt::(Display|Debug|Binary|Octal|LowerHex|UpperHex|LowerExp|UpperExp|Pointer)\b")


def canon_pred(p):
    """The path by which an expansion names a std formatting trait is not part of the property (`::core::fmt::Display`,
    `derive_more::core::fmt::Display`, ... denote the same trait): all are rewritten to one spelling before comparing."""
    return (p[0], FMT_TRAIT_PATH_RE.sub(lambda m: FMTPATH + m.group(1), p[1]))


def judge_where(it, have):
    """Compares observed predicates with the reference; returns (verdict, detail).
    verdict: "ok" | ("known", [keys]) | ("bad", key, missing, excess)"""
    ref = set(it.preds)
    obs = set()
    concrete = 0
    for (lhs, rhs) in have:
        if re.search(r"\bT\d\b", lhs):
            obs.add((lhs, rhs))
        else:
            concrete += 1
    if obs == ref or set(map(canon_pred, obs)) == set(map(canon_pred, ref)):
        return "ok", concrete, None
    present = sorted(set(o for e in it.preds.values() for o in e["origins"] if o != "ok"))
    for r in range(1, len(present) + 1):
        for xs in itertools.combinations(present, r):
            dropped = set(k for k, e in it.preds.items() if e["origins"] <= set(xs))
            if dropped and obs == ref - dropped:
                return "known", concrete, list(xs)
    missing = sorted(ref - obs)
    excess = sorted(obs - ref)
    sites = sorted(set(s for k in missing for s in it.preds[k]["sites"]))
    d = "Debug" if it.derive == "Debug" else "Display-like"
    if missing and not excess:
        key = "where:%s:missing:%s" % (d, ",".join(sites))
    elif excess and not missing:
        key = "where:%s:excess:%s" % (d, "enum:" + it.shared_mode if it.is_enum else "struct")
    else:
        key = "where:%s:differs:%s" % (d, ",".join(sites))
    return "bad", concrete, (key, missing, excess)


def l1_worker(args):
    idx, n, seed, defect_rate = args
    rng = random.Random(seed * 104729 + idx * 31 + 7)
    items = []
    for i in range(n):
        r = rng.random()
        defect = None
        if r < defect_rate:
            defect = DEFECTS[i % len(DEFECTS)]
        it = gen_item(rng, False, defect)
        items.append((it, render(it, rng, False)))
    return l1_eval(items, "w%d" % idx)


def l1_eval(items, tag):
    stats = {"l1_cases": len(items), "l1_predicates_expected": 0, "l1_concrete_predicates_observed": 0, "l1_known_hits": 0,
             "l1_no_bound_expected": 0}
    viol, classes, samples = [], set(), []
    lines = ["%s.%d\t%s\t%s" % (tag, i, it.derive, inproc.hexs(src)) for i, (it, src) in enumerate(items)]
    rc, outs, err, last = inproc.run_mode("expand", lines)
    got = {o["id"]: o for o in outs}
    if len(got) != len(items):
        return {"error": "expand answered %d of %d (rc=%s, last=%r, %s)" % (len(got), len(items), rc, last, err[-400:])}
    for i, (it, src) in enumerate(items):
        g = got["%s.%d" % (tag, i)]
        classes.add(item_class(it))
        classes |= pred_classes(it)
        stats["l1_predicates_expected"] += len(it.preds)
        if not any(e["fmt"] for e in it.preds.values()):
            stats["l1_no_bound_expected"] += 1
        refl = sorted("%s: %s" % e["src"] for e in it.preds.values())
        if g["kind"] != "ok":
            viol.append(("expand:%s:%s" % (g["kind"], re.sub(r"`[^`]*`", "`_`", g.get("msg", ""))[:60]),
                         "supported generic item is not expanded (%s): %s\n%s" % (g["kind"], g.get("msg", "")[:300], src),
                         {"item": src, "derive": it.derive, "outcome": g, "reference": refl}))
            continue
        have = where_set(g["tokens"])
        if have is None:
            return {"error": "cannot read the where-clause of an expansion: %s" % g["tokens"][:400]}
        verdict, concrete, d = judge_where(it, have)
        stats["l1_concrete_predicates_observed"] += concrete
        obs = sorted("%s: %s" % h for h in have)
        if verdict == "known":
            stats["l1_known_hits"] += 1
            for k in d:
                viol.append((k, "derive(%s): where-clause lacks exactly the predicates the known defect drops; expected %s, observed %s for\n%s" % (
                    it.derive, refl, obs, src), {"item": src, "derive": it.derive, "reference": refl, "observed": obs}))
        elif verdict == "bad":
            key, missing, excess = d
            viol.append((key, "derive(%s): where-clause differs from the documented rule: missing %s, excess %s (expected %s, observed %s) for\n%s" % (
                it.derive, ["%s: %s" % m for m in missing], ["%s: %s" % m for m in excess], refl, obs, src),
                {"item": src, "derive": it.derive, "reference": refl, "observed": obs, "expansion": g["tokens"]}))
        elif len(samples) < 2 and len(it.preds) >= 2:
            samples.append({"layer": "L1", "derive": it.derive, "item": src, "reference_predicates": refl, "observed_where": obs})
    return {"viol": viol, "stats": stats, "classes": classes, "samples": samples}


# ---------------------------------------------------------------------------------------------
# L2: compiled cases

def subst(ty, cmap):
    t = re.sub(r"\bT\d\b", lambda m: cmap[m.group(0)], ty)
    t = re.sub(r"'a\b", "'static", t)
    return re.sub(r"\bN\b", "2", t)


def cand_val(cname, k):
    return CANDS[cname][2][k % 3]


def field_value(f, inst, k):
    if not f.mentions:
        return f.cval
    p = re.findall(r"\bT\d\b", f.ty)
    c0 = inst[p[0]]
    t0 = CANDS[c0][0]
    v0, v1 = cand_val(c0, k), cand_val(c0, k + 1)
    form = f.form
    if form in ("bare", "assoc"):
        return v0
    if form == "ref":
        return "leak(%s)" % v0
    if form in ("arr", "arrn"):
        return "[%s, %s]" % (v0, v1)
    if form == "tup":
        return "(%s, 7u8)" % v0
    if form == "vec":
        return "vec![%s, %s]" % (v0, v1)
    if form == "optref":
        return "Some(leak(%s))" % v0
    if form == "fnptr":
        return "(never::<%s, u8> as fn(%s) -> u8)" % (t0, t0)
    if form == "fnret":
        return "(never::<u8, %s> as fn(u8) -> %s)" % (t0, t0)
    if form == "fn2":
        t1 = CANDS[inst[p[1]]][0]
        return "(never::<%s, %s> as fn(%s) -> %s)" % (t0, t1, t0, t1)
    if form == "boxdyn":
        return "(Box::new(Imp(%d)) as Box<dyn Tr2<%s>>)" % (40 + k, t0)
    if form == "phantom":
        return "::core::marker::PhantomData"
    raise Inconclusive("generator: no value for form " + form)


def required_traits(it):
    """Traits every parameter's instantiation has to implement so that the reference predicates hold."""
    need = {p: set() for p in it.params}
    for (lhs, rhs), e in it.preds.items():
        src_l, src_r = e["src"]
        ps = re.findall(r"\bT\d\b", src_l)
        if src_r.startswith(FMTPATH):
            tr = src_r[len(FMTPATH):]
            fs = [f for c in it.conts for f in c.fields if f.ty == src_l]
            form = fs[0].form if fs else "bare"
            if form in ("bare", "assoc") or (form == "ref" and tr != "Pointer") or form in ("arr", "arrn", "tup", "vec", "optref"):
                for p in ps[:1]:
                    need[p].add(tr)
        else:
            for p in ps:
                for t in re.findall(r"fmt::(\w+)", src_r):
                    need[p].add(t)
    return need


def ref_call(fm, fields):
    """`LIT, ARGS..` for the reference `format!`: same literal, same arguments, and the documented
    dereference for fields named directly in a `{name:p}` placeholder."""
    extra = ["%s = *%s" % (fields[fi].ident, fields[fi].ident) for fi in sorted(set(fm.ptr_direct))]
    return ", ".join([fm.text()] + extra)


def bind_lets(c, var):
    out = []
    for i, f in enumerate(c.fields):
        member = f.ident if c.kind == "named" else str(i)
        out.append("let %s = &%s.%s;" % (f.ident, var, member))
    return " ".join(out)


def pattern(c):
    if c.kind == "unit":
        return "E::%s" % c.name
    if c.kind == "tuple":
        return "E::%s(%s)" % (c.name, ", ".join(f.ident for f in c.fields))
    return "E::%s { %s }" % (c.name, ", ".join(f.ident for f in c.fields))


def construct(it, c, inst, k):
    vals = [field_value(f, inst, k + i) for i, f in enumerate(c.fields)]
    head = ("E::" + c.name) if it.is_enum else "S"
    if c.kind == "unit":
        return head
    if c.kind == "tuple":
        return "%s(%s)" % (head, ", ".join(vals))
    return "%s { %s }" % (head, ", ".join("%s: %s" % (f.ident, v) for f, v in zip(c.fields, vals)))


def want_expr(it, c):
    """Rust expression (String) of the reference rendering of container `c`; field bindings are in scope."""
    d = it.derive
    ph = "{:%s}" % TYCH[d][0] if TYCH[d][0] else "{}"
    if d == "Debug":
        if c.fmt is not None:
            return "format!(%s)" % ref_call(c.fmt, c.fields)
        if c.kind == "unit":
            return "String::from(%s)" % rs_str(c.name)
        ch = "f.debug_struct(%s)" % rs_str(c.name) if c.kind == "named" else "f.debug_tuple(%s)" % rs_str(c.name)
        skipped = False
        for f in c.fields:
            if f.fattr == "skip":
                skipped = True
                continue
            v = "&%s" % f.ident if f.fattr is None else "&format_args!(%s)" % ref_call(f.fattr, c.fields)
            ch += (".field(%s, %s)" % (rs_str(f.lname), v)) if c.kind == "named" else ".field(%s)" % v
        ch += ".finish_non_exhaustive()" if skipped else ".finish()"
        return "format!(\"{:?}\", FnDbg(|f: &mut ::core::fmt::Formatter<'_>| %s))" % ch
    # Display-like
    if c.fmt is not None:
        own = "format!(%s)" % ref_call(c.fmt, c.fields)
    elif it.is_enum and it.shared_mode == "default":
        own = None
    elif c.kind == "unit" or not c.fields:
        own = "String::from(%s)" % rs_str(c.name)
    else:
        # "transparently delegates to the format of the inner type": the field itself, not the reference to it
        own = "format!(%s, *%s)" % (rs_str(ph), c.fields[0].ident)
    if not it.is_enum or it.shared_mode == "none":
        return own
    if it.shared_mode == "default":
        return own if own is not None else "format!(%s)" % ref_call(it.shared, c.fields)
    # wrapping (a bare `{_variant}` is the same thing with nothing around it)
    return "{ let _variant = &%s; format!(%s) }" % (own, ref_call(it.shared, c.fields))


def make_case(cid, it, rng):
    items = render(it, rng, True)
    d = it.derive
    need = required_traits(it)
    inst = {}
    for p in it.params:
        ok = [c for c, (_, traits, _) in CANDS.items() if need[p] <= traits]
        if not ok:
            raise Inconclusive("generator: no instantiation for %s needing %s" % (p, need[p]))
        inst[p] = "Spy" if (rng.random() < 0.45 and "Spy" in ok) else rng.choice(ok)
    tname = "E" if it.is_enum else "S"

    def tyargs(cm):
        a = (["'static"] if it.lifetime else []) + [cm[p] for p in it.params] + (["2"] if it.constn else [])
        return tname + ("<%s>" % ", ".join(a) if a else "")

    cap = {p: CANDS[inst[p]][0] for p in it.params}
    body = []
    nexp = 0
    ph = "{:%s}" % TYCH[d][0] if TYCH[d][0] else "{}"
    for k, c in enumerate(it.conts[:3]):
        if d == "Pointer" and it.is_enum and it.shared_mode in ("wrap", "transp") and c.fmt is None and c.fields:
            # an implicitly delegated variant inside a wrapping format prints either the field's own address
            # rendering or the address of the field; the documentation does not say which (not a C04 question)
            continue
        body.append("{ let v: %s = %s;" % (tyargs(cap), construct(it, c, inst, k)))
        body.append("  let got = format!(%s, v);" % rs_str(ph))
        if it.is_enum:
            body.append("  let want = match &v { %s => { %s }, _ => unreachable!() };" % (pattern(c), want_expr(it, c)))
        else:
            body.append("  let want = { %s %s };" % (bind_lets(c, "v"), want_expr(it, c)))
        body.append("  cmp(\"fmt.%s\", &got, &want); }" % c.name)
        nexp += 1
    # trait-presence probes
    fmt_params = set()
    for e in it.preds.values():
        if e["fmt"]:
            fmt_params |= set(re.findall(r"\bT\d\b", e["src"][0]))
    unf = [p for p in it.params if p not in fmt_params]
    assigns = [("all-capable", frozenset())]
    for p in it.params:
        assigns.append((("unformatted:" if p in unf else "formatted:") + p, frozenset([p])))
    if len(unf) >= 2:
        assigns.append(("unformatted:all", frozenset(unf)))
    assigns.append(("all-nofmt", frozenset(it.params)))
    seen = set()
    plan = []
    for name, nf in assigns:
        if nf in seen:
            continue
        seen.add(nf)
        cm = {p: ("NoFmt" if p in nf else cap[p]) for p in it.params}
        conj = []
        for e in sorted(it.preds.values(), key=lambda e: e["src"]):
            lhs, rhs = e["src"]
            rhs = rhs.replace(FMTPATH, "::core::fmt::")
            conj.append("impls!(%s: %s)" % (subst(lhs, cm), rhs))
        want = "(%s)" % " && ".join(conj) if conj else "true"
        body.append("cmp(\"impl.%s\", &impls!(%s: ::core::fmt::%s).to_string(), &%s.to_string());" % (name, tyargs(cm), d, want))
        nexp += 1
        must_true = nf <= set(unf)
        plan.append((name, must_true))
    meta = {"what": "derive(%s) %s" % (d, items.replace("\n", " ")[:300]), "derive": d,
            "reference": sorted("%s: %s" % e["src"] for e in it.preds.values()), "instantiation": cap, "unformatted": unf, "plan": plan}
    return Case(cid, item_class(it), items, "\n".join(body), expect=nexp, meta=meta)


NEG_ITEMS = [
    # (id, kind, items) kind: "must_fail" | known-defect key (must compile according to the property)
    ("idx1", "must_fail", "#[derive(derive_more::Display)]\n#[display(\"{1}\", _0)]\n#[display(bound(T0: ::core::fmt::Display))]\npub struct S<T0>(pub T0);"),
    ("idx1n", "must_fail", "#[derive(derive_more::Display)]\n#[display(\"{1:?}\", a)]\n#[display(bound(T0: ::core::fmt::Debug))]\npub struct S<T0> { pub a: T0 }"),
    ("kb_enum", D_BOUND_E, "#[derive(derive_more::Display)]\n#[display(bound(T0: Tr3))]\npub enum E<T0> { #[display(\"{}\", _0.id3())] V0(T0) }"),
    ("kb_var", D_BOUND_C, "#[derive(derive_more::Display)]\n#[display(\"{}\", _0.id3())]\npub enum E<T0> { #[display(bound(T0: Tr3))] V0(T0) }"),
    ("kus0", D_US0, "#[derive(derive_more::Display)]\n#[display(\"{_0}\")]\npub struct S<T0> { pub _0: T0 }"),
    ("kus0d", D_US0, "#[derive(derive_more::Debug)]\n#[debug(\"{_1:?}\")]\npub struct S<T0> { pub _1: Vec<T0> }"),
    ("khost", D_HOST, "#[derive(derive_more::Debug)]\npub struct S<T0> { #[debug(\"{b}\")] pub a: u8, #[debug(skip)] pub b: T0 }"),
    ("kref", D_REF, "#[derive(derive_more::Display)]\n#[display(\"{a} {b}\")]\npub struct S<'a, T0> { pub a: &'a T0, pub b: T0 }"),
    ("kref2", D_REF, "#[derive(derive_more::Debug)]\npub struct S<'a, T0> { pub a: &'a T0, pub b: T0 }"),
    ("khost2", D_HOST, "#[derive(derive_more::Debug)]\npub enum E<T0> { V0(#[debug(\"{_1:?}\")] u8, #[debug(skip)] Vec<T0>) }"),
]


def run_neg(ctx):
    cases = [Case(cid, ("neg", kind), items, "", expect=0, must_fail=(kind == "must_fail"), meta={"kind": kind}) for cid, kind, items in NEG_ITEMS]
    res = l2.build_and_run(ctx, "neg", cases, nshards=1, prelude=PRELUDE, run=False)
    for c in cases:
        ctx.count()
        ctx.cls(c.cls)
        errs = res.compile_errors.get(c.id)
        if c.must_fail:
            ctx.bump("must_fail_checked")
            if not errs:
                ctx.violate("accepted:index-without-argument", "placeholder index that denotes no argument compiles (silently delegating): %s" % c.items.replace("\n", " "),
                            items=c.items)
        else:
            ctx.bump("known_defect_witnesses_compiled" if not errs else "known_defect_witnesses_failing")
            if errs:
                txt = l2.err_text(errs, 2)
                if c.meta["kind"] == D_REF:
                    precise = "lifetime may not live long enough" in txt
                elif c.meta["kind"] in (D_BOUND_E, D_BOUND_C):
                    precise = "E0599" in txt and "id3" in txt
                else:
                    precise = "E0277" in txt and "`T0`" in txt
                key = c.meta["kind"] if precise else "compile:neg:" + c.id
                ctx.violate(key, "generic item whose formatted fields are all referenced directly / bounded by the user does not compile: %s: %s" % (
                    c.items.replace("\n", " "), txt[:500]), items=c.items, errors=txt)


# ---------------------------------------------------------------------------------------------

def run(ctx):
    rng = ctx.rng
    inproc.build()
    ctx.rule = ("each case is a generic struct/enum built from a generator-owned AST: 1-4 type parameters placed in field types "
                "(T, &'a T, [T; 2], [T; N], (T, u8), Vec<T>, Option<&T>, <T as Tr>::Assoc, fn(T) -> U, Box<dyn Tr2<T>>, PhantomData<T>; expansion-only: "
                "pointers, slices, nested/absolute paths, Fn(T) sugar, T::Assoc, dyn with lifetime bounds, Item = T bindings) next to parameter-free fields; "
                "format attributes with 1-4 placeholders (implicit, indexed, direct field name, alias, alias shadowing a field, `.*`, `$` width/precision by index/field/alias, "
                "fill/align/sign/#/0, whitespace before `}`, all 9 traits incl. x?/X?), arguments that are bare fields, `size_of_val(field)`, `field.id3()` (with the user "
                "bound the docs require), literals and keywords; placed at struct, variant, derive(Debug) field level and as shared enum format (default, wrapping, bare `{_variant}`), "
                "plus #[debug(skip)], implicit single-field delegation, user bound(...) attributes and where-clauses on the type. "
                "distinct = distinct (derive kind, struct/enum + shared-format mode, set of sites the reference predicates come from, set of attribute/literal features) tuples "
                "plus distinct (derive kind, field type form, site, trait kind) tuples of single reference predicates; every case is generic, none is trivial")
    ctx.assumptions += [
        "the reference predicate set is the rule of display.md/debug.md ('Generic data types', 'Custom trait bounds'): field type : placeholder trait for fields used directly in the interpolation, plus bound(...)",
        "observed predicates that mention no type parameter (e.g. `u8: Display`) cannot make an impl unavailable and are counted, not judged",
        "rt::NoFmt implements no fmt trait; rt::Spy implements all nine; the std side of every impls! comparison is rustc's own answer on the same instantiation",
    ]
    # ---- L1 -----------------------------------------------------------------------------
    n1 = ctx.pick(40000, 500000)
    nw = common.NCPU * ctx.pick(1, 4)
    per = (n1 + nw - 1) // nw
    jobs = [(i, per, ctx.seed, ctx.pick(0.03, 0.01)) for i in range(nw)]
    # ---- L2 generation (parent process, reproducible from ctx.rng) ------------------------
    n2 = ctx.pick(800, 10000)
    cases, l2items = [], []
    for i in range(n2):
        it = gen_item(rng, True)
        cases.append(make_case("k%d" % i, it, rng))
        l2items.append((it, render_plain(cases[-1].items)))
    with ProcessPoolExecutor(max_workers=common.NCPU) as ex:
        fut = [ex.submit(l1_worker, j) for j in jobs]
        # the compiled cases are observed in-process too
        r0 = l1_eval(l2items, "k")
        res = l2.build_and_run(ctx, "bounds", cases, prelude=PRELUDE)
        run_neg(ctx)
        results = [r0] + [f.result() for f in fut]
    for r in results:
        if "error" in r:
            raise Inconclusive(r["error"])
        for k, v in r["stats"].items():
            ctx.bump(k, v)
        for c in r["classes"]:
            ctx.cls(c)
        for s in r["samples"]:
            ctx.sample(s, cap=4)
        for key, what, detail in r["viol"]:
            ctx.violate(key, what, **detail)
    ctx.count(ctx.extra.get("l1_cases", 0))
    ctx.extra["build_rounds"] = res.rounds
    # ---- L2 verdicts ------------------------------------------------------------------------
    l2.check_cmp_events(ctx, cases, res, keyfn=l2_key)
    for c in cases:
        evs = {e["kind"]: e for e in res.events.get(c.id, []) if "got" in e}
        for name, must_true in c.meta["plan"]:
            e = evs.get("impl." + name)
            if e is None:
                continue
            ctx.bump("probes")
            if must_true:
                ctx.bump("probes_unformatted_nofmt")
                if e["want"] != "true":
                    raise Inconclusive("reference model inconsistent: %s / impl.%s expected true by construction, std says %s" % (c.meta["what"], name, e["want"]))
            if e["want"] == "false":
                ctx.bump("probes_expected_unavailable")
    if ctx.extra.get("probes_unformatted_nofmt", 0) < 20 or ctx.extra.get("probes_expected_unavailable", 0) < 20:
        raise Inconclusive("too few NoFmt probes observed")
    if ctx.extra.get("l1_cases", 0) < n1 * 0.9:
        raise Inconclusive("too few in-process cases observed")
    for c in cases[:4] + cases[-2:]:
        evs = [e for e in res.events.get(c.id, []) if "got" in e][:5]
        ctx.sample({"layer": "L2", "item": c.items, "reference_predicates": c.meta["reference"], "instantiation": c.meta["instantiation"],
                    "events": evs}, cap=10)


def l2_key(c, e):
    k = e["kind"]
    k = "fmt" if k.startswith("fmt.") else k.split(":")[0]
    return "l2:%s:%s" % ("Debug" if c.meta["derive"] == "Debug" else "Display-like", k)


def render_plain(items):
    """The item as fed to the in-process harness: without the #[derive(..)] line."""
    return "\n".join(l for l in items.split("\n") if not l.startswith("#[derive("))
