//! Run-time support for generated monitor programs (DESIGN.md §2, L2): spy types that make
//! otherwise invisible behaviour observable, and an append-only event log that an offline checker
//! (Python) reads.  Generated `main`s only *record*; verdicts are computed by the driver.
#![allow(dead_code)]

use std::cell::RefCell;
use std::fmt;
use std::io::Write;

// ---------------------------------------------------------------------------------------------
// event log

thread_local! {
    static LOG: RefCell<Option<std::io::BufWriter<std::fs::File>>> = RefCell::new(None);
    static CASE: RefCell<String> = RefCell::new(String::new());
    static OPS: RefCell<Vec<String>> = RefCell::new(Vec::new());
}

pub fn jstr(s: &str) -> String {
    let mut o = String::with_capacity(s.len() + 2);
    o.push('"');
    for c in s.chars() {
        match c {
            '"' => o.push_str("\\\""),
            '\\' => o.push_str("\\\\"),
            '\n' => o.push_str("\\n"),
            '\r' => o.push_str("\\r"),
            '\t' => o.push_str("\\t"),
            c if (c as u32) < 0x20 => o.push_str(&format!("\\u{:04x}", c as u32)),
            c => o.push(c),
        }
    }
    o.push('"');
    o
}

/// Opens the event log named by argv[1].
pub fn init() {
    let path = std::env::args().nth(1).expect("usage: <bin> <event-log>");
    let f = std::fs::File::create(path).expect("create event log");
    LOG.with(|l| *l.borrow_mut() = Some(std::io::BufWriter::new(f)));
    // panics inside cases are recorded as events by `case`; keep stderr quiet
    std::panic::set_hook(Box::new(|_| {}));
}

pub fn finish() {
    raw(&format!("{{\"case\":\"#end\",\"kind\":\"end\"}}"));
    LOG.with(|l| {
        if let Some(w) = l.borrow_mut().as_mut() {
            let _ = w.flush();
        }
    });
}

fn raw(line: &str) {
    LOG.with(|l| {
        if let Some(w) = l.borrow_mut().as_mut() {
            let _ = w.write_all(line.as_bytes());
            let _ = w.write_all(b"\n");
        }
    });
}

fn cur() -> String {
    CASE.with(|c| c.borrow().clone())
}

/// Comparison event: `got` was produced through derive_more, `want` by the reference.
pub fn cmp(kind: &str, got: &str, want: &str) {
    raw(&format!(
        "{{\"case\":{},\"kind\":{},\"got\":{},\"want\":{}}}",
        jstr(&cur()),
        jstr(kind),
        jstr(got),
        jstr(want)
    ));
}

/// Observation event without a reference (the offline checker has the model).
pub fn obs(kind: &str, val: &str) {
    raw(&format!("{{\"case\":{},\"kind\":{},\"val\":{}}}", jstr(&cur()), jstr(kind), jstr(val)));
}

/// Runs one case; a panic escaping it is recorded as an event of kind `panic`.
pub fn case(id: &str, f: impl FnOnce()) {
    CASE.with(|c| *c.borrow_mut() = id.to_string());
    OPS.with(|o| o.borrow_mut().clear());
    raw(&format!("{{\"case\":{},\"kind\":\"begin\"}}", jstr(id)));
    let r = std::panic::catch_unwind(std::panic::AssertUnwindSafe(f));
    if let Err(e) = r {
        let msg = if let Some(s) = e.downcast_ref::<&str>() {
            s.to_string()
        } else if let Some(s) = e.downcast_ref::<String>() {
            s.clone()
        } else {
            "<non-string panic>".into()
        };
        raw(&format!("{{\"case\":{},\"kind\":\"panic\",\"val\":{}}}", jstr(id), jstr(&msg)));
    }
    raw(&format!("{{\"case\":{},\"kind\":\"done\"}}", jstr(id)));
    LOG.with(|l| {
        if let Some(w) = l.borrow_mut().as_mut() {
            let _ = w.flush();
        }
    });
}

/// Result of running a closure that may panic (used for `unwrap_x` style accessors).
pub fn catch<T>(f: impl FnOnce() -> T) -> Result<T, String> {
    std::panic::catch_unwind(std::panic::AssertUnwindSafe(f)).map_err(|e| {
        if let Some(s) = e.downcast_ref::<&str>() {
            s.to_string()
        } else if let Some(s) = e.downcast_ref::<String>() {
            s.clone()
        } else {
            "<non-string panic>".into()
        }
    })
}

/// Spy-side operation log (operator calls, conversions, ...) of the current case.
pub fn op(s: String) {
    OPS.with(|o| o.borrow_mut().push(s));
}
pub fn take_ops() -> String {
    OPS.with(|o| o.borrow_mut().drain(..).collect::<Vec<_>>().join(";"))
}

// ---------------------------------------------------------------------------------------------
// trait-presence probe: `impls!(Type: Trait)` evaluates to a bool at run time

#[macro_export]
macro_rules! impls {
    ($t:ty : $($tr:tt)+) => {{
        #[allow(dead_code)]
        struct Probe<T: ?Sized>(::core::marker::PhantomData<T>);
        #[allow(dead_code)]
        trait Fallback { const IMPLS: bool = false; }
        impl<T: ?Sized> Fallback for Probe<T> {}
        #[allow(dead_code)]
        impl<T: ?Sized + $($tr)+> Probe<T> { const IMPLS: bool = true; }
        <Probe<$t>>::IMPLS
    }};
}

// ---------------------------------------------------------------------------------------------
// fmt spy: renders everything the Formatter tells it

#[derive(Clone, Copy, PartialEq, Eq)]
pub struct Spy(pub u32);

fn describe(tr: &str, id: u32, f: &mut fmt::Formatter<'_>) -> fmt::Result {
    let w = f.width();
    let p = f.precision();
    let fill = f.fill();
    let align = match f.align() {
        None => "-",
        Some(fmt::Alignment::Left) => "<",
        Some(fmt::Alignment::Right) => ">",
        Some(fmt::Alignment::Center) => "^",
    };
    let plus = f.sign_plus();
    let minus = f.sign_minus();
    let alt = f.alternate();
    let zero = f.sign_aware_zero_pad();
    let s = format!(
        "<{}#{} w={:?} p={:?} fill={:?} align={} plus={} minus={} alt={} zero={}>",
        tr, id, w, p, fill, align, plus, minus, alt, zero
    );
    f.write_str(&s)
}

macro_rules! spy_fmt {
    ($($tr:ident),*) => {$(
        impl fmt::$tr for Spy {
            fn fmt(&self, f: &mut fmt::Formatter<'_>) -> fmt::Result {
                describe(stringify!($tr), self.0, f)
            }
        }
    )*};
}
spy_fmt!(Display, Binary, Octal, LowerHex, UpperHex, LowerExp, UpperExp, Pointer);

impl fmt::Debug for Spy {
    fn fmt(&self, f: &mut fmt::Formatter<'_>) -> fmt::Result {
        describe("Debug", self.0, f)?;
        // radix probe: `ab` under {:x?}, `AB` under {:X?}, `171` otherwise; written with the
        // caller's flags, which is fine because both sides of a comparison receive the same ones
        f.write_str("[")?;
        fmt::Debug::fmt(&171u8, f)?;
        f.write_str("]")
    }
}

/// A type implementing no formatting trait at all.
#[derive(Clone, Copy, Default, PartialEq, Eq)]
pub struct NoFmt;

// ---------------------------------------------------------------------------------------------
// operator spy: non-commutative, field-tagging operand

#[derive(Clone, Copy, PartialEq, Eq, Hash, Debug, Default)]
pub struct Tag(pub u64);

#[derive(Clone, Copy, PartialEq, Eq, Hash, Debug, Default)]
pub struct Scalar(pub u64);

pub fn mix(op: &str, l: u64, r: u64) -> u64 {
    let mut h: u64 = 0xcbf29ce484222325;
    for b in op.as_bytes() {
        h ^= *b as u64;
        h = h.wrapping_mul(0x100000001b3);
    }
    h ^= l.wrapping_mul(0x9E3779B97F4A7C15);
    h = h.rotate_left(17).wrapping_mul(0xD1B54A32D192ED03);
    h ^= r.wrapping_mul(0xC2B2AE3D27D4EB4F);
    h = h.rotate_left(31).wrapping_mul(0x100000001b3);
    h
}

macro_rules! tag_binop {
    ($($tr:ident $m:ident $atr:ident $am:ident),*) => {$(
        impl std::ops::$tr for Tag {
            type Output = Tag;
            fn $m(self, r: Tag) -> Tag {
                op(format!("{}({},{})", stringify!($m), self.0, r.0));
                Tag(mix(stringify!($m), self.0, r.0))
            }
        }
        impl std::ops::$tr<Scalar> for Tag {
            type Output = Tag;
            fn $m(self, r: Scalar) -> Tag {
                op(format!("{}_scalar({},{})", stringify!($m), self.0, r.0));
                Tag(mix(concat!(stringify!($m), "_scalar"), self.0, r.0))
            }
        }
        impl std::ops::$tr<Tag> for Scalar {
            type Output = Tag;
            fn $m(self, r: Tag) -> Tag {
                op(format!("{}_rscalar({},{})", stringify!($m), self.0, r.0));
                Tag(mix(concat!(stringify!($m), "_rscalar"), self.0, r.0))
            }
        }
        impl std::ops::$atr for Tag {
            fn $am(&mut self, r: Tag) {
                op(format!("{}({},{})", stringify!($am), self.0, r.0));
                // `a op= b` is defined to leave what `a op b` returns
                self.0 = mix(stringify!($m), self.0, r.0);
            }
        }
        impl std::ops::$atr<Scalar> for Tag {
            fn $am(&mut self, r: Scalar) {
                op(format!("{}_scalar({},{})", stringify!($am), self.0, r.0));
                self.0 = mix(concat!(stringify!($m), "_scalar"), self.0, r.0);
            }
        }
    )*};
}
tag_binop!(Add add AddAssign add_assign, Sub sub SubAssign sub_assign, Mul mul MulAssign mul_assign,
           Div div DivAssign div_assign, Rem rem RemAssign rem_assign, BitAnd bitand BitAndAssign bitand_assign,
           BitOr bitor BitOrAssign bitor_assign, BitXor bitxor BitXorAssign bitxor_assign,
           Shl shl ShlAssign shl_assign, Shr shr ShrAssign shr_assign);

impl std::ops::Not for Tag {
    type Output = Tag;
    fn not(self) -> Tag {
        op(format!("not({})", self.0));
        Tag(mix("not", self.0, 0))
    }
}
impl std::ops::Neg for Tag {
    type Output = Tag;
    fn neg(self) -> Tag {
        op(format!("neg({})", self.0));
        Tag(mix("neg", self.0, 0))
    }
}
// A second operand type with the same behaviour and its own operator names ("t2.add", ...), so that
// structs can have fields of DIFFERING types (a derive that applies one field's operator or type to
// another field no longer type-checks or shows in the operator log).
#[derive(Clone, Copy, PartialEq, Eq, Hash, Debug, Default)]
pub struct Tag2(pub u64);

macro_rules! tag2_binop {
    ($($tr:ident $m:ident $atr:ident $am:ident),*) => {$(
        impl std::ops::$tr for Tag2 {
            type Output = Tag2;
            fn $m(self, r: Tag2) -> Tag2 {
                op(format!("t2.{}({},{})", stringify!($m), self.0, r.0));
                Tag2(mix(concat!("t2.", stringify!($m)), self.0, r.0))
            }
        }
        impl std::ops::$tr<Scalar> for Tag2 {
            type Output = Tag2;
            fn $m(self, r: Scalar) -> Tag2 {
                op(format!("t2.{}_scalar({},{})", stringify!($m), self.0, r.0));
                Tag2(mix(concat!("t2.", stringify!($m), "_scalar"), self.0, r.0))
            }
        }
        impl std::ops::$atr for Tag2 {
            fn $am(&mut self, r: Tag2) {
                op(format!("t2.{}({},{})", stringify!($am), self.0, r.0));
                self.0 = mix(concat!("t2.", stringify!($m)), self.0, r.0);
            }
        }
        impl std::ops::$atr<Scalar> for Tag2 {
            fn $am(&mut self, r: Scalar) {
                op(format!("t2.{}_scalar({},{})", stringify!($am), self.0, r.0));
                self.0 = mix(concat!("t2.", stringify!($m), "_scalar"), self.0, r.0);
            }
        }
    )*};
}
tag2_binop!(Add add AddAssign add_assign, Sub sub SubAssign sub_assign, Mul mul MulAssign mul_assign,
            Div div DivAssign div_assign, Rem rem RemAssign rem_assign, BitAnd bitand BitAndAssign bitand_assign,
            BitOr bitor BitOrAssign bitor_assign, BitXor bitxor BitXorAssign bitxor_assign,
            Shl shl ShlAssign shl_assign, Shr shr ShrAssign shr_assign);
impl std::ops::Not for Tag2 {
    type Output = Tag2;
    fn not(self) -> Tag2 {
        op(format!("t2.not({})", self.0));
        Tag2(mix("t2.not", self.0, 0))
    }
}
impl std::ops::Neg for Tag2 {
    type Output = Tag2;
    fn neg(self) -> Tag2 {
        op(format!("t2.neg({})", self.0));
        Tag2(mix("t2.neg", self.0, 0))
    }
}
impl std::iter::Sum for Tag2 {
    fn sum<I: Iterator<Item = Tag2>>(iter: I) -> Tag2 {
        iter.fold(Tag2(SUM_ZERO), |a, b| a + b)
    }
}
impl std::iter::Product for Tag2 {
    fn product<I: Iterator<Item = Tag2>>(iter: I) -> Tag2 {
        iter.fold(Tag2(PRODUCT_ONE), |a, b| a * b)
    }
}
/// Empty sum/product identities are recognisable constants.
pub const SUM_ZERO: u64 = 0x5a5a_0000_0000_0001;
pub const PRODUCT_ONE: u64 = 0x5a5a_0000_0000_0002;
impl std::iter::Sum for Tag {
    fn sum<I: Iterator<Item = Tag>>(iter: I) -> Tag {
        iter.fold(Tag(SUM_ZERO), |a, b| a + b)
    }
}
impl std::iter::Product for Tag {
    fn product<I: Iterator<Item = Tag>>(iter: I) -> Tag {
        iter.fold(Tag(PRODUCT_ONE), |a, b| a * b)
    }
}
impl fmt::Display for Tag {
    fn fmt(&self, f: &mut fmt::Formatter<'_>) -> fmt::Result {
        write!(f, "Tag({})", self.0)
    }
}

// ---------------------------------------------------------------------------------------------
// conversion spies: Src(k, v) --From--> Dst(k, v) logs one event per call

#[derive(Clone, Copy, PartialEq, Eq, Debug)]
pub struct Src<const K: usize>(pub u64);
#[derive(Clone, Copy, PartialEq, Eq, Debug)]
pub struct Dst<const K: usize>(pub u64);
impl<const K: usize> From<Src<K>> for Dst<K> {
    fn from(s: Src<K>) -> Self {
        op(format!("from<{}>({})", K, s.0));
        Dst(s.0)
    }
}

// ---------------------------------------------------------------------------------------------
// error leaf with identity

#[derive(Debug, PartialEq, Eq)]
pub struct Leaf(pub u32);
impl fmt::Display for Leaf {
    fn fmt(&self, f: &mut fmt::Formatter<'_>) -> fmt::Result {
        write!(f, "leaf{}", self.0)
    }
}
impl std::error::Error for Leaf {}

pub fn addr<T: ?Sized>(r: &T) -> usize {
    r as *const T as *const u8 as usize
}

/// Identity of what `Error::source()` returned: payload of the Leaf and its address.
pub fn source_id(e: Option<&(dyn std::error::Error + 'static)>) -> String {
    match e {
        None => "None".into(),
        Some(e) => match e.downcast_ref::<Leaf>() {
            Some(l) => format!("Leaf({})@{}", l.0, addr(l)),
            // a field of type `&'static Leaf`: whether the reference itself or its referent is handed out as the
            // error object is not pinned down; both are identified by the referent
            None => match e.downcast_ref::<&'static Leaf>() {
                Some(l) => format!("Leaf({})@{}", l.0, addr(*l)),
                None => format!("Other({})@{}", e, addr(e)),
            },
        },
    }
}

// ---------------------------------------------------------------------------------------------
// delegation spies

#[derive(Debug, Clone, PartialEq, Eq)]
pub struct SpyVec {
    pub id: u32,
    pub data: Vec<u64>,
}
impl SpyVec {
    pub fn new(id: u32) -> Self {
        SpyVec { id, data: (0..4).map(|k| (id as u64) * 100 + k).collect() }
    }
}
impl std::ops::Deref for SpyVec {
    type Target = [u64];
    fn deref(&self) -> &[u64] {
        op(format!("deref({})", self.id));
        &self.data
    }
}
impl std::ops::DerefMut for SpyVec {
    fn deref_mut(&mut self) -> &mut [u64] {
        op(format!("deref_mut({})", self.id));
        &mut self.data
    }
}
impl std::ops::Index<usize> for SpyVec {
    type Output = u64;
    fn index(&self, i: usize) -> &u64 {
        op(format!("index({},{})", self.id, i));
        &self.data[i]
    }
}
impl std::ops::IndexMut<usize> for SpyVec {
    fn index_mut(&mut self, i: usize) -> &mut u64 {
        op(format!("index_mut({},{})", self.id, i));
        &mut self.data[i]
    }
}
impl AsRef<[u64]> for SpyVec {
    fn as_ref(&self) -> &[u64] {
        op(format!("as_ref_slice({})", self.id));
        &self.data
    }
}
impl AsMut<[u64]> for SpyVec {
    fn as_mut(&mut self) -> &mut [u64] {
        op(format!("as_mut_slice({})", self.id));
        &mut self.data
    }
}
impl AsRef<Vec<u64>> for SpyVec {
    fn as_ref(&self) -> &Vec<u64> {
        op(format!("as_ref_vec({})", self.id));
        &self.data
    }
}
impl AsMut<Vec<u64>> for SpyVec {
    fn as_mut(&mut self) -> &mut Vec<u64> {
        op(format!("as_mut_vec({})", self.id));
        &mut self.data
    }
}
impl IntoIterator for SpyVec {
    type Item = u64;
    type IntoIter = std::vec::IntoIter<u64>;
    fn into_iter(self) -> Self::IntoIter {
        op(format!("into_iter({})", self.id));
        self.data.into_iter()
    }
}
impl<'a> IntoIterator for &'a SpyVec {
    type Item = &'a u64;
    type IntoIter = std::slice::Iter<'a, u64>;
    fn into_iter(self) -> Self::IntoIter {
        op(format!("into_iter_ref({})", self.id));
        self.data.iter()
    }
}
impl<'a> IntoIterator for &'a mut SpyVec {
    type Item = &'a mut u64;
    type IntoIter = std::slice::IterMut<'a, u64>;
    fn into_iter(self) -> Self::IntoIter {
        op(format!("into_iter_mut({})", self.id));
        self.data.iter_mut()
    }
}
