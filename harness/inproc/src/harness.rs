//! Hand-written half of the in-process expansion harness.  The crate root (generated) includes
//! the working tree's `impl/src/**` modules verbatim and provides `crate::dispatch`.
//!
//! Monitors living here: panic monitor (hook + forced backtrace + classification), crash journal
//! (case id flushed to $VERIF_JOURNAL before every case), reference argument splitter (syn `full`).

use std::{
    backtrace::Backtrace,
    cell::RefCell,
    io::{self, BufRead, Write},
    panic::{self, AssertUnwindSafe},
};

use proc_macro2::TokenStream;

pub enum Outcome {
    Ok(TokenStream),
    Err(syn::Error),
}

pub trait IntoOutcome {
    fn into_outcome(self) -> Outcome;
}
impl IntoOutcome for TokenStream {
    fn into_outcome(self) -> Outcome {
        Outcome::Ok(self)
    }
}
impl IntoOutcome for Result<TokenStream, syn::Error> {
    fn into_outcome(self) -> Outcome {
        match self {
            Ok(t) => Outcome::Ok(t),
            Err(e) => Outcome::Err(e),
        }
    }
}

// ---------------------------------------------------------------------------------------------
// small utilities (no dependencies)

fn unhex(s: &str) -> Option<String> {
    let b = s.as_bytes();
    if b.len() % 2 != 0 {
        return None;
    }
    let mut out = Vec::with_capacity(b.len() / 2);
    for ch in b.chunks(2) {
        let h = (ch[0] as char).to_digit(16)?;
        let l = (ch[1] as char).to_digit(16)?;
        out.push((h * 16 + l) as u8);
    }
    String::from_utf8(out).ok()
}

pub fn jstr(s: &str) -> String {
    let mut o = String::with_capacity(s.len() + 2);
    o.push('"');
    for c in s.chars() {
        match c {
            '"' => o.push_str("\\\""),
            '\\' => o.push_str("\\\\"),
            '\n' => o.push_str("\\n"),
            '\r' => o.push_str("\\r"),
            '\t' => o.push_str("\\t"),
            c if (c as u32) < 0x20 => o.push_str(&format!("\\u{:04x}", c as u32)),
            c => o.push(c),
        }
    }
    o.push('"');
    o
}

fn fnv(s: &str) -> u64 {
    let mut h: u64 = 0xcbf29ce484222325;
    for b in s.as_bytes() {
        h ^= *b as u64;
        h = h.wrapping_mul(0x100000001b3);
    }
    h
}

struct Journal(Option<std::fs::File>);
impl Journal {
    fn open() -> Self {
        Journal(std::env::var_os("VERIF_JOURNAL").and_then(|p| std::fs::File::create(p).ok()))
    }
    fn note(&mut self, id: &str) {
        use std::io::{Seek, SeekFrom};
        if let Some(f) = self.0.as_mut() {
            let _ = f.set_len(0);
            let _ = f.seek(SeekFrom::Start(0));
            let _ = f.write_all(id.as_bytes());
            let _ = f.flush();
        }
    }
}

// ---------------------------------------------------------------------------------------------
// panic monitor

#[derive(Clone, Default)]
pub struct PanicRec {
    pub msg: String,
    pub file: String,
    pub line: u32,
    pub class: &'static str,
    pub why: String,
    pub frames: Vec<String>,
}

thread_local! {
    static LAST_PANIC: RefCell<Option<PanicRec>> = RefCell::new(None);
}

const STD_FAILURE_FRAMES: &[&str] = &[
    "panic_bounds_check",
    "option::expect_failed",
    "option::unwrap_failed",
    "result::unwrap_failed",
    "panicking::panic_const",
    "slice_error_fail",
    "slice_index_fail",
    "slice_start_index_len_fail",
    "slice_end_index_len_fail",
    "slice_index_order_fail",
    "panicking::assert_failed",
    "panic_already_borrowed",
    "panic_already_mutably_borrowed",
    "capacity_overflow",
    "handle_alloc_error",
    "panic_nounwind",
    "panic_misaligned",
    "str::slice_error_fail",
];

const INTERNAL_MSG_PREFIXES: &[&str] = &[
    "internal error: entered unreachable code",
    "not implemented",
    "not yet implemented",
    "attempt to ",
    "called `Option::unwrap()` on a `None` value",
    "called `Result::unwrap()` on an `Err` value",
    "index out of bounds",
    "byte index ",
    "begin <= end",
    "range start index",
    "range end index",
    "slice index starts",
    "start byte index",
    "end byte index",
    "already borrowed",
    "already mutably borrowed",
    "capacity overflow",
    "assertion failed",
    "assertion `left",
    "explicit panic",
    "removal index",
    "insertion index",
    "swap_remove index",
    "mid > len",
    "chunk size must be non-zero",
    "called `Option::expect()`",
];

fn classify(msg: &str, file: &str, frames: &[String]) -> (&'static str, String) {
    for f in frames {
        for pat in STD_FAILURE_FRAMES {
            if f.contains(pat) {
                return ("internal", format!("std failure frame `{}`", pat));
            }
        }
        // `core::panicking::panic` (no fmt): unreachable!()/unimplemented!()/assert!(c) without message
        if f.ends_with("core::panicking::panic") || f.contains("core::panicking::panic::h") {
            return ("internal", "core::panicking::panic (message-less assert/unreachable/unimplemented)".into());
        }
    }
    for p in INTERNAL_MSG_PREFIXES {
        if msg.starts_with(p) {
            return ("internal", format!("message prefix `{}`", p));
        }
    }
    if !file.starts_with(crate::REPO_IMPL_SRC) {
        return ("internal", format!("raised outside derive_more-impl sources ({})", file));
    }
    // `#[track_caller]` constructors of the dependencies (`Ident::new`, `format_ident!`, `Literal::..`) report the
    // derive's own line as the location although the panic is the dependency rejecting what the derive handed it
    // (e.g. `"__DISCRIMINANT_r#type" is not a valid Ident`): judged by the frame that actually raised it
    for f in frames {
        if f.starts_with("core::panicking") || f.starts_with("std::panicking") || f.contains("rust_begin_unwind") || f.contains("begin_panic") {
            continue;
        }
        let g = f.trim_start_matches('<');
        for dep in ["proc_macro2::", "syn::", "quote::", "convert_case::", "unicode_xid::"] {
            if g.starts_with(dep) {
                return ("internal", format!("raised inside dependency frame `{}` on behalf of the derive", f));
            }
        }
        break;
    }
    ("deliberate", String::new())
}

pub fn install_panic_hook() {
    panic::set_hook(Box::new(|info| {
        let msg = if let Some(s) = info.payload().downcast_ref::<&str>() {
            s.to_string()
        } else if let Some(s) = info.payload().downcast_ref::<String>() {
            s.clone()
        } else {
            "<non-string payload>".to_string()
        };
        let (file, line) = info
            .location()
            .map(|l| (l.file().to_string(), l.line()))
            .unwrap_or_default();
        let bt = Backtrace::force_capture().to_string();
        // keep symbol lines only (lines like "  12: core::option::expect_failed")
        let mut frames = Vec::new();
        for l in bt.lines() {
            let t = l.trim_start();
            if let Some(pos) = t.find(": ") {
                if t[..pos].chars().all(|c| c.is_ascii_digit()) {
                    frames.push(t[pos + 2..].to_string());
                }
            }
        }
        // restrict to the frames between the panic machinery and the harness boundary
        let start = frames
            .iter()
            .position(|f| f.contains("rust_begin_unwind") || f.contains("begin_panic_handler"))
            .map(|p| p + 1)
            .unwrap_or(0);
        let end = frames
            .iter()
            .position(|f| f.contains("harness::guarded") )
            .unwrap_or(frames.len());
        let window: Vec<String> = if start < end {
            frames[start..end].to_vec()
        } else {
            frames.clone()
        };
        let (class, why) = classify(&msg, &file, &window);
        let mut short = window;
        short.truncate(14);
        LAST_PANIC.with(|p| {
            *p.borrow_mut() = Some(PanicRec { msg, file, line, class, why, frames: short });
        });
    }));
}

/// Runs `f`, returning Err(panic record) when it panics.
#[inline(never)]
pub fn guarded<T>(f: impl FnOnce() -> T) -> Result<T, PanicRec> {
    LAST_PANIC.with(|p| *p.borrow_mut() = None);
    match panic::catch_unwind(AssertUnwindSafe(f)) {
        Ok(v) => Ok(v),
        Err(_) => Err(LAST_PANIC.with(|p| p.borrow_mut().take()).unwrap_or_default()),
    }
}

fn panic_json(p: &PanicRec) -> String {
    format!(
        "\"kind\":\"panic\",\"class\":{},\"why\":{},\"msg\":{},\"file\":{},\"line\":{},\"frames\":[{}]",
        jstr(if p.class.is_empty() { "unknown" } else { p.class }),
        jstr(&p.why),
        jstr(&p.msg),
        jstr(&p.file),
        p.line,
        p.frames.iter().map(|f| jstr(f)).collect::<Vec<_>>().join(",")
    )
}

// ---------------------------------------------------------------------------------------------
// expansion of one case

pub enum Exp {
    Ok(String),
    Err(String),
    Panic(PanicRec),
    BadInput(String),
    UnknownDerive,
}

pub fn expand_one(derive: &str, item: &str) -> Exp {
    let ast: syn::DeriveInput = match syn::parse_str(item) {
        Ok(a) => a,
        Err(e) => return Exp::BadInput(e.to_string()),
    };
    match guarded(|| crate::dispatch(derive, &ast).map(|o| match o {
        Outcome::Ok(t) => Ok(t.to_string()),
        Outcome::Err(e) => Err(e.to_string()),
    })) {
        Ok(Some(Ok(t))) => Exp::Ok(t),
        Ok(Some(Err(e))) => Exp::Err(e),
        Ok(None) => Exp::UnknownDerive,
        Err(p) => Exp::Panic(p),
    }
}

/// `const _: () = { <items> };` wrappers around generated items carry no meaning for the monitors: the items inside are
/// returned as if they had been emitted at top level (recursively). Anything unparsable is returned unchanged.
pub fn flatten_anon_consts(t: &str) -> String {
    use quote::ToTokens;
    fn go(items: Vec<syn::Item>, out: &mut Vec<syn::Item>) {
        for it in items {
            if let syn::Item::Const(c) = &it {
                if c.ident == "_" {
                    if let syn::Expr::Block(b) = &*c.expr {
                        let mut inner = Vec::new();
                        let mut only_items = true;
                        for st in &b.block.stmts {
                            match st {
                                syn::Stmt::Item(i) => inner.push(i.clone()),
                                _ => only_items = false,
                            }
                        }
                        if only_items {
                            go(inner, out);
                            continue;
                        }
                    }
                }
            }
            out.push(it);
        }
    }
    match syn::parse_str::<syn::File>(t) {
        Ok(f) if f.items.iter().any(|i| matches!(i, syn::Item::Const(c) if c.ident == "_")) => {
            let mut out = Vec::new();
            go(f.items, &mut out);
            out.iter().map(|i| i.to_token_stream().to_string()).collect::<Vec<_>>().join(" ")
        }
        _ => t.to_string(),
    }
}

fn mode_expand(args: &[String]) {
    let digest_only = args.iter().any(|a| a == "--digest");
    // `--items`: print the expansion as a sorted multiset of top-level items
    let as_items = args.iter().any(|a| a == "--items");
    let stdin = io::stdin();
    let out = io::stdout();
    let mut out = io::BufWriter::new(out.lock());
    let mut j = Journal::open();
    for line in stdin.lock().lines() {
        let line = match line {
            Ok(l) => l,
            Err(_) => break,
        };
        let mut it = line.splitn(3, '\t');
        let (id, derive, hx) = match (it.next(), it.next(), it.next()) {
            (Some(a), Some(b), Some(c)) => (a, b, c),
            _ => continue,
        };
        j.note(id);
        let item = match unhex(hx) {
            Some(s) => s,
            None => continue,
        };
        let body = match expand_one(derive, &item) {
            Exp::Ok(t) => {
                // (the digest of C19 is taken over the expansion exactly as emitted)
                let t = if digest_only { t } else { flatten_anon_consts(&t) };
                if as_items {
                    use quote::ToTokens;
                    match syn::parse_str::<syn::File>(&t) {
                        Ok(f) => {
                            let mut v: Vec<String> = f.items.iter().map(|i| i.to_token_stream().to_string()).collect();
                            v.sort();
                            format!("\"kind\":\"ok\",\"items\":[{}]", v.iter().map(|x| jstr(x)).collect::<Vec<_>>().join(","))
                        }
                        Err(e) => format!("\"kind\":\"unparsable\",\"msg\":{},\"tokens\":{}", jstr(&e.to_string()), jstr(&t)),
                    }
                } else if digest_only {
                    format!("\"kind\":\"ok\",\"digest\":\"{:016x}:{}\"", fnv(&t), t.len())
                } else {
                    format!("\"kind\":\"ok\",\"tokens\":{}", jstr(&t))
                }
            }
            Exp::Err(e) => {
                if digest_only {
                    format!("\"kind\":\"err\",\"digest\":\"{:016x}:{}\"", fnv(&e), e.len())
                } else {
                    format!("\"kind\":\"err\",\"msg\":{}", jstr(&e))
                }
            }
            Exp::Panic(p) => panic_json(&p),
            Exp::BadInput(e) => format!("\"kind\":\"badinput\",\"msg\":{}", jstr(&e)),
            Exp::UnknownDerive => "\"kind\":\"unknown_derive\"".to_string(),
        };
        let _ = writeln!(out, "{{\"id\":{},{}}}", jstr(id), body);
    }
    let _ = out.flush();
}

// ---------------------------------------------------------------------------------------------
// direct observation of the fmt literal parser (second inclusion of impl/src/fmt/parsing.rs)

#[cfg(not(feature = "vc_int_fmt"))]
pub fn canon_literal(_lit: &str) -> Result<Option<String>, PanicRec> {
    // built without the direct inclusion of the literal parser (its internal AST did not match this harness)
    Ok(None)
}

#[cfg(feature = "vc_int_fmt")]
pub fn canon_literal(lit: &str) -> Result<Option<String>, PanicRec> {
    use crate::fmt_parsing_direct as p;
    guarded(|| {
        p::format_string(lit).map(|fs| {
            let mut o = String::new();
            for f in &fs.formats {
                if !o.is_empty() {
                    o.push(';');
                }
                match f.arg {
                    None => o.push('-'),
                    Some(p::Argument::Integer(i)) => o.push_str(&format!("i{}", i)),
                    Some(p::Argument::Identifier(n)) => o.push_str(&format!("n{}", n)),
                }
                o.push('|');
                let ty = match f.spec {
                    None => p::Type::Display,
                    Some(s) => {
                        if let Some((fill, _)) = s.align {
                            if fill.is_some() {
                                o.push('f');
                            }
                            o.push('a');
                        }
                        if s.sign.is_some() {
                            o.push('s');
                        }
                        if s.alternate.is_some() {
                            o.push('#');
                        }
                        if s.zero_padding.is_some() {
                            o.push('0');
                        }
                        match s.width {
                            None => {}
                            Some(p::Count::Integer(_)) => o.push_str("w"),
                            Some(p::Count::Parameter(p::Argument::Integer(i))) => o.push_str(&format!("w(i{})", i)),
                            Some(p::Count::Parameter(p::Argument::Identifier(n))) => o.push_str(&format!("w(n{})", n)),
                        }
                        match s.precision {
                            None => {}
                            Some(p::Precision::Star) => o.push_str("p*"),
                            Some(p::Precision::Count(p::Count::Integer(_))) => o.push_str("p"),
                            Some(p::Precision::Count(p::Count::Parameter(p::Argument::Integer(i)))) => {
                                o.push_str(&format!("p(i{})", i))
                            }
                            Some(p::Precision::Count(p::Count::Parameter(p::Argument::Identifier(n)))) => {
                                o.push_str(&format!("p(n{})", n))
                            }
                        }
                        s.ty
                    }
                };
                o.push('|');
                o.push_str(match ty {
                    p::Type::Display => "",
                    p::Type::Debug => "?",
                    p::Type::LowerDebug => "x?",
                    p::Type::UpperDebug => "X?",
                    p::Type::Octal => "o",
                    p::Type::LowerHex => "x",
                    p::Type::UpperHex => "X",
                    p::Type::Pointer => "p",
                    p::Type::Binary => "b",
                    p::Type::LowerExp => "e",
                    p::Type::UpperExp => "E",
                });
            }
            o
        })
    })
}

fn mode_fmtparse(_args: &[String]) {
    if !cfg!(feature = "vc_int_fmt") {
        eprintln!("harness built without vc_int_fmt");
        std::process::exit(65);
    }
    let stdin = io::stdin();
    let out = io::stdout();
    let mut out = io::BufWriter::new(out.lock());
    let mut j = Journal::open();
    for (n, line) in stdin.lock().lines().enumerate() {
        let line = match line {
            Ok(l) => l,
            Err(_) => break,
        };
        let lit = match unhex(line.trim()) {
            Some(s) => s,
            None => continue,
        };
        j.note(&n.to_string());
        let body = match canon_literal(&lit) {
            Ok(Some(c)) => format!("\"kind\":\"ok\",\"canon\":{}", jstr(&c)),
            Ok(None) => "\"kind\":\"reject\"".to_string(),
            Err(p) => panic_json(&p),
        };
        let _ = writeln!(out, "{{\"id\":\"{}\",{}}}", n, body);
    }
    let _ = out.flush();
}

// ---------------------------------------------------------------------------------------------
// C16: derive_more's argument scanner next to syn's expression parser

/// Token text with every punctuation character separated (spacing-insensitive comparison).
pub fn flat(ts: TokenStream) -> String {
    fn go(ts: TokenStream, o: &mut Vec<String>) {
        for t in ts {
            match t {
                proc_macro2::TokenTree::Group(g) => {
                    let (a, b) = match g.delimiter() {
                        proc_macro2::Delimiter::Parenthesis => ("(", ")"),
                        proc_macro2::Delimiter::Brace => ("{", "}"),
                        proc_macro2::Delimiter::Bracket => ("[", "]"),
                        proc_macro2::Delimiter::None => ("", ""),
                    };
                    if !a.is_empty() {
                        o.push(a.into());
                    }
                    go(g.stream(), o);
                    if !b.is_empty() {
                        o.push(b.into());
                    }
                }
                other => o.push(other.to_string()),
            }
        }
    }
    let mut o = Vec::new();
    go(ts, &mut o);
    o.join(" ")
}

/// Like `flat`, but a punctuation character that is glued to the next one (`==`, `->`, `..=`) is printed glued:
/// whether `a == b` reaches `write!` as `a == b` or as `a = = b` is visible in this rendering.
pub fn flat_joint(ts: TokenStream) -> String {
    fn go(ts: TokenStream, o: &mut String) {
        let mut glue = false;
        for t in ts {
            if !glue && !o.is_empty() {
                o.push(' ');
            }
            glue = false;
            match t {
                proc_macro2::TokenTree::Group(g) => {
                    let (a, b) = match g.delimiter() {
                        proc_macro2::Delimiter::Parenthesis => ("(", ")"),
                        proc_macro2::Delimiter::Brace => ("{", "}"),
                        proc_macro2::Delimiter::Bracket => ("[", "]"),
                        proc_macro2::Delimiter::None => ("", ""),
                    };
                    o.push_str(a);
                    go(g.stream(), o);
                    if !b.is_empty() {
                        o.push(' ');
                        o.push_str(b);
                    }
                }
                proc_macro2::TokenTree::Punct(p) => {
                    o.push(p.as_char());
                    // a separator never forms a multi-character operator with what follows
                    glue = p.spacing() == proc_macro2::Spacing::Joint && !matches!(p.as_char(), ',' | ';');
                }
                other => o.push_str(&other.to_string()),
            }
        }
    }
    let mut o = String::new();
    go(ts, &mut o);
    o
}

#[cfg(not(feature = "vc_int_args"))]
fn mode_args(_args: &[String]) {
    eprintln!("harness built without vc_int_args");
    std::process::exit(65);
}

#[cfg(feature = "vc_int_args")]
fn mode_args(_args: &[String]) {
    use syn::parse::Parser;
    use syn::punctuated::Punctuated;
    use quote::ToTokens;
    let stdin = io::stdin();
    let out = io::stdout();
    let mut out = io::BufWriter::new(out.lock());
    let mut j = Journal::open();
    for (n, line) in stdin.lock().lines().enumerate() {
        let line = match line {
            Ok(l) => l,
            Err(_) => break,
        };
        let src = match unhex(line.trim()) {
            Some(s) => s,
            None => continue,
        };
        j.note(&n.to_string());
        let ts: TokenStream = match src.parse() {
            Ok(t) => t,
            Err(_) => {
                let _ = writeln!(out, "{{\"id\":\"{}\",\"kind\":\"lexerr\"}}", n);
                continue;
            }
        };
        // reference: syn with feature `full`
        let refp = Punctuated::<syn::Expr, syn::Token![,]>::parse_terminated.parse2(ts.clone());
        let reference = match refp {
            Ok(p) => p
                .iter()
                .map(|e| {
                    let is_ident = matches!(e, syn::Expr::Path(p) if p.attrs.is_empty() && p.qself.is_none() && p.path.get_ident().is_some());
                    (flat(e.to_token_stream()), is_ident)
                })
                .collect::<Vec<_>>(),
            Err(_) => {
                let _ = writeln!(out, "{{\"id\":\"{}\",\"kind\":\"synreject\"}}", n);
                continue;
            }
        };
        let got = guarded(|| {
            Punctuated::<crate::parsing::Expr, syn::Token![,]>::parse_terminated
                .parse2(ts.clone())
                .map(|p| {
                    p.iter()
                        .map(|e| (flat(e.to_token_stream()), e.ident().is_some()))
                        .collect::<Vec<_>>()
                })
                .map_err(|e| e.to_string())
        });
        let fmt_list = |v: &Vec<(String, bool)>| {
            v.iter()
                .map(|(s, i)| format!("[{},{}]", jstr(s), i))
                .collect::<Vec<_>>()
                .join(",")
        };
        // predictive defect model for the known findings: frozen scanner + construct flags
        let snap = guarded(|| {
            Punctuated::<crate::scanner_snapshot::Expr, syn::Token![,]>::parse_terminated
                .parse2(ts.clone())
                .map(|p| p.iter().map(|e| (flat(e.to_token_stream()), e.ident().is_some())).collect::<Vec<_>>())
                .ok()
        })
        .ok()
        .flatten();
        let flags = {
            use syn::visit::Visit;
            #[derive(Default)]
            struct F {
                cast: bool,
                closure_ret: bool,
                bitor: bool,
            }
            impl<'ast> Visit<'ast> for F {
                fn visit_expr_cast(&mut self, n: &'ast syn::ExprCast) {
                    if n.ty.to_token_stream().to_string().contains('<') {
                        self.cast = true;
                    }
                    syn::visit::visit_expr_cast(self, n);
                }
                fn visit_expr_closure(&mut self, n: &'ast syn::ExprClosure) {
                    if let syn::ReturnType::Type(_, t) = &n.output {
                        if t.to_token_stream().to_string().contains('<') {
                            self.closure_ret = true;
                        }
                    }
                    syn::visit::visit_expr_closure(self, n);
                }
                fn visit_expr_binary(&mut self, n: &'ast syn::ExprBinary) {
                    if matches!(n.op, syn::BinOp::BitOr(_) | syn::BinOp::BitOrAssign(_)) {
                        self.bitor = true;
                    }
                    syn::visit::visit_expr_binary(self, n);
                }
            }
            let mut f = F::default();
            if let Ok(p) = Punctuated::<syn::Expr, syn::Token![,]>::parse_terminated.parse2(ts.clone()) {
                for e in p.iter() {
                    f.visit_expr(e);
                }
            }
            let mut v = Vec::new();
            if f.cast {
                v.push("cast-generic");
            }
            if f.closure_ret {
                v.push("closure-ret-generic");
            }
            if f.bitor {
                v.push("bitor");
            }
            v.join(",")
        };
        // end-to-end: the same list inside a real attribute
        let nargs = reference.len();
        let trailing = src.trim_end().ends_with(',');
        let sep = if nargs == 0 || trailing { "" } else { " ," };
        let item = format!("#[display(\"{{{}:?}}\", {}{} __probe)] struct S<T> {{ __probe: T }}", nargs, src, sep);
        let (probe, reemit) = match expand_one("Display", &item) {
            Exp::Ok(t) => {
                let ft = t.parse::<TokenStream>().map(flat).unwrap_or_default();
                // `T: <any path to>::Debug` among the where-predicates (the path's spelling is not the property's concern)
                let has_pred = ft
                    .split(" where ")
                    .nth(1)
                    .map(|w| w.split(" {").next().unwrap_or(""))
                    .map(|w| {
                        w.split(" , ").any(|p| {
                            let p = p.trim().trim_end_matches(" ,");
                            p.starts_with("T : ") && (p.ends_with(": : Debug") || p == "T : Debug")
                        })
                    })
                    .unwrap_or(false);
                let args_flat = flat(ts.clone());
                let args_flat = args_flat.trim_end_matches(" ,").trim_end_matches(',').to_string();
                // the same comparison with glued punctuation kept glued (`==` must not arrive as `= =`)
                let ftj = t.parse::<TokenStream>().map(flat_joint).unwrap_or_default();
                let args_j = flat_joint(ts.clone());
                let args_j = args_j.trim_end_matches(" ,").trim_end_matches(',').to_string();
                let joint_ok = args_j.is_empty() || ftj.contains(&args_j);
                (
                    if has_pred { "bound" } else { "nobound" },
                    if !(args_flat.is_empty() || ft.contains(&args_flat)) {
                        "altered"
                    } else if !joint_ok {
                        "reglued"
                    } else {
                        "verbatim"
                    },
                )
            }
            Exp::Err(_) => ("err", "err"),
            Exp::Panic(_) => ("panic", "panic"),
            _ => ("bad", "bad"),
        };
        // the list exactly as written (trailing comma included) next to an argument the derive adds itself
        // (`{__ptr:p}` makes it append `__ptr = *__ptr`): the macro call must still be a well-formed list
        let reemit = if reemit == "verbatim" && nargs > 0 {
            let item2 = format!("#[display(\"{{__ptr:p}}\", {})] struct S {{ __ptr: *const u8 }}", src);
            match expand_one("Display", &item2) {
                Exp::Ok(t) => {
                    let ft2 = t.parse::<TokenStream>().map(flat).unwrap_or_default();
                    let args_flat = flat(ts.clone());
                    let args_flat = args_flat.trim_end_matches(" ,").trim_end_matches(',').to_string();
                    if ft2.contains(", ,") || ft2.contains("( ,") {
                        "empty-argument"
                    } else if !ft2.contains(&args_flat) {
                        "altered-with-added-argument"
                    } else {
                        "verbatim"
                    }
                }
                Exp::Err(_) => "err-with-added-argument",
                Exp::Panic(_) => "panic",
                _ => "bad",
            }
        } else {
            reemit
        };
        // metamorphic: blanks around the `=` of a `name = expr` argument are insignificant (`al=-x` is `al = -x`)
        let alias = {
            let first = Punctuated::<syn::Expr, syn::Token![,]>::parse_terminated
                .parse2(ts.clone())
                .ok()
                .and_then(|p| p.first().map(|e| e.to_token_stream().to_string()));
            match first {
                Some(e) if !e.trim_start().starts_with('=') => {
                    let spaced = format!("#[display(\"{{al}}\", al = {})] struct S {{ __probe: u8 }}", e);
                    let tight = format!("#[display(\"{{al}}\", al={})] struct S {{ __probe: u8 }}", e.trim_start());
                    match (expand_one("Display", &spaced), expand_one("Display", &tight)) {
                        (Exp::Ok(a), Exp::Ok(b)) => {
                            let fa = a.parse::<TokenStream>().map(flat).unwrap_or_default();
                            let fb = b.parse::<TokenStream>().map(flat).unwrap_or_default();
                            if fa == fb { "same" } else { "differs" }
                        }
                        (Exp::Err(_), Exp::Err(_)) => "same",
                        (Exp::Panic(_), _) | (_, Exp::Panic(_)) => "panic",
                        _ => "differs",
                    }
                }
                _ => "na",
            }
        };
        let body = match got {
            Ok(Ok(v)) => format!(
                "\"kind\":\"ok\",\"alias\":\"{}\",\"probe\":\"{}\",\"reemit\":\"{}\",\"flags\":\"{}\",\"snap\":{},\"got\":[{}],\"want\":[{}]",
                alias,
                probe,
                reemit,
                flags,
                match &snap {
                    Some(sv) => format!("[{}]", fmt_list(sv)),
                    None => "null".to_string(),
                },
                fmt_list(&v),
                fmt_list(&reference)
            ),
            Ok(Err(e)) => format!("\"kind\":\"err\",\"msg\":{},\"want\":[{}]", jstr(&e), fmt_list(&reference)),
            Err(p) => panic_json(&p),
        };
        let _ = writeln!(out, "{{\"id\":\"{}\",{}}}", n, body);
    }
    let _ = out.flush();
}

// ---------------------------------------------------------------------------------------------
// C18 bulk: exhaustive short strings / random long strings through the literal parser and through
// the attribute-consuming derives, entirely in-process (only anomalies and counters are printed)

struct Rng(u64);
impl Rng {
    fn next(&mut self) -> u64 {
        // xorshift64*
        let mut x = self.0;
        x ^= x >> 12;
        x ^= x << 25;
        x ^= x >> 27;
        self.0 = x;
        x.wrapping_mul(0x2545F4914F6CDD1D)
    }
    fn below(&mut self, n: usize) -> usize {
        (self.next() % (n as u64)) as usize
    }
}

fn lit_token(s: &str) -> String {
    // a Rust string literal token for arbitrary text
    let mut o = String::from("\"");
    for c in s.chars() {
        match c {
            '"' => o.push_str("\\\""),
            '\\' => o.push_str("\\\\"),
            '\n' => o.push_str("\\n"),
            '\r' => o.push_str("\\r"),
            '\t' => o.push_str("\\t"),
            '\0' => o.push_str("\\0"),
            c if (c as u32) < 0x20 || c as u32 == 0x7f => o.push_str(&format!("\\u{{{:x}}}", c as u32)),
            c => o.push(c),
        }
    }
    o.push('"');
    o
}

const LIT_TEMPLATES: &[(&str, &str)] = &[
    ("Display", "#[display(@LIT@)] struct S;"),
    ("Display", "#[display(@LIT@, _0, _1)] struct S<T, U>(T, U);"),
    ("Display", "#[display(@LIT@, a = x, b = y)] struct S<T, U> { x: T, y: U }"),
    ("LowerHex", "#[lower_hex(@LIT@)] struct S<T>(T);"),
    ("Debug", "#[debug(@LIT@)] struct S<T>(T, u8);"),
    ("Debug", "struct S<T> { #[debug(@LIT@)] x: T, y: u8 }"),
    ("Debug", "enum E<T> { #[debug(@LIT@)] A(T), B { #[debug(@LIT@, x)] x: T } }"),
    ("Display", "#[display(@LIT@)] enum E<T> { A(T), #[display(@LIT@)] B { x: T }, C }"),
    ("Display", "enum E { #[display(@LIT@)] A, B(u8) }"),
    ("Display", "#[display(@LIT@, _variant)] enum E { A, B(u8) }"),
    ("Pointer", "#[pointer(@LIT@)] struct S<'a>(&'a u8);"),
    ("Display", "#[display(@LIT@)] union U { a: u8 }"),
];

fn bulk_one(lit: &str, stats: &mut BulkStats, out: &mut impl Write, full_templates: bool) {
    stats.literals += 1;
    match canon_literal(lit) {
        Ok(Some(_)) => stats.accepted += 1,
        Ok(None) => stats.rejected += 1,
        Err(p) => {
            stats.panics += 1;
            let _ = writeln!(out, "{{\"id\":{},\"where\":\"format_string\",{}}}", jstr(lit), panic_json(&p));
        }
    }
    let tok = lit_token(lit);
    let n = if full_templates { LIT_TEMPLATES.len() } else { 3 };
    for (k, (derive, tpl)) in LIT_TEMPLATES.iter().enumerate() {
        if k >= n && (stats.literals % 16 != (k as u64 % 16)) {
            continue;
        }
        let item = tpl.replace("@LIT@", &tok);
        stats.expansions += 1;
        match expand_one(derive, &item) {
            Exp::Ok(_) => stats.ok += 1,
            Exp::Err(_) => stats.err += 1,
            Exp::Panic(p) => {
                if p.class == "deliberate" {
                    stats.deliberate += 1;
                } else {
                    stats.panics += 1;
                    let _ = writeln!(
                        out,
                        "{{\"id\":{},\"where\":{},\"derive\":{},{}}}",
                        jstr(lit),
                        jstr(&item),
                        jstr(derive),
                        panic_json(&p)
                    );
                }
            }
            Exp::BadInput(_) => stats.badinput += 1,
            Exp::UnknownDerive => stats.badinput += 1,
        }
    }
}

#[derive(Default)]
struct BulkStats {
    literals: u64,
    accepted: u64,
    rejected: u64,
    expansions: u64,
    ok: u64,
    err: u64,
    deliberate: u64,
    panics: u64,
    badinput: u64,
}

/// args: <alphabet-hex> <maxlen> <shard> <nshards> <random_count> <seed> <full|lite>
fn mode_bulk18(args: &[String]) {
    let alphabet: Vec<char> = unhex(&args[0]).unwrap_or_default().chars().collect();
    let maxlen: usize = args[1].parse().unwrap_or(3);
    let shard: u64 = args[2].parse().unwrap_or(0);
    let nshards: u64 = args[3].parse().unwrap_or(1);
    let nrandom: u64 = args[4].parse().unwrap_or(0);
    let seed: u64 = args[5].parse().unwrap_or(1);
    let full = args.get(6).map(|s| s == "full").unwrap_or(false);
    let out = io::stdout();
    let mut out = io::BufWriter::new(out.lock());
    let mut stats = BulkStats::default();
    let mut j = Journal::open();
    // exhaustive part: strings are numbered in mixed radix; shard k takes numbers ≡ k mod nshards
    let a = alphabet.len() as u64;
    let mut idx: u64 = 0;
    for len in 0..=maxlen {
        let total = a.pow(len as u32);
        for n in 0..total {
            let me = idx % nshards == shard;
            idx += 1;
            if !me {
                continue;
            }
            let mut s = String::new();
            let mut m = n;
            for _ in 0..len {
                s.push(alphabet[(m % a) as usize]);
                m /= a;
            }
            j.note(&s);
            bulk_one(&s, &mut stats, &mut out, full);
        }
    }
    // random long strings: placeholders-ish fragments mixed with alphabet characters
    let frags = [
        "{", "}", "{{", "}}", "{}", "{0}", "{:", ":", "$", ".*", ".", "?", "x?", "X?", "#", "+", "-", "0", "1", "9",
        "18446744073709551615", "18446744073709551616", "99999999999999999999999999999999999999999", "<", "^", ">",
        "_variant", "_0", "_1", "x", "self", "é", "🦀", "\u{0301}", "ß", "\u{200d}", " ", "\n", "\\", "\"", "{x:?}",
        "{_0:>+#08.3e}", "{0:1$.2$}", "{:.*}", "{r#x}", "字",
    ];
    let mut rng = Rng(seed.wrapping_mul(0x9E3779B97F4A7C15) ^ (shard + 1).wrapping_mul(0xD1B54A32D192ED03) | 1);
    for _ in 0..nrandom {
        let n = 1 + rng.below(24);
        let mut s = String::new();
        for _ in 0..n {
            if rng.below(3) == 0 && !alphabet.is_empty() {
                s.push(alphabet[rng.below(alphabet.len())]);
            } else {
                s.push_str(frags[rng.below(frags.len())]);
            }
        }
        j.note(&s);
        bulk_one(&s, &mut stats, &mut out, true);
    }
    let _ = writeln!(
        out,
        "{{\"id\":\"#stats\",\"kind\":\"stats\",\"literals\":{},\"accepted\":{},\"rejected\":{},\"expansions\":{},\"ok\":{},\"err\":{},\"deliberate\":{},\"panics\":{},\"badinput\":{}}}",
        stats.literals, stats.accepted, stats.rejected, stats.expansions, stats.ok, stats.err, stats.deliberate, stats.panics, stats.badinput
    );
    let _ = out.flush();
}

// ---------------------------------------------------------------------------------------------

fn mode_info() {
    use std::hash::{BuildHasher, Hasher};
    let rs = std::collections::hash_map::RandomState::new();
    let mut h = rs.build_hasher();
    h.write(b"derive_more");
    println!(
        "{{\"id\":\"#info\",\"kind\":\"info\",\"random_state_fingerprint\":\"{:016x}\",\"derives\":{},\"cwd\":{}}}",
        h.finish(),
        crate::DERIVES.len(),
        jstr(&std::env::current_dir().map(|p| p.display().to_string()).unwrap_or_default())
    );
}

pub fn main() {
    let args: Vec<String> = std::env::args().collect();
    if args.len() < 2 {
        eprintln!("usage: inproc <expand|fmtparse|args|bulk18|info> ...");
        std::process::exit(64);
    }
    install_panic_hook();
    let mode = args[1].clone();
    let rest: Vec<String> = args[2..].to_vec();
    // run on a thread with rustc's main-thread stack size (8 MiB), so that stack exhaustion
    // happens where it would happen in the compiler
    let h = std::thread::Builder::new()
        .stack_size(8 * 1024 * 1024)
        .spawn(move || match mode.as_str() {
            "expand" => {
                if rest.iter().any(|a| a == "--info") {
                    mode_info();
                }
                mode_expand(&rest)
            }
            "fmtparse" => mode_fmtparse(&rest),
            "args" => mode_args(&rest),
            "bulk18" => mode_bulk18(&rest),
            "info" => mode_info(),
            _ => {
                eprintln!("unknown mode");
                std::process::exit(64);
            }
        })
        .expect("spawn");
    if h.join().is_err() {
        std::process::exit(70);
    }
}
