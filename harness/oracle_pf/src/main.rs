//! Reference for C03: std's own format-string parser (`rustc_parse_format`, the parser used by
//! `format_args!`), linked from nightly's rustc-dev component.
//! stdin: one hex-encoded literal per line; stdout: one JSON object per line.
#![feature(rustc_private)]
extern crate rustc_driver;
extern crate rustc_parse_format;

use rustc_parse_format::{Alignment, Count, DebugHex, ParseMode, Parser, Piece, Position};
use std::io::{self, BufRead, Write};

fn unhex(s: &str) -> Option<String> {
    let b = s.as_bytes();
    if b.len() % 2 != 0 {
        return None;
    }
    let mut out = Vec::with_capacity(b.len() / 2);
    for ch in b.chunks(2) {
        let h = (ch[0] as char).to_digit(16)?;
        let l = (ch[1] as char).to_digit(16)?;
        out.push((h * 16 + l) as u8);
    }
    String::from_utf8(out).ok()
}

fn jstr(s: &str) -> String {
    let mut o = String::with_capacity(s.len() + 2);
    o.push('"');
    for c in s.chars() {
        match c {
            '"' => o.push_str("\\\""),
            '\\' => o.push_str("\\\\"),
            '\n' => o.push_str("\\n"),
            '\r' => o.push_str("\\r"),
            '\t' => o.push_str("\\t"),
            c if (c as u32) < 0x20 => o.push_str(&format!("\\u{:04x}", c as u32)),
            c => o.push(c),
        }
    }
    o.push('"');
    o
}

fn trait_of(ty: &str) -> Option<&'static str> {
    Some(match ty {
        "" => "Display",
        "?" => "Debug",
        "o" => "Octal",
        "x" => "LowerHex",
        "X" => "UpperHex",
        "p" => "Pointer",
        "b" => "Binary",
        "e" => "LowerExp",
        "E" => "UpperExp",
        _ => return None,
    })
}

fn main() {
    let stdin = io::stdin();
    let out = io::stdout();
    let mut out = io::BufWriter::new(out.lock());
    for (n, line) in stdin.lock().lines().enumerate() {
        let line = match line {
            Ok(l) => l,
            Err(_) => break,
        };
        let lit = match unhex(line.trim()) {
            Some(s) => s,
            None => {
                let _ = writeln!(out, "{{\"id\":\"{}\",\"kind\":\"badhex\"}}", n);
                continue;
            }
        };
        let mut p = Parser::new(&lit, None, None, false, ParseMode::Format);
        let mut pieces = Vec::new();
        while let Some(piece) = p.next() {
            pieces.push(piece);
        }
        if !p.errors.is_empty() {
            let _ = writeln!(
                out,
                "{{\"id\":\"{}\",\"kind\":\"reject\",\"why\":{}}}",
                n,
                jstr(&p.errors[0].description)
            );
            continue;
        }
        let mut canon = String::new();
        let mut res = String::new();
        let mut bad_ty: Option<String> = None;
        let mut nph = 0;
        let mut nlit = 0;
        let mut modifiers = String::new();
        for piece in &pieces {
            let a = match piece {
                Piece::Lit(_) => {
                    nlit += 1;
                    continue;
                }
                Piece::NextArgument(a) => a,
            };
            nph += 1;
            if !canon.is_empty() {
                canon.push(';');
                res.push(';');
                modifiers.push(';');
            }
            match &a.position {
                Position::ArgumentImplicitlyIs(i) => {
                    canon.push('-');
                    res.push_str(&format!("i{}", i));
                }
                Position::ArgumentIs(i) => {
                    canon.push_str(&format!("i{}", i));
                    res.push_str(&format!("i{}", i));
                }
                Position::ArgumentNamed(s) => {
                    canon.push_str(&format!("n{}", s));
                    res.push_str(&format!("n{}", s));
                }
            }
            canon.push('|');
            let f = &a.format;
            let mut m = String::new();
            if f.fill.is_some() {
                m.push('f');
            }
            if f.align != Alignment::AlignUnknown {
                m.push('a');
            }
            if f.sign.is_some() {
                m.push('s');
            }
            if f.alternate {
                m.push('#');
            }
            if f.zero_pad {
                m.push('0');
            }
            match &f.width {
                Count::CountImplied => {}
                Count::CountIs(_) => m.push('w'),
                Count::CountIsName(s, _) => m.push_str(&format!("w(n{})", s)),
                Count::CountIsParam(i) => m.push_str(&format!("w(i{})", i)),
                Count::CountIsStar(_) => m.push_str("w*"),
            }
            match &f.precision {
                Count::CountImplied => {}
                Count::CountIs(_) => m.push('p'),
                Count::CountIsName(s, _) => m.push_str(&format!("p(n{})", s)),
                Count::CountIsParam(i) => m.push_str(&format!("p(i{})", i)),
                Count::CountIsStar(_) => m.push_str("p*"),
            }
            canon.push_str(&m);
            canon.push('|');
            let ty = match f.debug_hex {
                None => f.ty.to_string(),
                Some(DebugHex::Lower) => format!("x{}", f.ty),
                Some(DebugHex::Upper) => format!("X{}", f.ty),
            };
            canon.push_str(&ty);
            // "has any modifier" in the sense of C05: any flag/width/precision or hex-debug
            modifiers.push(if !m.is_empty() || f.debug_hex.is_some() { 'm' } else { '-' });
            match trait_of(f.ty) {
                Some(t) => {
                    res.push(':');
                    res.push_str(t);
                }
                None => bad_ty = Some(f.ty.to_string()),
            }
        }
        if let Some(t) = bad_ty {
            let _ = writeln!(
                out,
                "{{\"id\":\"{}\",\"kind\":\"reject\",\"why\":{}}}",
                n,
                jstr(&format!("unknown format trait `{}`", t))
            );
            continue;
        }
        let _ = writeln!(
            out,
            "{{\"id\":\"{}\",\"kind\":\"ok\",\"canon\":{},\"res\":{},\"mods\":{},\"n\":{},\"lits\":{}}}",
            n,
            jstr(&canon),
            jstr(&res),
            jstr(&modifiers),
            nph,
            nlit
        );
    }
    let _ = out.flush();
}
